"""Shared program corpus and runtime ground-truth legs for C01 / C02 / C20 / C06.

The generator, the instrumented managers (ground truth) and the drivers for the legs
`suspended`, `running`, `referents` live in `harness/progs_child.py` (one self-contained file,
so the very same code runs under the other interpreters); this module re-exports them, adds the
multi-interpreter orchestration, the purity leg (C06), `corpus_codes` for the static legs and a
self test:

    python -m harness.progs --selftest
    python -m harness.progs --leg suspended --tier quick [--seed 0] [--json out.json]

API (every leg returns dict(evaluations=int, violations=[{"what", "input", "sig"?}], info={...})):

    leg_suspended(tier, seed, mode="trickery")   C01
    leg_running(tier, seed)                      C02
    leg_referents(tier, seed)                    C20
    leg_purity(tier, seed)                       C06
    leg_known_discrepancies(tier, seed)          sig-tagged reproductions of recorded discrepancies
    corpus_codes(tier, seed, stdlib=True)        -> list of dict(code, source, origin, name, ...)
    collect_states(tier, seed, leg, limit)       -> (distinct observed states of program frames, leg result)
    corpus(tier, seed) / compile_corpus(tier, seed) / emit(desc) / execute(prog, vec, ...) /
    explore(prog, ...)                           building blocks, see progs_child.py

stackscope is imported inside functions only (the parent process imports modules to read CONFIG).
"""
from __future__ import annotations

import gc
import glob
import json
import os
import random
import subprocess
import sys
import sysconfig
import time
import types
import warnings
import weakref

from . import progs_child as core
from .progs_child import (VARIANTS, TIERS, Program, Run, corpus, compile_corpus, emit, execute,  # noqa: F401
                          explore, constructs, matrix_programs, enum_programs, gen_program,
                          iter_frames, view, show_view, same_view, mgr_label, own_frame, awaited_frame)

HERE = os.path.dirname(os.path.abspath(__file__))
CHILD = os.path.join(HERE, "progs_child.py")
SHIMS = os.path.join(HERE, "shims")


def repo_path():
    """Where the implementation under test lives: $VERIF_REPO, else wherever the stackscope that
    this process imports comes from (so that children test the same tree)."""
    if os.environ.get("VERIF_REPO"):
        return os.environ["VERIF_REPO"]
    try:
        import stackscope
        return os.path.dirname(os.path.dirname(os.path.abspath(stackscope.__file__)))
    except Exception:
        return "/repo"


# (label, glob of interpreter paths, needs shim dir)
OTHER_INTERPRETERS = (
    ("3.11", "/root/.pyenv/versions/3.11.*/bin/python", False),
    ("3.10", "/root/.pyenv/versions/3.10.*/bin/python", True),
    ("3.9", "/root/.pyenv/versions/3.9.*/bin/python", True),
)
CHILD_TIMEOUT = {"tiny": 120, "quick": 150, "thorough": 600}
# thorough tier: number of processes per interpreter (the corpus is split into that many shards;
# shard 0 of the running interpreter is executed in-process)
SHARDS = {"self": 3, "3.11": 2, "3.10": 1, "3.9": 1}


# ------------------------------------------------------------------------------------------
# other interpreters
# ------------------------------------------------------------------------------------------
def find_interpreters():
    """[(label, path | None, shim)] for the non-default interpreters of the C01 quantifier."""
    out = []
    for label, pat, shim in OTHER_INTERPRETERS:
        paths = sorted(glob.glob(pat))
        out.append((label, paths[-1] if paths else None, shim))
    return out


def _child_env(shim):
    pp = [repo_path()]
    if shim:
        pp.append(SHIMS)
    env = dict(os.environ, PYTHONPATH=os.pathsep.join(pp), PYTHONHASHSEED="0",
               PYTHONDONTWRITEBYTECODE="1", STACKSCOPE_VERIF="1")
    return env


def _spawn(path, shim, legs, tier, seed, shard):
    cmd = [path, CHILD, "--legs", ",".join(legs), "--tier", tier, "--seed", str(seed)]
    if shard:
        cmd += ["--shard", "%d/%d" % shard]
    return subprocess.Popen(cmd, stdout=subprocess.PIPE, stderr=subprocess.PIPE, text=True,
                            env=_child_env(shim), cwd="/")


def start_children(legs, tier, seed, shards=None, self_shards=0):
    """Start progs_child.py under every other interpreter present (and, for `self_shards` = n > 1,
    shards 1..n-1 under the running interpreter); returns handles for `collect_children`."""
    shards = shards or {}
    handles = []
    for k in range(1, self_shards):
        handles.append(("self", _spawn(sys.executable, False, legs, tier, seed, (k, self_shards)), sys.executable))
    for label, path, shim in find_interpreters():
        if path is None or not os.path.exists(path):
            handles.append((label, None, None))
            continue
        if shim and not os.path.exists(os.path.join(SHIMS, "typing_extensions.py")):
            handles.append((label, None, "shim dir %s incomplete" % SHIMS))
            continue
        n = shards.get(label, 1)
        for k in range(n):
            handles.append((label, _spawn(path, shim, legs, tier, seed, (k, n) if n > 1 else None), path))
    return handles


def collect_children(handles, tier):
    """-> [(label, {"skipped": reason} | {"results": {leg: result}, "rc", "path"} | {"failed": text})]"""
    out = []
    deadline = time.time() + CHILD_TIMEOUT.get(tier, 300)
    for label, p, path in handles:
        if p is None:
            out.append((label, {"skipped": path or "interpreter absent"}))
            continue
        try:
            so, se = p.communicate(timeout=max(1.0, deadline - time.time()))
        except subprocess.TimeoutExpired:
            p.kill()
            so, se = p.communicate()
            out.append((label, {"failed": "timeout", "stderr": (se or "")[-2000:], "path": path}))
            continue
        lines = [l for l in (so or "").splitlines() if l.strip()]
        try:
            res = json.loads(lines[-1])
        except Exception:
            out.append((label, {"failed": "rc=%s, no JSON result" % p.returncode, "stderr": (se or "")[-2000:], "path": path}))
            continue
        out.append((label, {"results": res, "rc": p.returncode, "path": path}))
    return out


def _add_counts(dst, src):
    for k, v in src.items():
        if isinstance(v, (int, float)) and not isinstance(v, bool):
            dst[k] = dst.get(k, 0) + v
        elif k not in dst:
            dst[k] = v


def _merge(res, leg, children):
    """Fold the children's results for `leg` into the in-process result `res`."""
    inter = {}
    for label, c in children:
        if "skipped" in c:
            inter[label] = {"skipped": c["skipped"]}
            continue
        if "failed" in c:
            inter.setdefault(label, {}).setdefault("failed", []).append(c["failed"])
            res["violations"].append({"what": "[%s] interpreter %s: child run failed: %s" % (leg, label, c["failed"]),
                                      "input": {"python": label, "stderr": c.get("stderr", "")}})
            continue
        r = c["results"].get(leg)
        if r is None:
            inter.setdefault(label, {}).setdefault("failed", []).append("leg missing from child result")
            continue
        res["evaluations"] += r["evaluations"]
        i = r.get("info", {})
        for v in r["violations"]:
            v = dict(v)
            if label != "self":
                v["what"] = "(python %s) %s" % (label, v["what"])
            res["violations"].append(v)
        if c.get("rc", 0) not in (0, None):
            res["violations"].append({"what": "[%s] interpreter %s exited with status %s" % (leg, label, c["rc"]),
                                      "input": {"python": label}})
        if label == "self":
            info = res["info"]
            _add_counts(info["counts"], i.get("counts", {}))
            for key in ("by_variant", "by_family", "by_construct", "truth_states"):
                _add_counts(info.setdefault(key, {}), i.get(key, {}))
            info["distinct_code_objects"] = info.get("distinct_code_objects", 0) + i.get("distinct_code_objects", 0)
            info["violations_total"] = info.get("violations_total", 0) + i.get("violations_total", 0)
            info["known_total"] = info.get("known_total", 0) + i.get("known_total", 0)
            info["truncated"] = bool(info.get("truncated")) or bool(i.get("truncated"))
            info["shard_walls"] = info.get("shard_walls", [info.get("wall")]) + [i.get("wall")]
            info["shard_cpus"] = info.get("shard_cpus", [info.get("cpu")]) + [i.get("cpu")]
        else:
            d = inter.setdefault(label, {"evaluations": 0, "violations_total": 0, "wall": [], "truncated": False,
                                         "python": i.get("python"), "counts": {}})
            d["evaluations"] += r["evaluations"]
            d["violations_total"] += i.get("violations_total", len(r["violations"]))
            d["known_total"] = d.get("known_total", 0) + i.get("known_total", 0)
            d["wall"].append(i.get("wall"))
            d.setdefault("cpu", []).append(i.get("cpu"))
            d["truncated"] = d["truncated"] or bool(i.get("truncated"))
            _add_counts(d["counts"], {k: v for k, v in i.get("counts", {}).items()
                                      if k in ("programs", "branch_vectors", "observation_points", "throw_runs",
                                               "fault_injections", "mode_switch_checks", "aborted_runs")})
            d["distinct_code_objects"] = d.get("distinct_code_objects", 0) + i.get("distinct_code_objects", 0)
    res["info"]["interpreters"] = inter
    return res


def _with_children(leg, fn, tier, seed, **kw):
    if tier != "thorough":
        # the other interpreters (3.11, and 3.10 / 3.9 whose block-stack code path in
        # _lowlevel_cpython_310.py is never executed by the default interpreter) run the same quick corpus
        # in child processes while this process does the quick one
        t0 = time.time()
        handles = start_children([leg], "quick", seed, {}, 0) if tier == "quick" else []
        try:
            res = fn(tier, seed, **kw)
        finally:
            children = collect_children(handles, "quick") if handles else []
        if handles:
            res = _merge(res, leg, children)
            res["info"]["wall_total"] = round(time.time() - t0, 2)
        else:
            res["info"]["interpreters"] = {label: {"skipped": "quick and thorough tiers only"} for label, _, _ in OTHER_INTERPRETERS}
        return res
    t0 = time.time()
    n = SHARDS["self"]
    handles = start_children([leg], tier, seed, SHARDS, n)
    try:
        res = fn(tier, seed, shard=(0, n), **kw)
    finally:
        children = collect_children(handles, tier)
    res = _merge(res, leg, children)
    res["info"]["wall_total"] = round(time.time() - t0, 2)
    return res


# ------------------------------------------------------------------------------------------
# legs C01 / C02 / C20
# ------------------------------------------------------------------------------------------
def leg_suspended(tier="quick", seed=0, mode="trickery"):
    """[C01] At every suspension point of every generated program under every branch vector
    (send loop, plus throw() resumptions), `extract(obj).frames[..].contexts` and
    `lowlevel.contexts_active_in_frame(frame, obj, next_inner)` must equal the logged truth of
    the program's own frame (and of the generator frames of G2/AG2 managers): identical manager
    objects outermost first, is_async, is_exiting exactly on the one whose exit is in progress,
    entering managers absent; InspectionWarning is an error.  Thorough: also 3.11/3.10/3.9."""
    if mode == "referents":
        return leg_referents(tier, seed)
    return _with_children("suspended", core.leg_suspended, tier, seed)


def leg_running(tier="quick", seed=0):
    """[C02] Same programs; observation = calls made from inside bodies (`probe()`) and from
    inside every __enter__/__exit__/__aenter__/__aexit__ (and the bodies of generator-based
    managers) via extract_since(None) / extract(StackSlice(outer=..)) / extract_since(frame);
    the program's running frame is located in the result and compared with the truth."""
    return _with_children("running", core.leg_running, tier, seed)


def leg_referents(tier="quick", seed=0):
    """[C20] as leg_suspended with set_trickery_enabled(False): ordered superset relation; plus
    set_trickery_enabled sequences (also from/on a second thread) and k-th-invocation faults in
    every helper of the trickery analysis."""
    res = _with_children("referents", core.leg_referents, tier, seed)
    # the recorded C20 finding F21 (aliased exit methods are invisible to the fallback) is
    # reproduced on dedicated programs and reported with its signature; everything else above is
    # an ordinary violation
    known = leg_known_discrepancies(tier, seed)
    res["evaluations"] += known["evaluations"]
    res["violations"] += known["violations"]      # sig-tagged ones, plus any unclassified failure
    res["known_reproduced"] = known["known_reproduced"]
    res["info"]["violations_total"] = res["info"].get("violations_total", 0) + known["info"].get("violations_total", 0)
    res["info"]["known_total"] = res["info"].get("known_total", 0) + known["info"].get("known_total", 0)
    res["info"]["known_leg"] = {"evaluations": known["evaluations"], "known_total": known["info"].get("known_total"),
                                "parts": known["info"].get("parts"), "interpreters": known["info"].get("interpreters")}
    return res


def leg_known_discrepancies(tier="quick", seed=0):
    """Recorded discrepancies between /repo and the property texts, reproduced on dedicated
    programs; every matching violation carries `sig`, result["known_reproduced"] lists the
    signatures seen (see progs_child.KNOWN_SIGS).  Not part of the other legs, which therefore
    stay at 0 violations on the unchanged tree:
      referents_alias_exit_name  (C20, known_findings.json F21)
    progs.leg_referents appends these violations and sets result["known_reproduced"]."""
    res = _with_children("known", core.leg_known, tier, seed)
    res["known_reproduced"] = sorted(set(v["sig"] for v in res["violations"] if v.get("sig")))
    return res


def collect_states(tier="quick", seed=0, leg="suspended", limit=None, progs=None):
    """Observed states of the programs' own frames, for abstraction into the Coq machine: list of
    dict(pid, code, lasti, running, vector, throw_at, truth=[[site, is_async, phase]...],
    reported=[[site|None, is_async, is_exiting]...]); `site` is the second argument of the
    M(kind, site) call, see Program.sites {site: [line, item index, kind, is_async]}.
    Duplicates (same code, lasti, truth, reported) are dropped.  Also returns the leg result."""
    seen = set()
    out = []

    def obs(rec):
        key = (id(rec["code"]), rec["lasti"], rec["running"], json.dumps(rec["truth"]), json.dumps(rec["reported"]))
        if key in seen or (limit is not None and len(out) >= limit):
            return
        seen.add(key)
        out.append(rec)

    fn = core.leg_suspended if leg == "suspended" else core.leg_running
    if progs is None:
        progs = compile_corpus(tier, seed)
    res = fn(tier, seed, progs=progs, observer=obs)
    return out, res


# ------------------------------------------------------------------------------------------
# C06 purity
# ------------------------------------------------------------------------------------------
PURITY = {
    # programs: how many programs of the (shuffled) tier corpus are twin-run; max_runs: branch
    # vectors per program; gc_every: full retention check (gc.collect + weakrefs) every n-th twin
    "tiny": dict(programs=36, max_runs=4, gc_every=8, abandon=20, deadline=20.0),
    "quick": dict(programs=38, max_runs=6, gc_every=8, abandon=30, deadline=36.0),
    "thorough": dict(programs=800, max_runs=12, gc_every=1, abandon=400, deadline=430.0),
}


def _snap_codes():
    return (_obs_probe.__code__,)


def stack_sig(st, stop_codes=()):
    """Equality of two extractions: pyframe identity, lineno, and per context obj identity,
    flags, varname, start_line (recursively through inner stacks)."""
    frames = []
    for fr in st.frames:
        if fr.pyframe.f_code in stop_codes:
            break
        frames.append((id(fr.pyframe), fr.lineno,
                       tuple((id(cx.obj) if cx.obj is not None else None, bool(cx.is_async), bool(cx.is_exiting),
                              cx.varname, cx.start_line,
                              stack_sig(cx.inner_stack) if cx.inner_stack is not None else None)
                             for cx in fr.contexts)))
    return (tuple(frames), type(st.leaf).__name__, type(st.error).__name__)


def _stack_objects(obj):
    """Objects that are referenced from the value stack of the suspended obj only: the bound
    exit methods the with statements pushed."""
    root = obj if sys.version_info >= (3, 11) else own_frame(obj)
    out = []
    if root is None:
        return out
    for r in gc.get_referents(root):
        if isinstance(r, types.MethodType) and r.__func__.__name__ in ("__exit__", "__aexit__"):
            out.append(r)
    return out


def _obs_probe(st8, R, outer):
    import stackscope
    a = b = None
    for i in (0, 1):
        s = stackscope.extract_since(outer)
        if i == 0:
            a = s
        else:
            b = s
    return a, b


def purity_programs():
    """Loops whose body is `with M(...): <suspend>`: the same suspension offset is reached again
    with a different manager instance (no `as` target, so the old one dies with its exit)."""
    for variant in ("gen", "coro", "agen"):
        a = variant in core.ASYNC_VARIANTS
        yield {"variant": variant, "family": "purity", "tag": "loop/with/susp",
               "body": [["for", [["with", False, [["S", "n"]], [["susp"]]]], None], ["susp"]]}
        yield {"variant": variant, "family": "purity", "tag": "while/with+hold/susp",
               "body": [["while", [["with", False, [["G", "n"], ["Sw", "n"]], [["hold"], ["susp"]]], ["susp"]], None]]}
        if a:
            yield {"variant": variant, "family": "purity", "tag": "loop/async with/susp",
                   "body": [["for", [["with", True, [["A", "n"]], [["susp"]]]], None], ["susp"]]}
            yield {"variant": variant, "family": "purity", "tag": "loop/with in async with/susp",
                   "body": [["with", True, [["A0", "v"]], [["for", [["with", False, [["S", "n"]], [["susp"], ["susp"]]]], None]]]]}


def _abandon_case(prog, k, baseline):
    """Drive a gen/coro program to its k-th suspension, make every manager that is entered point
    back to the target, extract twice (unless `baseline`), drop everything including the
    unfinished target, collect.  -> None (no manager entered there) | (names of survivors,)"""
    import stackscope
    R = Run([True, False, True])
    hook = sys.unraisablehook
    sys.unraisablehook = lambda *a: None
    try:
        g = prog.instantiate(R)()
        try:
            for i in range(k + 1):
                g.send(None if i == 0 else 1)
        except BaseException:
            g = None
            return None
        mgrs = [e[0] for lst in R.truth.values() for e in lst]
        if not mgrs:
            try:
                g.close()
            except BaseException:
                pass
            g = None
            return None
        refs = [weakref.ref(g)]
        for m in mgrs:
            m.backref = g
            refs.append(weakref.ref(m))
        m = None
        del mgrs
        if not baseline:
            a = stackscope.extract(g, with_contexts=True)
            b = stackscope.extract(g, with_contexts=True)
            del a, b
        R.truth.clear()
        R.foi = []
        R.release()               # the managers' exits run during collection, into R's own log
        g = None
        gc.collect()
        gc.collect()
        alive = sorted({type(r()).__name__ for r in refs if r() is not None})
        return (alive,)
    finally:
        g = None
        R.release()
        gc.collect()              # nothing of this target is left to be finalised during a later run
        sys.unraisablehook = hook


def leg_purity(tier="quick", seed=0):
    """[C06] twin runs (observed at a subset of suspension/probe points, possibly repeatedly, vs
    never): identical event trace; two extractions of an unchanged target compare equal;
    refcounts of value-stack-only objects return to baseline; managers / generator objects /
    sentinels are collectable once the Stacks are dropped; both analysis modes.
    Also: what each extraction reports is compared with the truth (a loop that parks at the same
    offset with a new manager must report the new one); at every suspension the set of
    managers/sentinels still alive (after gc.collect(), results dropped, target still alive) must
    equal the unobserved twin's; an abandoned target whose managers refer back to it must be
    collectable after dropping all results."""
    import stackscope
    ll = core._ll()
    t0 = time.time()
    c0 = time.process_time()
    cfg = PURITY[tier]
    col = core.Collector("purity")
    rng = random.Random(seed * 9176 + 11)
    descs = corpus(tier, seed)
    random.Random(seed * 13 + 7).shuffle(descs)
    progs = []
    seen = set()
    descs = list(purity_programs()) + descs
    for i, d in enumerate(descs):
        if len(progs) >= cfg["programs"]:
            break
        pr = Program(d, "%s_%d" % (d.get("family", "p"), i))
        if (pr.variant, pr.src) in seen:
            continue
        seen.add((pr.variant, pr.src))
        progs.append(pr)
    del descs
    # keep full collections cheap: everything allocated so far is not the target's
    gc.collect()
    if hasattr(gc, "freeze"):
        gc.freeze()
    truncated = False
    stop_codes = _snap_codes()
    state = {}
    notes = {}

    def alive_now(R):
        gc.collect()
        return ([i + 1 for i, w in enumerate(R.mgr_refs) if w() is not None],
                [i for i, w in enumerate(R.sentinels) if w() is not None])

    def on_suspend_base(R, obj, how, idx):
        R.alive_log.append(alive_now(R))

    def on_suspend(R, obj, how, idx):
        if state["alive"] is not None:
            # results of earlier extractions were dropped, the target is still alive: nothing of
            # it may live longer than in the unobserved twin
            col.evaluations += 1
            col.count("alive_set_checks")
            want = state["alive"][idx] if idx < len(state["alive"]) else None
            got = alive_now(R)
            if want is not None and got != want:
                # CPython <= 3.12 keeps the dict made by frame.f_locals (which the analysis reads)
                # on the frame: a local that was rebound since stays referenced by that snapshot
                # until f_locals is read again or the frame ends.  That reference is the
                # interpreter's, not stackscope's: refresh the snapshots and look again.
                for kind, ref, owner in R.foi:
                    fr = own_frame(obj) if kind == "code" else own_frame(ref)
                    if fr is not None:
                        fr.f_locals
                fr = None
                got2 = alive_now(R)
                if got2 == want:
                    col.count("retained_only_by_f_locals_snapshot")
                    if "f_locals_snapshot_example" not in notes:
                        notes["f_locals_snapshot_example"] = {"program": state["prog"].src, "vector": list(R.vec),
                                                              "suspension_index": idx, "alive": got, "twin": want}
                got = got2
            if want is not None and got != want:
                col.violation("objects of the target outlive the unobserved twin at suspension %d while the target is "
                              "alive: managers (by creation order) %r vs %r, sentinels %r vs %r"
                              % (idx, got[0], want[0], got[1], want[1]), R, state["prog"],
                              suspension_index=idx, mode=state["mode"], observed=state["variant"])
        if not state["mask"](("s", idx)):
            return
        col.count("observation_points")
        sentinels = [s for s in (w() for w in R.sentinels) if s is not None]
        objs = sentinels + _stack_objects(obj)
        base = [sys.getrefcount(x) for x in objs]
        reps = state["reps"]
        sts = []
        try:
            for _ in range(reps):
                sts.append(stackscope.extract(obj, with_contexts=True))
        except BaseException as ex:
            col.violation("extract raised %r" % (ex,), R, state["prog"], suspension_index=idx)
            return
        col.evaluations += 1
        for fr in sts[-1].frames:
            if R.owner_of(fr.pyframe) == "main":
                got = view(fr.contexts)
                if state["mode"] == "trickery":
                    msg = None if same_view(got, R.expected("main")) else "contexts differ from truth"
                else:
                    msg = core.referents_ok(got, R, "main")
                col.evaluations += 1
                if msg:
                    col.violation("extraction (repeated / after earlier extractions): " + msg, R, state["prog"],
                                  suspension_index=idx, mode=state["mode"], got=show_view(got),
                                  expected=show_view(R.expected("main")), lasti=fr.pyframe.f_lasti)
                got = None
        fr = None
        sigs = [stack_sig(s) for s in sts]
        if any(s != sigs[0] for s in sigs[1:]):
            col.violation("two extractions of an unchanged suspended target differ", R, state["prog"],
                          suspension_index=idx, mode=state["mode"])
        if state["keep"]:
            state["kept"].append(sts[0])
        del sts
        s = None
        col.evaluations += 1
        col.count("refcount_objects", len(objs))
        after = [sys.getrefcount(x) for x in objs]
        if state["keep"]:
            # the Stack we keep may legitimately pin nothing that lives only on the value stack
            pass
        if after != base:
            gc.collect()
            after = [sys.getrefcount(x) for x in objs]
        if after != base:
            col.violation("refcount of value-stack-only objects changed: %r -> %r" % (base, after), R,
                          state["prog"], suspension_index=idx, mode=state["mode"],
                          objects=[type(x).__name__ for x in objs])

    def on_probe(R, where, mgr, idx):
        if not state["mask"](("p", idx)):
            return
        col.count("observation_points")
        try:
            a, b = _obs_probe(None, R, R.driver_frame)
        except BaseException as ex:
            col.violation("extract_since raised %r" % (ex,), R, state["prog"], probe_index=idx)
            return
        col.evaluations += 1
        if stack_sig(a, stop_codes) != stack_sig(b, stop_codes):
            col.violation("two extractions of an unchanged running target differ", R, state["prog"],
                          probe_index=idx, mode=state["mode"])
        if state["keep"]:
            state["kept"].append(a)

    try:
        with warnings.catch_warnings():
            warnings.simplefilter("ignore")
            for mode in ("trickery", "referents"):
                ll.set_trickery_enabled(mode == "trickery")
                state["mode"] = mode
                for pi, prog in enumerate(progs):
                    if mode == "referents" and pi % 2:
                        continue
                    if time.time() - t0 > cfg["deadline"] * (0.62 if mode == "trickery" else 1.0):
                        truncated = True
                        break
                    col.note_program(prog)
                    state["prog"] = prog
                    vectors = []

                    def visit(R, prefix):
                        vectors.append((list(prefix), R.trace, R.nsusp, R.alive_log))

                    explore(prog, None, cfg["max_runs"], None, on_suspend_base, visit)
                    jobs = [(vec, None, log, al) for vec, log, ns, al in vectors]
                    # one throw twin per program
                    if vectors and vectors[-1][2]:
                        k = rng.randrange(vectors[-1][2])
                        Rb = execute(prog, vectors[-1][0], k, None, on_suspend_base)
                        jobs.append((vectors[-1][0], k, Rb.trace, Rb.alive_log))
                        del Rb
                    for vec, throw_at, base_log, base_alive in jobs:
                        col.count("branch_vectors")
                        for variant in ("all", "subset", "repeat"):
                            state["variant"] = variant
                            # Stacks are kept only in the "repeat" variant; in the others every
                            # result is dropped at once, so lifetimes must match the twin's
                            state["alive"] = base_alive if variant != "repeat" else None
                            if variant == "all":
                                state["mask"] = lambda key: True
                                state["reps"] = 2
                            elif variant == "subset":
                                chosen = rng.getrandbits(64)
                                state["mask"] = lambda key, chosen=chosen: bool((chosen >> ((key[1] * 2 + (key[0] == "p")) % 64)) & 1)
                                state["reps"] = 2
                            else:
                                chosen = rng.getrandbits(64)
                                state["mask"] = lambda key, chosen=chosen: bool((chosen >> ((key[1] * 2 + (key[0] == "p")) % 64)) & 1)
                                state["reps"] = 4
                            state["keep"] = variant == "repeat"
                            state["kept"] = []
                            R1 = execute(prog, vec, throw_at, on_probe, on_suspend)
                            col.evaluations += 1
                            col.count("twin_runs")
                            # traces were frozen when each driver finished (Run.release): events that
                            # a finaliser adds to a run's log later are not part of the comparison
                            if R1.trace != base_log:
                                i = 0
                                while i < min(len(R1.trace), len(base_log)) and R1.trace[i] == base_log[i]:
                                    i += 1
                                col.violation("event trace of the observed run differs from the unobserved twin at event %d: %r vs %r"
                                              % (i, list(R1.trace[i:i + 3]), list(base_log[i:i + 3])), R1, prog, mode=mode, observed=variant)
                            # retention: nothing of the target survives once the Stacks are dropped
                            refs = list(R1.mgr_refs) + list(R1.sentinels)
                            if R1.main_obj is not None:
                                refs.append(weakref.ref(R1.main_obj))
                            nrefs = len(refs)
                            desc = (list(R1.vec), R1.throw_at)
                            R1.main_obj = None
                            R1.truth.clear()
                            R1.foi = []
                            R1 = None
                            state["kept"] = None
                            if (col.counts.get("twin_runs", 0) % cfg["gc_every"]) == 0:
                                gc.collect()
                                col.evaluations += 1
                                col.count("retention_checks")
                                col.count("weakrefs_checked", nrefs)
                                alive = [r() for r in refs if r() is not None]
                                if alive:
                                    Rd = Run(desc[0], desc[1])
                                    col.violation("objects of the target still alive after dropping all results: %s"
                                                  % sorted({type(x).__name__ for x in alive}), Rd, prog, mode=mode,
                                                  referrers=[[type(q).__name__ for q in gc.get_referrers(x)][:6] for x in alive[:3]])
                                del alive
                            del refs
                # abandoned (never finished) targets whose managers refer back to them
                for prog in progs[: cfg["abandon"]]:
                    if prog.variant not in ("gen", "coro"):
                        continue
                    if time.time() - t0 > cfg["deadline"]:
                        truncated = True
                        break
                    for k in range(3):
                        try:
                            r = _abandon_case(prog, k, True)
                            alive = _abandon_case(prog, k, False) if r is not None and not r[0] else None
                        except Exception:
                            col.count("abandon_errors")
                            break
                        if r is None:
                            continue
                        if r[0]:
                            col.count("abandon_baseline_uncollectable")
                            break
                        col.evaluations += 1
                        col.count("abandon_checks")
                        if alive and alive[0]:
                            col.violation("abandoned target with back-referencing managers is not collectable after dropping "
                                          "all results: %s still alive" % (alive[0],), Run([], None), prog,
                                          suspension_index=k, mode=mode)
                        break
    finally:
        ll.set_trickery_enabled(None)
        if hasattr(gc, "unfreeze"):
            gc.unfreeze()
    return col.result(wall=round(time.time() - t0, 2), cpu=round(time.process_time() - c0, 2),
                      truncated=truncated, tier=tier, seed=seed, notes=notes)


# ------------------------------------------------------------------------------------------
# code objects for the static legs
# ------------------------------------------------------------------------------------------
_WITH_OPS = None


def has_with(code):
    """Does this code object itself (not nested ones) contain a with / async with?"""
    global _WITH_OPS
    if _WITH_OPS is None:
        import dis
        _WITH_OPS = frozenset(dis.opmap[k] for k in ("BEFORE_WITH", "BEFORE_ASYNC_WITH", "SETUP_WITH", "SETUP_ASYNC_WITH")
                              if k in dis.opmap)
    return any(b in _WITH_OPS for b in code.co_code[::2])


def walk_codes(code, qual=""):
    name = code.co_name if not qual else qual + "." + code.co_name
    yield code, name
    for c in code.co_consts:
        if isinstance(c, types.CodeType):
            for x in walk_codes(c, name):
                yield x


STDLIB_SKIP = ("test", "tests", "idlelib", "lib2to3", "site-packages", "__pycache__", "idle_test")


def stdlib_codes():
    """Every code object containing a with statement compiled from the running interpreter's
    standard library (skipping test/idlelib/lib2to3)."""
    std = sysconfig.get_paths()["stdlib"]
    out = []
    skipped = []
    for root, dirs, files in os.walk(std):
        dirs[:] = sorted(d for d in dirs if d not in STDLIB_SKIP)
        for f in sorted(files):
            if not f.endswith(".py"):
                continue
            path = os.path.join(root, f)
            try:
                with open(path, "rb") as fh:
                    raw = fh.read()
                top = compile(raw, path, "exec", dont_inherit=True)
                text = raw.decode("utf8", "replace")
            except Exception as ex:  # a file the running interpreter cannot compile
                skipped.append((path, repr(ex)))
                continue
            lines = None
            rel = os.path.relpath(path, std)
            for co, qual in walk_codes(top):
                if not has_with(co):
                    continue
                if lines is None:
                    lines = text.splitlines(True)
                first = co.co_firstlineno
                try:
                    last = max([l for (_, _, l) in co.co_lines() if l] or [first])
                except AttributeError:
                    last = first
                if co.co_name == "<module>":
                    src = text
                else:
                    src = "".join(lines[max(first - 1, 0):last])
                out.append({"code": co, "source": src, "origin": "stdlib", "name": "%s:%s:%d" % (rel, qual, first),
                            "file": path, "firstlineno": first, "lastlineno": last})
    return out, skipped


def corpus_codes(tier="quick", seed=0, stdlib=True):
    """Code objects (with their source) for the static legs: all generated programs of the
    tier, then every stdlib code object containing a with statement.  Each entry:
    dict(code, source, origin="generated"|"stdlib", name, ...)."""
    out = []
    for p in compile_corpus(tier, seed):
        out.append({"code": p.code, "source": p.src, "origin": "generated", "name": p.pid,
                    "variant": p.variant, "family": p.desc.get("family"), "tree": p.desc["body"],
                    "flags": p.desc.get("flags"), "sites": p.sites, "program": p})
    if stdlib:
        std, _ = stdlib_codes()
        out.extend(std)
    return out


# ------------------------------------------------------------------------------------------
# self test
# ------------------------------------------------------------------------------------------
def _negative_controls():
    """The checks must notice a wrong answer: perturb stackscope harness-side and expect
    violations from each leg."""
    ll = core._ll()
    out = {}
    progs = compile_corpus("tiny", 0)
    orig_t = ll._contexts_active_by_trickery
    orig_r = ll._contexts_active_by_referents

    def drop_last(frame):
        r = orig_t(frame)
        return r[:-1]

    def rev(frame):
        r = orig_t(frame)
        return r[::-1]

    def ref_drop(frame, origin):
        r = orig_r(frame, origin)
        return r[1:]

    try:
        ll._contexts_active_by_trickery = drop_last
        ll.set_trickery_enabled(True)  # skip the self test, which would switch trickery off
        out["suspended/drop-innermost"] = core.leg_suspended("tiny", 0, progs=progs)["info"]["violations_total"]
        out["running/drop-innermost"] = core.leg_running("tiny", 0, progs=progs)["info"]["violations_total"]
        ll._contexts_active_by_trickery = rev
        out["suspended/reversed"] = core.leg_suspended("tiny", 0, progs=progs)["info"]["violations_total"]
        ll._contexts_active_by_trickery = orig_t
        ll._contexts_active_by_referents = ref_drop
        out["referents/drop-outermost"] = core.leg_suspended("tiny", 0, mode="referents", progs=progs)["info"]["violations_total"]
    finally:
        ll._contexts_active_by_trickery = orig_t
        ll._contexts_active_by_referents = orig_r
        ll.set_trickery_enabled(None)
    # purity: results retained / value stack objects retained / target advanced by the observer
    import stackscope._extract as ex
    orig_c = ex.contexts_active_in_frame
    orig_i = ll.inspect_frame
    stash = []

    def retain(*a):
        r = orig_c(*a)
        stash.append(r)
        return r

    def leak(frame):
        d = orig_i(frame)
        stash.append(d)
        return d

    def advance(*a):
        r = orig_c(*a)
        for cx in r:
            g = getattr(cx.obj, "gen", None)
            if g is not None and hasattr(g, "close") and not cx.is_exiting:
                g.close()
        return r

    def viol(res, word):
        return sum(1 for v in res["violations"] if word in v["what"])

    try:
        ex.contexts_active_in_frame = retain
        out["purity/results-retained"] = viol(leg_purity("tiny", 0), "still alive")
        ex.contexts_active_in_frame = orig_c
        stash[:] = []
        ll.inspect_frame(sys._getframe(0))
        orig_i = ll.inspect_frame
        ll.inspect_frame = leak
        out["purity/stack-objects-retained"] = viol(leg_purity("tiny", 0), "refcount")
        ll.inspect_frame = orig_i
        stash[:] = []
        ex.contexts_active_in_frame = advance
        out["purity/target-advanced"] = viol(leg_purity("tiny", 0), "event trace")
    finally:
        ex.contexts_active_in_frame = orig_c
        ll.inspect_frame = orig_i
        stash[:] = []
    return out


def selftest():
    ok = True
    t0 = time.time()
    print("interpreters:", [(l, p) for l, p, _ in find_interpreters()])
    # determinism
    a = [emit(d) for d in corpus("tiny", 3)]
    b = [emit(d) for d in corpus("tiny", 3)]
    print("corpus deterministic:", a == b, "programs:", len(a))
    ok &= a == b
    for name, fn in (("suspended", leg_suspended), ("running", leg_running), ("referents", leg_referents),
                     ("purity", leg_purity)):
        r = fn("tiny", 0)
        c = r["info"]["counts"]
        print("%-10s evaluations=%d violations=%d programs=%s vectors=%s points=%s wall=%ss" % (
            name, r["evaluations"], r["info"]["violations_total"], c.get("programs"), c.get("branch_vectors"),
            c.get("observation_points"), r["info"].get("wall")))
        for v in [v for v in r["violations"] if not v.get("sig")][:3]:
            print("   VIOLATION", v["what"])
            print("   ", json.dumps(v["input"], default=repr)[:1500])
        ok &= r["info"]["violations_total"] == 0 and r["evaluations"] > 0
    r = leg_known_discrepancies("tiny", 0)
    print("known      evaluations=%d unclassified=%d tagged=%d reproduced=%s" % (
        r["evaluations"], r["info"]["violations_total"], r["info"]["known_total"], r["known_reproduced"]))
    ok &= r["info"]["violations_total"] == 0
    neg = _negative_controls()
    print("negative controls (violations expected > 0):", neg)
    ok &= all(v > 0 for v in neg.values())
    codes = corpus_codes("tiny", 0)
    ng = sum(1 for c in codes if c["origin"] == "generated")
    ns = sum(1 for c in codes if c["origin"] == "stdlib")
    print("corpus_codes: generated=%d stdlib=%d" % (ng, ns))
    ok &= ng > 0 and ns > 100
    # children
    hs = start_children(["suspended", "running", "referents"], "tiny", 0)
    ch = collect_children(hs, "tiny")
    for label, c in ch:
        if "results" in c:
            print("python %s:" % label, {k: (v["evaluations"], v["info"].get("violations_total")) for k, v in c["results"].items()})
            ok &= all(v["info"].get("violations_total") == 0 and v["evaluations"] > 0 for v in c["results"].values())
        elif "skipped" in c:
            print("python %s: skipped (%s)" % (label, c["skipped"]))
        else:
            print("python %s: FAILED %s\n%s" % (label, c["failed"], c.get("stderr", "")))
            ok = False
    print("selftest", "OK" if ok else "FAILED", "%.1fs" % (time.time() - t0))
    return 0 if ok else 1


def main(argv=None):
    import argparse
    ap = argparse.ArgumentParser(prog="python -m harness.progs")
    ap.add_argument("--selftest", action="store_true")
    ap.add_argument("--leg", choices=["suspended", "running", "referents", "purity", "known", "codes"])
    ap.add_argument("--tier", default="quick")
    ap.add_argument("--seed", type=int, default=0)
    ap.add_argument("--json")
    a = ap.parse_args(argv)
    if a.selftest or not a.leg:
        return selftest()
    if a.leg == "codes":
        cs = corpus_codes(a.tier, a.seed)
        print("code objects:", len(cs), "generated:", sum(1 for c in cs if c["origin"] == "generated"))
        return 0
    fn = {"suspended": leg_suspended, "running": leg_running, "referents": leg_referents, "purity": leg_purity,
          "known": leg_known_discrepancies}[a.leg]
    r = fn(a.tier, a.seed)
    if a.json:
        with open(a.json, "w") as fh:
            json.dump(r, fh, indent=1, default=repr)
    info = dict(r["info"])
    print(json.dumps({"evaluations": r["evaluations"], "violations_total": info.get("violations_total"),
                      "counts": info.get("counts"), "wall": info.get("wall"), "cpu": info.get("cpu"), "shard_cpus": info.get("shard_cpus"), "truncated": info.get("truncated"),
                      "interpreters": info.get("interpreters")}, indent=1, default=repr))
    for v in r["violations"][:5]:
        print("VIOLATION", v["what"])
        print(json.dumps(v["input"], default=repr)[:2500])
    return 1 if any(not v.get("sig") for v in r["violations"]) else 0


if __name__ == "__main__":
    sys.exit(main())
