#!/usr/bin/env python
"""Program corpus + runtime ground-truth legs for C01 / C02 / C20 (and the engine C06 reuses).

Self-contained on purpose (stdlib + stackscope only, syntax valid on CPython 3.9): the same file
is imported by harness/progs.py on the main interpreter and run as a script under the other
interpreters:

    python progs_child.py --legs suspended,running,referents --tier quick --seed 0

prints one JSON object {leg: result} on the last line of stdout.

Overview
--------
* programs are small JSON-able trees (see `gen_program`, `matrix_programs`, `enum_programs`)
  emitted as source for four variants: sync function, generator, coroutine, async generator;
* every branch condition is a call `c()` that consumes the run's *branch vector*; `explore`
  enumerates all branch vectors of a program (bounded length, `False` afterwards);
* managers (`M(kind, site)`) log enter/exit phases into the run's *truth*: per frame of interest
  an ordered list `[manager, is_async, phase]`, phase in entering/active/exiting;
* the legs compare what stackscope reports for the frames of interest with that truth.

stackscope is imported inside functions only.
"""
from __future__ import annotations

import contextlib
import functools
import gc
import io
import json
import os
import random
import sys
import threading
import time
import types
import warnings
import weakref

PY_VERSION = sys.version_info[:2]
HAS_MATCH = PY_VERSION >= (3, 10)

VARIANTS = ("sync", "gen", "coro", "agen")
ASYNC_VARIANTS = ("coro", "agen")

# manager kinds ---------------------------------------------------------------------------
#  S   plain class manager               Sw  ... whose __exit__ swallows exceptions
#  Sr  __enter__ raises E1 when c()      Sq  __exit__ raises E2 when c()
#  G   @contextmanager                   Gw  ... swallowing
#  G2  @contextmanager whose generator holds an inner `with` around its yield (its frame is a
#      frame of interest of its own)
#  A   class with __aenter__/__aexit__, both awaiting a trap (owner is suspended inside them)
#  Aw  ... swallowing      Ae trap only in enter     Ax trap only in exit     A0 no trap at all
#  Ar  __aenter__ raises E1 when c() (after its trap)
#  AG  @asynccontextmanager awaiting a trap before and after its yield     AGw ... swallowing
#  AG2 @asynccontextmanager with an inner `async with A` around its yield
#  Sa/Aa enter/exit are aliases of methods with other names (`__exit__ = close`)
#  Sd/Ad enter/exit wrapped by a decorator (functools.wraps; the running frame is `wrapper(self, ...)`)
#  Sm/Am enter/exit inherited from mixin base classes
#  Ap    __aenter__ / __aexit__ are plain `def`s returning the awaitable (not coroutine functions)
#  Sv/Av wrapped by a decorator whose wrapper takes (*args, **kwargs): obj of the exiting manager
#        comes from the wrapper frame's varargs (fixed in /repo b0dc696; a recurrence is a violation)
SYNC_KINDS = ("S", "Sw", "Sr", "Sq", "G", "Gw", "G2", "Sa", "Sd", "Sm", "Sv")
ASYNC_KINDS = ("A", "Aw", "Ae", "Ax", "A0", "Ar", "AG", "AGw", "AG2", "Aa", "Ad", "Am", "Av", "Ap")
# none / local name / attribute / subscript / name, expression over two lines / name, suspension inside the expression
TARGETS = ("n", "v", "a", "s", "m", "y")

MAX_VEC = 7          # branch vector length bound (c() answers False beyond it)
STEP_CAP = 3000      # events per run before the run is aborted


class E1(Exception):
    pass


class E2(Exception):
    pass


class Abort(BaseException):
    pass


# =========================================================================================
# 1. program trees
# =========================================================================================
# statements (lists, JSON-able):
#   ["with", is_async, [[kind, target], ...], body]
#   ["try", body, [[exc, hbody], ...], orelse|None, final|None]   exc in "E1","E2","E12","any"
#   ["for", body, orelse|None]      for i in R(2)
#   ["while", body, orelse|None]    while c()
#   ["while1", body]                while True: body; break   (matrix family only)
#   ["if", body, orelse|None]       if c()
#   ["match", [body, body]]         match c(): case True / case _
#   leaves: ["susp"] ["ayield"] ["probe"] ["hold"] ["ret_c"] ["ret_v"] ["break"] ["continue"]
#           ["raise", "E1"|"E2"]

EXIT_LEAVES = ("ret_c", "ret_v", "break", "continue", "raise")


def _is_exit(stmt):
    return stmt[0] in EXIT_LEAVES


def _truncate(block):
    out = []
    for s in block:
        out.append(s)
        if _is_exit(s):
            break
    return out


def gen_block(rng, variant, depth, in_loop, budget, n=None):
    if n is None:
        n = rng.choice((1, 1, 2, 2, 3))
    out = []
    for _ in range(n):
        if budget[0] <= 0 and out:
            break
        out.append(gen_stmt(rng, variant, depth, in_loop, budget))
    return _truncate(out)


def _gen_items(rng, variant, is_async):
    n = rng.choice((1, 1, 1, 2, 2, 3))
    items = []
    for _ in range(n):
        if is_async:
            kind = rng.choice(("A", "A", "A", "Aw", "Ae", "Ax", "A0", "Ar", "AG", "AGw", "AG2", "Aa", "Ad", "Am", "Av", "Ap"))
        else:
            kind = rng.choice(("S", "S", "S", "Sw", "Sr", "Sq", "G", "Gw", "G2", "Sa", "Sd", "Sm", "Sv"))
        items.append([kind, rng.choice(("n", "n", "n", "v", "v", "v", "v", "a", "s", "m", "y"))])
    return items


def gen_stmt(rng, variant, depth, in_loop, budget):
    budget[0] -= 1
    compound = depth > 0 and budget[0] > 0
    r = rng.random()
    if compound and r < 0.62:
        k = rng.random()
        if k < 0.45:
            is_async = variant in ASYNC_VARIANTS and rng.random() < 0.6
            return ["with", is_async, _gen_items(rng, variant, is_async),
                    gen_block(rng, variant, depth - 1, in_loop, budget)]
        if k < 0.62:
            body = gen_block(rng, variant, depth - 1, in_loop, budget)
            handlers = []
            for _ in range(rng.choice((0, 1, 1, 2))):
                handlers.append([rng.choice(("E1", "E1", "E2", "E12", "any")),
                                 gen_block(rng, variant, depth - 1, in_loop, budget, n=rng.choice((1, 1, 2)))])
            # a bare except must come last; keep at most one
            seen_any = False
            hs = []
            for h in handlers:
                if seen_any:
                    break
                hs.append(h)
                seen_any = h[0] == "any"
            orelse = None
            if hs and rng.random() < 0.3:
                orelse = gen_block(rng, variant, depth - 1, in_loop, budget, n=1)
            final = None
            if not hs or rng.random() < 0.4:
                final = gen_block(rng, variant, depth - 1, in_loop, budget, n=rng.choice((1, 1, 2)))
            return ["try", body, hs, orelse, final]
        if k < 0.72:
            orelse = gen_block(rng, variant, depth - 1, in_loop, budget, n=1) if rng.random() < 0.2 else None
            return ["for", gen_block(rng, variant, depth - 1, True, budget), orelse]
        if k < 0.80:
            orelse = gen_block(rng, variant, depth - 1, in_loop, budget, n=1) if rng.random() < 0.2 else None
            return ["while", gen_block(rng, variant, depth - 1, True, budget), orelse]
        if k < 0.94:
            orelse = gen_block(rng, variant, depth - 1, in_loop, budget, n=rng.choice((1, 1, 2))) if rng.random() < 0.4 else None
            return ["if", gen_block(rng, variant, depth - 1, in_loop, budget, n=rng.choice((1, 1, 2))), orelse]
        return ["match", [gen_block(rng, variant, depth - 1, in_loop, budget, n=rng.choice((1, 2))),
                          gen_block(rng, variant, depth - 1, in_loop, budget, n=rng.choice((1, 2)))]]
    # leaves
    r = rng.random()
    if r < 0.34:
        return ["susp"]
    if r < 0.40:
        return ["ayield"]
    if r < 0.58:
        return ["probe"]
    if r < 0.62:
        return ["hold"]
    if r < 0.71:
        return ["ret_c"]
    if r < 0.78:
        return ["ret_v"]
    if r < 0.90:
        if in_loop:
            return [rng.choice(("break", "continue"))]
        return ["susp"]
    return ["raise", rng.choice(("E1", "E1", "E2"))]


def gen_program(rng, variant, max_nodes=10, depth=4):
    """One random program; always contains at least one with statement."""
    for _ in range(50):
        budget = [max_nodes]
        body = gen_block(rng, variant, depth, False, budget, n=rng.choice((1, 2, 2, 3)))
        if _count(body, "with"):
            return {"variant": variant, "body": body, "family": "random"}
    return {"variant": variant, "family": "random",
            "body": [["with", False, [["S", "v"]], [["susp"]]], ["susp"]]}


def _walk(block):
    for s in block:
        yield s
        k = s[0]
        if k == "with":
            for x in _walk(s[3]):
                yield x
        elif k == "try":
            for x in _walk(s[1]):
                yield x
            for h in s[2]:
                for x in _walk(h[1]):
                    yield x
            for b in (s[3], s[4]):
                if b:
                    for x in _walk(b):
                        yield x
        elif k == "while1":
            for x in _walk(s[1]):
                yield x
        elif k in ("for", "while", "if"):
            for x in _walk(s[1]):
                yield x
            if s[2]:
                for x in _walk(s[2]):
                    yield x
        elif k == "match":
            for b in s[1]:
                for x in _walk(b):
                    yield x


def _count(block, kind):
    return sum(1 for s in _walk(block) if s[0] == kind)


def constructs(prog):
    """Labels for the distribution table."""
    labs = set()
    for s in _walk(prog["body"]):
        k = s[0]
        if k == "with":
            labs.add("async with" if s[1] else "with")
            if len(s[2]) > 1:
                labs.add("with:multi-item")
            for kind, tgt in s[2]:
                labs.add("mgr:" + kind)
                labs.add("as:" + tgt)
        elif k == "try":
            labs.add("try")
            if s[2]:
                labs.add("try:except")
            if s[3]:
                labs.add("try:else")
            if s[4]:
                labs.add("try:finally")
        else:
            labs.add(k)
    return sorted(labs)


# ---- matrix family: every way of leaving a with block x every surrounding construct -------
MATRIX_OUTERS = ("none", "for", "while", "if", "else", "try_finally", "try_except", "in_except",
                 "in_finally", "in_else", "with_S", "with_A", "match", "for_else", "while1")
MATRIX_EXITS = ("fall", "ret_c", "ret_v", "break", "continue", "raise_out", "raise_swallow",
                "c_ret_c", "c_ret_v", "c_break", "c_continue", "c_raise", "c_ret_else_raise",
                "try_ret", "try_except_last", "loop_last", "susp_last", "nested_ret",
                "try_exc_ret_c", "try_exc_c_ret_v", "try_exc_c_break", "try_exc_c_continue")


def _matrix_items(variant):
    its = [[["S", "v"]], [["Sw", "n"]], [["G", "a"]], [["S", "n"], ["Sw", "v"]], [["G2", "v"]],
           [["Sq", "n"]], [["S", "v"], ["S", "y"]], [["Sa", "v"], ["Sd", "n"]], [["Sm", "v"], ["Sv", "n"]]]
    if variant in ASYNC_VARIANTS:
        its += [[["A", "v"]], [["Aw", "n"]], [["AG", "v"]], [["A", "n"], ["A0", "v"]],
                [["Ax", "s"]], [["AG2", "n"]], [["AGw", "v"], ["Ae", "n"]], [["A", "n"], ["A", "y"]],
                [["Aa", "v"], ["Ad", "n"]], [["Am", "s"], ["Av", "n"]], [["Ap", "v"], ["A", "n"]]]
    return its


def _matrix_exit(kind):
    """(body tail statements, needs_loop, needs_catch)"""
    if kind == "fall":
        return [["probe"]], False, False
    if kind in ("ret_c", "ret_v"):
        return [[kind]], False, False
    if kind in ("break", "continue"):
        return [[kind]], True, False
    if kind == "raise_out":
        return [["raise", "E1"]], False, True
    if kind == "raise_swallow":
        return [["raise", "E1"]], False, True
    if kind in ("c_ret_c", "c_ret_v"):
        return [["if", [[kind[2:]]], None]], False, False
    if kind in ("c_break", "c_continue"):
        return [["if", [[kind[2:]]], None]], True, False
    if kind == "c_raise":
        return [["if", [["raise", "E1"]], None]], False, True
    if kind == "c_ret_else_raise":
        return [["if", [["ret_c"]], [["raise", "E2"]]]], False, True
    if kind == "try_ret":
        return [["try", [["ret_v"]], [], None, [["probe"]]]], False, False
    if kind == "try_except_last":
        return [["try", [["if", [["raise", "E1"]], None]], [["E1", [["probe"]]]], None, None]], False, False
    # leaving the with block from inside a try/except (or try/finally) nested in its body: the
    # exit call's predecessors are covered by the inner handler first, the with's handler is only
    # reached through the handler chain
    if kind == "try_exc_ret_c":
        return [["try", [["ret_c"]], [["E1", [["probe"]]]], None, None]], False, False
    if kind == "try_exc_c_ret_v":
        return [["try", [["if", [["ret_v"]], None], ["probe"]], [["any", [["probe"]]]], None, None]], False, False
    if kind == "try_exc_c_break":
        return [["try", [["if", [["break"]], None], ["susp"]], [["E1", [["probe"]]]], None, [["probe"]]]], True, False
    if kind == "try_exc_c_continue":
        return [["try", [["if", [["continue"]], None]], [["E12", [["probe"]]]], None, None]], True, False
    if kind == "loop_last":
        return [["for", [["if", [["break"]], None], ["susp"]], None]], False, False
    if kind == "susp_last":
        return [["susp"]], False, False
    if kind == "nested_ret":
        return [["with", False, [["S", "n"]], [["if", [["ret_c"]], None], ["susp"]]]], False, False
    raise ValueError(kind)


def matrix_programs(variants=VARIANTS):
    for variant in variants:
        for outer in MATRIX_OUTERS:
            if outer == "with_A" and variant not in ASYNC_VARIANTS:
                continue
            for items in _matrix_items(variant):
                is_async = items[0][0] in ASYNC_KINDS
                for ex in MATRIX_EXITS:
                    if ex == "raise_swallow" and not any(k.endswith("w") for k, _ in items):
                        continue
                    tail, needs_loop, needs_catch = _matrix_exit(ex)
                    w = ["with", is_async, items, [["susp"]] + tail]
                    inner = [w, ["susp"]]
                    if outer == "while1" and ex in ("continue",):
                        continue          # would never terminate
                    if needs_loop and outer not in ("for", "while", "for_else", "while1"):
                        inner = [["for", inner, None]]
                    if outer == "none":
                        body = inner
                    elif outer == "for":
                        body = [["for", inner, None]]
                    elif outer == "for_else":
                        body = [["for", inner, [["susp"]]]]
                    elif outer == "while":
                        body = [["while", inner, None]]
                    elif outer == "while1":
                        body = [["while1", inner]]
                    elif outer == "if":
                        body = [["if", inner, None]]
                    elif outer == "else":
                        body = [["if", [["probe"]], inner]]
                    elif outer == "try_finally":
                        body = [["try", inner, [], None, [["susp"]]]]
                    elif outer == "try_except":
                        body = [["try", inner, [["E2", [["susp"]]]], None, None]]
                    elif outer == "in_except":
                        body = [["try", [["raise", "E2"]], [["E2", inner]], None, None]]
                    elif outer == "in_finally":
                        body = [["try", [["probe"]], [], None, inner]]
                    elif outer == "in_else":
                        body = [["try", [["probe"]], [["E2", [["probe"]]]], inner, None]]
                    elif outer == "with_S":
                        body = [["with", False, [["S", "v"]], inner]]
                    elif outer == "with_A":
                        body = [["with", True, [["A", "v"]], inner]]
                    elif outer == "match":
                        body = [["match", [inner, [["probe"]]]]]
                    else:
                        raise ValueError(outer)
                    if needs_catch:
                        body = [["try", body, [["E12", [["susp"]]]], None, None]]
                    body = body + [["susp"]]
                    yield {"variant": variant, "body": body, "family": "matrix",
                           "tag": "%s/%s/%s" % (outer, "+".join(k for k, _ in items), ex)}


# ---- exhaustive enumeration by size over a reduced alphabet ---------------------------------
def _enum_leaves(variant, in_loop):
    ls = [["susp"], ["probe"], ["ret_c"], ["ret_v"], ["raise", "E1"]]
    if in_loop:
        ls += [["break"], ["continue"]]
    return ls


def _enum_stmt(size, variant, in_loop, is_async_ok):
    """All statements with exactly `size` nodes."""
    if size == 1:
        for l in _enum_leaves(variant, in_loop):
            yield l
        return
    rest = size - 1
    for body in _enum_block(rest, variant, in_loop, is_async_ok):
        yield ["with", False, [["S", "v"]], body]
        yield ["with", False, [["Sw", "n"]], body]
        if is_async_ok:
            yield ["with", True, [["A", "n"]], body]
        yield ["if", body, None]
        yield ["try", body, [], None, [["probe"]]]
        yield ["try", body, [["E1", [["probe"]]]], None, None]
    for body in _enum_block(rest, variant, True, is_async_ok):
        yield ["for", body, None]
        yield ["while", body, None]
    # if/else splits
    for a in range(1, rest):
        for b1 in _enum_block(a, variant, in_loop, is_async_ok):
            for b2 in _enum_block(rest - a, variant, in_loop, is_async_ok):
                yield ["if", b1, b2]


def _enum_block(size, variant, in_loop, is_async_ok):
    """All statement lists with exactly `size` nodes (no dead code after an exit leaf)."""
    if size <= 0:
        return
    for first in range(size, 0, -1):
        for s in _enum_stmt(first, variant, in_loop, is_async_ok):
            if first == size:
                yield [s]
            elif not _is_exit(s):
                for tail in _enum_block(size - first, variant, in_loop, is_async_ok):
                    yield [s] + tail


def enum_programs(size, variants=VARIANTS):
    for variant in variants:
        for body in _enum_block(size, variant, False, variant in ASYNC_VARIANTS):
            if not _count(body, "with"):
                continue
            if variant != "sync" and not _count(body, "susp"):
                continue
            yield {"variant": variant, "body": body, "family": "enum%d" % size}


# =========================================================================================
# 2. emission
# =========================================================================================
class _Emit:
    def __init__(self, variant):
        self.variant = variant
        self.site = 0
        self.k = 100
        self.loopvar = 0
        self.lines = []
        # site -> [line of the with statement (1-based; what Context.start_line reports for every
        #          item), item index, kind, is_async, target, line on which the item starts]
        self.sites = {}

    def susp(self, agen_yield=False):
        self.k += 1
        v = self.variant
        if v == "sync":
            return "probe()"
        if v == "gen" or (v == "agen" and agen_yield):
            return "r((yield %d))" % self.k
        return "r(await trap(%d))" % self.k

    def block(self, stmts, ind):
        if not stmts:
            self.lines.append(ind + "pass")
        for s in stmts:
            self.stmt(s, ind)

    def stmt(self, s, ind):
        k = s[0]
        L = self.lines.append
        v = self.variant
        if k == "with":
            is_async = s[1] and v in ASYNC_VARIANTS
            parts = []
            stmt_line = sum(l.count("\n") + 1 for l in self.lines) + 1
            for item_i, (kind, tgt) in enumerate(s[2]):
                if not is_async and kind in ASYNC_KINDS:
                    kind = {"A": "S", "Aw": "Sw", "Ae": "S", "Ax": "S", "A0": "S", "Ar": "Sr",
                            "AG": "G", "AGw": "Gw", "AG2": "G2", "Aa": "Sa", "Ad": "Sd", "Am": "Sm", "Ap": "S",
                            "Av": "Sv"}[kind]
                self.site += 1
                item_line = stmt_line + sum(p.count("\n") for p in parts)
                self.sites[self.site] = [stmt_line, item_i, kind, bool(is_async), tgt, item_line]
                e = "M(%r, %d)" % (kind, self.site)
                if tgt == "y":
                    # a suspension while the context expression is being evaluated (callable and
                    # arguments sit on the value stack above the exit methods of earlier items)
                    e = "M(%r, %d, 'main', %s) as x%d" % (kind, self.site, self.susp()[:-1].replace("r(", "r2(", 1) + ")", self.site)
                elif tgt == "m":
                    e = "M(%r,\n%s        %d) as x%d" % (kind, ind, self.site, self.site)
                elif tgt == "v":
                    e += " as x%d" % self.site
                elif tgt == "a":
                    e += " as ns.a%d" % self.site
                elif tgt == "s":
                    e += " as d[%d]" % self.site
                parts.append(e)
            L("%s%swith %s:" % (ind, "async " if is_async else "", ", ".join(parts)))
            self.block(s[3], ind + "    ")
        elif k == "try":
            L(ind + "try:")
            self.block(s[1], ind + "    ")
            for exc, hb in s[2]:
                if exc == "any":
                    L(ind + "except:")
                elif exc == "E12":
                    L(ind + "except (E1, E2) as e:")
                else:
                    L(ind + "except %s:" % exc)
                self.block(hb, ind + "    ")
            if s[3] and s[2]:
                L(ind + "else:")
                self.block(s[3], ind + "    ")
            if s[4] or not s[2]:
                L(ind + "finally:")
                self.block(s[4] or [["probe"]], ind + "    ")
        elif k == "for":
            self.loopvar += 1
            L("%sfor i%d in R(2):" % (ind, self.loopvar))
            self.block(s[1], ind + "    ")
            if s[2]:
                L(ind + "else:")
                self.block(s[2], ind + "    ")
        elif k == "while1":
            L(ind + "while True:")
            self.block(s[1], ind + "    ")
            if not (s[1] and _is_exit(s[1][-1])):
                L(ind + "    break")
        elif k == "while":
            L(ind + "while c():")
            self.block(s[1], ind + "    ")
            if s[2]:
                L(ind + "else:")
                self.block(s[2], ind + "    ")
        elif k == "if":
            L(ind + "if c():")
            self.block(s[1], ind + "    ")
            if s[2]:
                L(ind + "else:")
                self.block(s[2], ind + "    ")
        elif k == "match":
            if HAS_MATCH:
                L(ind + "match c():")
                L(ind + "    case True:")
                self.block(s[1][0], ind + "        ")
                L(ind + "    case _:")
                self.block(s[1][1], ind + "        ")
            else:
                L(ind + "if c() is True:")
                self.block(s[1][0], ind + "    ")
                L(ind + "else:")
                self.block(s[1][1], ind + "    ")
        elif k == "susp":
            L(ind + self.susp())
        elif k == "ayield":
            L(ind + self.susp(agen_yield=True))
        elif k == "probe":
            L(ind + "probe()")
        elif k == "hold":
            self.k += 1
            if v == "sync":
                L(ind + "hold(sn(), probe())")
            elif v == "gen":
                L(ind + "hold(sn(), (yield %d))" % self.k)
            else:
                L(ind + "hold(sn(), await trap(%d))" % self.k)
        elif k == "ret_c":
            L(ind + ("return" if v == "agen" else "return 7"))
        elif k == "ret_v":
            if v == "agen":
                L(ind + "v()")
                L(ind + "return")
            else:
                L(ind + "return v()")
        elif k in ("break", "continue"):
            L(ind + k)
        elif k == "raise":
            L(ind + "raise %s()" % s[1])
        else:
            raise ValueError(k)


def emit(prog):
    return emit_with_sites(prog)[0]


def emit_with_sites(prog):
    """(source, {site: [line, item index, kind, is_async]}) of a program.  Optional prog["flags"]: doc (docstring first, so that None is not
    constant 0), consts=n (n distinct constants before the body: EXTENDED_ARG on later
    LOAD_CONST None and on jumps), closure=1 (parameters, *args/**kw, cell variables) or 2 (also
    free variables: prog is a closure), 3 (as 2, plus inlined-comprehension variables named like the
    free variables), 4 (as 1, plus comprehension variables named like the cell variables)."""
    v = prog["variant"]
    fl = prog.get("flags") or {}
    em = _Emit(v)
    kw = "async def" if v in ASYNC_VARIANTS else "def"
    closure = fl.get("closure", 0)
    nested = closure in (2, 3)
    base = "        " if nested else "    "
    L = em.lines.append
    if nested:
        L("def _outer():")
        L("    fv1 = 1")
        L("    fv2 = 2")
        L("    %s prog(arg0=None, *va, kw0=1, **kws):" % kw)
    elif closure in (1, 4):
        L("%s prog(arg0=None, *va, kw0=1, **kws):" % kw)
    else:
        L("%s prog():" % kw)
    if fl.get("doc"):
        L(base + '"""docstring: takes constant slot 0"""')
    if closure:
        L(base + ("cellv = fv1" if nested else "cellv = 0"))
        L(base + ("lam = lambda: (cellv, arg0, fv2)" if nested else "lam = lambda: (cellv, arg0)"))
    if closure == 3:
        # comprehension variables with the names of free variables that the body also reads:
        # CPython 3.12 inlines the comprehensions (PEP 709) and the code object then has a local
        # AND a free variable called fv1 / fv2 (two slots each before the value stack)
        L(base + "sq = [fv2 * fv2 for fv2 in range(3)]")
        L(base + "sd = {fv1: cellv for fv1 in range(2)}")
    if closure == 4:
        # mirror case: the comprehension variable is a cell variable captured by the lambda
        L(base + "ss = {cellv + 1 for cellv in range(2)}")
        L(base + "sl = [arg0 for arg0 in range(2)]")
    for i in range(fl.get("consts", 0)):
        L(base + "k0 = %d.5" % i)
    em.block(prog["body"], base)
    if v == "gen" and not any("(yield" in l for l in em.lines):
        L(base + "r((yield 99))")
    if v == "agen" and not any("(yield" in l for l in em.lines):
        L(base + "r((yield 99))")
    if nested:
        L("    return prog")
        L("prog = _outer()")
    return "\n".join(em.lines) + "\n", em.sites


# =========================================================================================
# 3. runtime: run state, helpers visible to programs, managers, truth
# =========================================================================================
class Run:
    def __init__(self, vec=(), throw_at=None, on_probe=None, on_suspend=None, max_len=MAX_VEC):
        self.vec = list(vec)
        self.used = []
        self.max_len = max_len
        self.throw_at = throw_at
        self.threw = False
        self.steps = 0
        self.truth = {"main": []}
        self.log = []
        self.serial = 0
        self.vcount = 0
        self.sendc = 0
        self.nsusp = 0
        self.nprobe = 0
        self.foi = []            # [("code", codeobj, owner) | ("gen", genobj, owner)]
        self.on_probe = on_probe
        self.on_suspend = on_suspend
        self.sentinels = []
        self.alive_log = []      # filled by observers that track object lifetimes (purity)
        self.mgr_refs = []
        self.aborted = False
        self.main_obj = None
        self.driver_frame = None
        self.result = None
        self.finished = False    # set when the driver is done: later events (finalisers of
        #                          abandoned generators) still land in this run's own log, but no
        #                          observer is called and no limit applies
        self.trace = None        # tuple(log) taken at that moment: what twin runs compare
        self.namespace = None

    def tick(self):
        self.steps += 1
        if self.steps > STEP_CAP and not self.aborted and not self.finished:
            self.aborted = True
            raise Abort()

    # truth ------------------------------------------------------------------------------
    def t_begin(self, owner, m, is_async):
        self.truth.setdefault(owner, []).append([m, is_async, "entering"])

    def t_phase(self, owner, m, phase):
        for e in reversed(self.truth.get(owner, ())):
            if e[0] is m:
                e[2] = phase
                return

    def t_remove(self, owner, m):
        lst = self.truth.get(owner, [])
        for i in range(len(lst) - 1, -1, -1):
            if lst[i][0] is m:
                del lst[i]
                return

    def hook(self, where, m):
        self.tick()
        idx = self.nprobe
        self.nprobe += 1
        if self.on_probe is not None and not self.aborted and not self.finished:
            self.on_probe(self, where, m, idx)

    def owner_of(self, pyframe):
        for kind, ref, owner in self.foi:
            if kind == "code":
                if pyframe.f_code is ref:
                    return owner
            else:
                fr = getattr(ref, "gi_frame", None) or getattr(ref, "ag_frame", None)
                if fr is pyframe:
                    return owner
        return None

    def expected(self, owner):
        return [(m, a, ph == "exiting") for (m, a, ph) in self.truth.get(owner, ()) if ph != "entering"]

    # helpers visible to the programs of this run ---------------------------------------
    def c(self):
        R = self
        R.tick()
        i = len(R.used)
        if i < R.max_len:
            b = bool(R.vec[i]) if i < len(R.vec) else False
            R.used.append(b)
        else:
            b = False
        R.log.append(("c", b))
        R.hook("cond", None)      # a call site inside the body: branch conditions
        return b

    def v(self):
        R = self
        R.tick()
        R.vcount += 1
        R.log.append(("v", R.vcount))
        R.hook("value", None)     # e.g. `return v()` inside a with body
        return 1000 + R.vcount

    def r(self, x):
        R = self
        R.tick()
        R.log.append(("recv", x))

    def r2(self, x):
        self.r(x)
        return x

    def probe(self):
        self.hook("body", None)

    def rng(self, n):
        self.tick()
        return range(n)

    def sn(self):
        R = self
        s = Sentinel(len(R.sentinels))
        R.sentinels.append(weakref.ref(s))
        return s

    def hold(self, a, b):
        R = self
        R.tick()
        R.log.append(("hold", a.n, b))


class Sentinel(object):
    __slots__ = ("n", "__weakref__")

    def __init__(self, n):
        self.n = n


@types.coroutine
def trap(k):
    x = yield ("trap", k)
    return x


class _NS(object):
    """`with ... as ns.aN`: the store happens after __enter__ returned (manager already active)."""

    def __init__(self, R):
        object.__setattr__(self, "_run", R)

    def __setattr__(self, name, value):
        self._run.hook("store", None)
        object.__setattr__(self, name, value)

    def _clear(self):
        for k in [k for k in self.__dict__ if k != "_run"]:
            object.__delattr__(self, k)


class _D(dict):
    def __init__(self, R):
        dict.__init__(self)
        self._run = R

    def __setitem__(self, key, value):
        self._run.hook("store", None)
        dict.__setitem__(self, key, value)


def mgr_label(m):
    lab = getattr(m, "_pl", None)
    if lab is not None:
        return lab
    return "<%s>" % type(m).__name__


class SyncMgr(object):
    is_async = False

    def __init__(self, R, kind, site, serial, owner):
        self.R = R
        self.kind = kind
        self.site = site
        self.owner = owner
        self._pl = "%s@%d#%d" % (kind, site, serial)
        self.serial = serial

    def __repr__(self):
        return self._pl

    # spies: nothing in a with statement asks a manager for its truth value or length, so any such call
    # comes from the observer; it is logged (the twin-run comparison of C06 then sees it) and every third
    # manager is falsy, which is legal and must not change what is reported about it
    def __bool__(self):
        self.R.log.append(("bool", self.serial))
        return self.serial % 3 != 0

    def __len__(self):
        self.R.log.append(("len", self.serial))
        return 0

    def __enter__(self):
        R = self.R
        R.log.append(("enter", self.serial))
        R.t_begin(self.owner, self, False)
        try:
            R.hook("enter", self)
            if self.kind == "Sr" and R.c():
                raise E1("enter")
        except BaseException:
            R.t_remove(self.owner, self)
            raise
        R.log.append(("entered", self.serial))
        R.t_phase(self.owner, self, "active")
        return self

    def __exit__(self, et, ev, tb):
        R = self.R
        R.log.append(("exit", self.serial, et.__name__ if et else None))
        R.t_phase(self.owner, self, "exiting")
        try:
            R.hook("exit", self)
            if self.kind == "Sq" and R.c():
                raise E2("exit")
        finally:
            R.log.append(("exited", self.serial))
            R.t_remove(self.owner, self)
        return self.kind == "Sw" and et is not None and issubclass(et, Exception)


class AsyncMgr(object):
    is_async = True

    def __init__(self, R, kind, site, serial, owner):
        self.R = R
        self.kind = kind
        self.owner = owner
        self._pl = "%s@%d#%d" % (kind, site, serial)
        self.serial = serial
        self.site = site

    def __repr__(self):
        return self._pl

    # spies: nothing in a with statement asks a manager for its truth value or length, so any such call
    # comes from the observer; it is logged (the twin-run comparison of C06 then sees it) and every third
    # manager is falsy, which is legal and must not change what is reported about it
    def __bool__(self):
        self.R.log.append(("bool", self.serial))
        return self.serial % 3 != 0

    def __len__(self):
        self.R.log.append(("len", self.serial))
        return 0

    async def __aenter__(self):
        R = self.R
        R.log.append(("enter", self.serial))
        R.t_begin(self.owner, self, True)
        try:
            R.hook("enter", self)
            if self.kind in ("A", "Aw", "Ae", "Ar", "Aa", "Ad", "Am", "Av", "Ap"):
                R.r(await trap(-self.site))
                R.hook("enter2", self)
            if self.kind == "Ar" and R.c():
                raise E1("aenter")
        except BaseException:
            R.t_remove(self.owner, self)
            raise
        R.log.append(("entered", self.serial))
        R.t_phase(self.owner, self, "active")
        return self

    async def __aexit__(self, et, ev, tb):
        R = self.R
        R.log.append(("exit", self.serial, et.__name__ if et else None))
        R.t_phase(self.owner, self, "exiting")
        try:
            R.hook("exit", self)
            if self.kind in ("A", "Aw", "Ax", "Ar", "Aa", "Ad", "Am", "Av", "Ap"):
                R.r(await trap(-1000 - self.site))
                R.hook("exit2", self)
        finally:
            R.log.append(("exited", self.serial))
            R.t_remove(self.owner, self)
        return self.kind == "Aw" and et is not None and issubclass(et, Exception)


# ---- flavours: the frame that runs as the exit method is not a function called __exit__ ------
def _deco_self(fn):
    @functools.wraps(fn)
    def wrapper(self, *a, **kw):
        return fn(self, *a, **kw)
    return wrapper


def _deco_var(fn):
    @functools.wraps(fn)
    def wrapper(*args, **kwargs):
        return fn(*args, **kwargs)
    return wrapper


def _adeco_self(fn):
    @functools.wraps(fn)
    async def wrapper(self, *a, **kw):
        return await fn(self, *a, **kw)
    return wrapper


def _adeco_var(fn):
    @functools.wraps(fn)
    async def wrapper(*args, **kwargs):
        return await fn(*args, **kwargs)
    return wrapper


class SyncAliased(SyncMgr):
    def open(self):
        return SyncMgr.__enter__(self)

    def close(self, et, ev, tb):
        return SyncMgr.__exit__(self, et, ev, tb)

    __enter__ = open
    __exit__ = close


class SyncDecorated(SyncMgr):
    __enter__ = _deco_self(SyncMgr.__enter__)
    __exit__ = _deco_self(SyncMgr.__exit__)


class SyncVarDecorated(SyncMgr):
    __enter__ = _deco_var(SyncMgr.__enter__)
    __exit__ = _deco_var(SyncMgr.__exit__)


class _MixSyncEnter(object):
    def __enter__(self):
        return SyncMgr.__enter__(self)


class _MixSyncExit(object):
    def __exit__(self, et, ev, tb):
        return SyncMgr.__exit__(self, et, ev, tb)


class SyncMixed(_MixSyncEnter, _MixSyncExit, SyncMgr):
    pass


class AsyncAliased(AsyncMgr):
    async def aopen(self):
        return await AsyncMgr.__aenter__(self)

    async def aclose(self, et, ev, tb):
        return await AsyncMgr.__aexit__(self, et, ev, tb)

    __aenter__ = aopen
    __aexit__ = aclose


class AsyncDecorated(AsyncMgr):
    __aenter__ = _adeco_self(AsyncMgr.__aenter__)
    __aexit__ = _adeco_self(AsyncMgr.__aexit__)


class AsyncVarDecorated(AsyncMgr):
    __aenter__ = _adeco_var(AsyncMgr.__aenter__)
    __aexit__ = _adeco_var(AsyncMgr.__aexit__)


class AsyncPlainDef(AsyncMgr):
    """__aenter__ / __aexit__ are plain functions that RETURN an awaitable (a delegating wrapper): legal, and
    still an asynchronous context manager although inspect.iscoroutinefunction says no"""

    def __aenter__(self):
        return AsyncMgr.__aenter__(self)

    def __aexit__(self, et, ev, tb):
        return AsyncMgr.__aexit__(self, et, ev, tb)


class _MixAsyncEnter(object):
    async def __aenter__(self):
        return await AsyncMgr.__aenter__(self)


class _MixAsyncExit(object):
    async def __aexit__(self, et, ev, tb):
        return await AsyncMgr.__aexit__(self, et, ev, tb)


class AsyncMixed(_MixAsyncEnter, _MixAsyncExit, AsyncMgr):
    pass


FLAVOURS = {"Sa": SyncAliased, "Sd": SyncDecorated, "Sv": SyncVarDecorated, "Sm": SyncMixed,
            "Aa": AsyncAliased, "Ad": AsyncDecorated, "Av": AsyncVarDecorated, "Am": AsyncMixed, "Ap": AsyncPlainDef}


class _Box(object):
    def __init__(self, R, kind, site, serial, owner):
        self.R = R
        self.kind = kind
        self.site = site
        self.serial = serial
        self.owner = owner
        self.mgr = None


@contextlib.contextmanager
def _g(box):
    R = box.R
    m = box.mgr
    R.log.append(("enter", box.serial))
    R.t_begin(box.owner, m, False)
    try:
        R.hook("enter", m)
    except BaseException:
        R.t_remove(box.owner, m)
        raise
    R.log.append(("entered", box.serial))
    R.t_phase(box.owner, m, "active")
    try:
        yield m
    except Exception as ex:
        R = box.R
        R.log.append(("exit", box.serial, type(ex).__name__))
        R.t_phase(box.owner, m, "exiting")
        try:
            R.hook("exit", m)
        finally:
            R.log.append(("exited", box.serial))
            R.t_remove(box.owner, m)
        if box.kind != "Gw":
            raise
    else:
        R = box.R
        R.log.append(("exit", box.serial, None))
        R.t_phase(box.owner, m, "exiting")
        try:
            R.hook("exit", m)
        finally:
            R.log.append(("exited", box.serial))
            R.t_remove(box.owner, m)


@contextlib.contextmanager
def _g2(box):
    R = box.R
    m = box.mgr
    me = ("g", box.serial)
    R.log.append(("enter", box.serial))
    R.t_begin(box.owner, m, False)
    ok = False
    try:
        R.hook("enter", m)
        with R.M("S", 500 + box.site, me) as inner:
            R.hook("enter2", m)
            R.log.append(("entered", box.serial))
            R.t_phase(box.owner, m, "active")
            ok = True
            try:
                yield m
            finally:
                R = box.R
                R.log.append(("exit", box.serial, None))
                R.t_phase(box.owner, m, "exiting")
                R.hook("exit", m)
    finally:
        # reached when enter failed, or after the inner with has been left on exit
        R = box.R
        if ok:
            R.log.append(("exited", box.serial))
        R.t_remove(box.owner, m)


def _make_async_gen_managers():
    acm = getattr(contextlib, "asynccontextmanager")

    @acm
    async def _ag(box):
        R = box.R
        m = box.mgr
        R.log.append(("enter", box.serial))
        R.t_begin(box.owner, m, True)
        try:
            R.hook("enter", m)
            R.r(await trap(-2000 - box.site))
            R.hook("enter2", m)
        except BaseException:
            R.t_remove(box.owner, m)
            raise
        R.log.append(("entered", box.serial))
        R.t_phase(box.owner, m, "active")
        try:
            yield m
        except Exception as ex:
            R = box.R
            R.log.append(("exit", box.serial, type(ex).__name__))
            R.t_phase(box.owner, m, "exiting")
            try:
                R.hook("exit", m)
                R.r(await trap(-3000 - box.site))
                R.hook("exit2", m)
            finally:
                R.log.append(("exited", box.serial))
                R.t_remove(box.owner, m)
            if box.kind != "AGw":
                raise
        else:
            R = box.R
            R.log.append(("exit", box.serial, None))
            R.t_phase(box.owner, m, "exiting")
            try:
                R.hook("exit", m)
                R.r(await trap(-3000 - box.site))
                R.hook("exit2", m)
            finally:
                R.log.append(("exited", box.serial))
                R.t_remove(box.owner, m)

    @acm
    async def _ag2(box):
        R = box.R
        m = box.mgr
        me = ("g", box.serial)
        R.log.append(("enter", box.serial))
        R.t_begin(box.owner, m, True)
        ok = False
        try:
            R.hook("enter", m)
            async with R.M("A", 600 + box.site, me) as inner:
                R.hook("enter2", m)
                R.log.append(("entered", box.serial))
                R.t_phase(box.owner, m, "active")
                ok = True
                try:
                    yield m
                finally:
                    R = box.R
                    R.log.append(("exit", box.serial, None))
                    R.t_phase(box.owner, m, "exiting")
                    R.hook("exit", m)
        finally:
            R = box.R
            if ok:
                R.log.append(("exited", box.serial))
            R.t_remove(box.owner, m)

    return _ag, _ag2


_ag, _ag2 = _make_async_gen_managers()


def _new_manager(R, kind, site, owner="main", *extra):
    R.tick()
    R.serial += 1
    serial = R.serial
    R.log.append(("new", kind, site, serial))
    if kind in FLAVOURS:
        m = FLAVOURS[kind](R, kind, site, serial, owner)
    elif kind in ("S", "Sw", "Sr", "Sq"):
        m = SyncMgr(R, kind, site, serial, owner)
    elif kind in ("A", "Aw", "Ae", "Ax", "A0", "Ar"):
        m = AsyncMgr(R, kind, site, serial, owner)
    else:
        box = _Box(R, kind, site, serial, owner)
        fn = {"G": _g, "Gw": _g, "G2": _g2, "AG": _ag, "AGw": _ag, "AG2": _ag2}[kind]
        m = fn(box)
        box.mgr = m
        m._pl = "%s@%d#%d" % (kind, site, serial)
        m.site = site
        if kind in ("G2", "AG2"):
            R.truth[("g", serial)] = []
            R.foi.append(("gen", m.gen, ("g", serial)))
    R.mgr_refs.append(weakref.ref(m))
    return m


def _run_M(self, kind, site, owner="main", *extra):
    return _new_manager(self, kind, site, owner, *extra)


def _run_release(self):
    """End of the run: freeze the trace, switch observers off, drop what the program's globals
    hold (`as ns.x` / `as d[i]` targets)."""
    if self.trace is None:
        self.trace = tuple(self.log)
    self.finished = True
    self.driver_frame = None
    ns = self.namespace
    self.namespace = None
    if ns is not None:
        ns["ns"]._clear()
        ns["d"].clear()


Run.M = _run_M
Run.release = _run_release


def make_namespace(R):
    """Globals for one instantiation of a program: every helper is bound to the run R."""
    return {"c": R.c, "v": R.v, "r": R.r, "r2": R.r2, "probe": R.probe, "R": R.rng, "M": R.M, "E1": E1, "E2": E2,
            "trap": trap, "hold": R.hold, "sn": R.sn, "ns": _NS(R), "d": _D(R), "__name__": "progs_gen"}


class Program(object):
    """A compiled program: source, code object; `instantiate(R)` gives the function for run R
    (fresh globals whose helpers and managers write to R only)."""
    __slots__ = ("desc", "src", "fn", "code", "pid", "sites", "module_code")

    def __init__(self, desc, pid):
        self.desc = desc
        self.pid = pid
        self.src, self.sites = emit_with_sites(desc)
        self.module_code = compile(self.src, "<prog:%s>" % pid, "exec")
        inert = Run()
        inert.finished = True
        self.fn = self.instantiate(inert)
        self.code = self.fn.__code__

    def instantiate(self, R):
        ns = make_namespace(R)
        R.namespace = ns
        exec(self.module_code, ns)
        return ns["prog"]

    @property
    def variant(self):
        return self.desc["variant"]


# =========================================================================================
# 4. executing one run
# =========================================================================================
def _res(kind, val=None):
    if isinstance(val, (int, str, type(None), bool)):
        return (kind, val)
    return (kind, type(val).__name__)


def execute(prog, vec, throw_at=None, on_probe=None, on_suspend=None):
    """Run `prog` through the branch vector `vec`; at suspension number `throw_at` (0-based) the
    driver resumes with throw(E1) instead of send.  Returns the Run."""
    R = Run(vec, throw_at, on_probe, on_suspend)
    fn = prog.instantiate(R)
    R.foi.append(("code", prog.code, "main"))
    R.driver_frame = sys._getframe(0)
    try:
        v = prog.variant
        if v == "sync":
            R.result = _drive_sync(R, fn)
        elif v == "gen":
            R.result = _drive_gen(R, fn(), "gen")
        elif v == "coro":
            R.result = _drive_gen(R, fn(), "coro")
        else:
            R.result = _drive_agen(R, fn())
        R.log.append(("result",) + tuple(R.result))
    finally:
        fn = None
        R.release()
    return R


def _drive_sync(R, fn):
    try:
        return _res("return", fn())
    except (E1, E2) as ex:
        return ("raise", type(ex).__name__)
    except Abort:
        return ("abort", None)
    except Exception as ex:
        return ("error", type(ex).__name__)


def _suspended(R, obj, how, y):
    """Called by the drivers at every suspension; returns True if the resume must be a throw."""
    idx = R.nsusp
    R.nsusp += 1
    R.log.append(("susp", how, y if isinstance(y, (int, type(None))) else (list(y) if isinstance(y, tuple) else type(y).__name__)))
    if R.on_suspend is not None and not R.aborted:
        R.on_suspend(R, obj, how, idx)
    if R.throw_at is not None and idx == R.throw_at:
        R.threw = True
        return True
    return False


def _next_send(R):
    R.sendc += 1
    return 5000 + R.sendc


def _drive_gen(R, g, how):
    R.main_obj = g
    val = None
    do_throw = False
    try:
        try:
            while True:
                if do_throw:
                    y = g.throw(E1("thrown"))
                else:
                    y = g.send(val)
                do_throw = _suspended(R, g, how, y)
                val = _next_send(R)
        except StopIteration as ex:
            return _res("return", ex.value)
        except (E1, E2) as ex:
            return ("raise", type(ex).__name__)
        except Abort:
            return ("abort", None)
        except Exception as ex:  # not expected from generated programs; keeps twin runs comparable
            return ("error", type(ex).__name__)
    finally:
        R.aborted = R.aborted or False
        try:
            g.close()
        except BaseException:
            pass


def _drive_agen(R, ag):
    R.main_obj = ag
    val = None
    throw_outer = False
    try:
        try:
            while True:
                aw = ag.athrow(E1("thrown")) if throw_outer else ag.asend(val)
                throw_outer = False
                x = None
                throw_inner = False
                while True:
                    try:
                        if throw_inner:
                            y = aw.throw(E1("thrown"))
                        else:
                            y = aw.send(x)
                    except StopIteration as ex:
                        yv = ex.value
                        break
                    throw_inner = _suspended(R, ag, "agen-await", y)
                    x = _next_send(R)
                throw_outer = _suspended(R, ag, "agen-yield", yv)
                val = _next_send(R)
        except StopAsyncIteration:
            return ("return", None)
        except (E1, E2) as ex:
            return ("raise", type(ex).__name__)
        except Abort:
            return ("abort", None)
        except Exception as ex:  # not expected from generated programs; keeps twin runs comparable
            return ("error", type(ex).__name__)
    finally:
        try:
            c = ag.aclose()
            try:
                c.send(None)
            except BaseException:
                pass
        except BaseException:
            pass


def explore(prog, throw_at=None, max_runs=64, on_probe=None, on_suspend=None, visit=None):
    """Systematic enumeration of all branch vectors (each distinct path once).  Returns
    (runs, complete)."""
    stack = [[]]
    runs = 0
    while stack:
        if runs >= max_runs:
            return runs, False
        prefix = stack.pop()
        R = execute(prog, prefix, throw_at, on_probe, on_suspend)
        runs += 1
        if visit is not None:
            visit(R, prefix)
        used = R.used
        for i in range(len(used) - 1, len(prefix) - 1, -1):
            if not used[i]:
                stack.append(used[:i] + [True])
    return runs, True


# =========================================================================================
# 5. observation and comparison
# =========================================================================================
def _ll():
    import stackscope._lowlevel as ll
    return ll


def view(contexts):
    return [(cx.obj, bool(cx.is_async), bool(cx.is_exiting)) for cx in contexts]


def show_view(vw):
    return [[mgr_label(m) if m is not None else None, a, x] for (m, a, x) in vw]


def same_view(got, exp):
    if len(got) != len(exp):
        return False
    for (g, ga, gx), (e, ea, ex) in zip(got, exp):
        if g is not e or ga != ea or gx != ex:
            return False
    return True


def iter_frames(stack, depth=0):
    for fr in stack.frames:
        yield fr
        for cx in fr.contexts:
            inner = getattr(cx, "inner_stack", None)
            if inner is not None and depth < 6:
                for x in iter_frames(inner, depth + 1):
                    yield x


def awaited_frame(obj):
    """Frame of what `obj` is suspended in (cr_await / gi_yieldfrom / ag_await), if any."""
    aw = None
    for a in ("cr_await", "gi_yieldfrom", "ag_await"):
        aw = getattr(obj, a, None)
        if aw is not None:
            break
    if aw is None:
        return None
    for a in ("cr_frame", "gi_frame", "ag_frame"):
        fr = getattr(aw, a, None)
        if fr is not None:
            return fr
    return None


def own_frame(obj):
    for a in ("gi_frame", "cr_frame", "ag_frame"):
        fr = getattr(obj, a, None)
        if fr is not None:
            return fr
    return None


ALIAS_KINDS = ("Sa", "Aa")


def referents_ok(got, R, owner, strict=False):
    """C20 relation between a referents-mode answer and the truth.  Returns None or a message.
    Unless `strict`, managers whose exit method is an alias of a function with another name
    (kinds Sa/Aa) are optional: the referents analysis recognises exit methods by
    __func__.__name__ and documents that it cannot see those (leg_known reproduces it)."""
    truth = R.truth.get(owner, [])
    active = [(m, a) for (m, a, ph) in truth if ph == "active"]
    optional = []
    if not strict:
        optional = [m for (m, a) in active if getattr(m, "kind", None) in ALIAS_KINDS]
        active = [(m, a) for (m, a) in active if getattr(m, "kind", None) not in ALIAS_KINDS]
    entering = [m for (m, a, ph) in truth if ph == "entering"]
    exiting = [(m, a) for (m, a, ph) in truth if ph == "exiting"]
    flagged = [g for g in got if g[2]]
    plain = [g for g in got if not g[2]]
    if len(flagged) != len(exiting):
        return "is_exiting entries: %d, exits in progress: %d" % (len(flagged), len(exiting))
    if flagged:
        if got[-1] is not flagged[0] and not got[-1][2]:
            return "is_exiting entry is not last"
        g = flagged[0]
        if g[1] != exiting[0][1]:
            return "is_exiting entry has wrong is_async"
        if g[0] is not None and g[0] is not exiting[0][0]:
            return "is_exiting entry has wrong obj"
    allowed_extra = entering + [m for m, _ in exiting] + optional
    i = 0
    for g in plain:
        if i < len(active) and g[0] is active[i][0]:
            if g[1] != active[i][1]:
                return "wrong is_async for %s" % mgr_label(g[0])
            i += 1
        elif any(g[0] is x for x in allowed_extra):
            continue
        else:
            return "unexpected entry %s" % mgr_label(g[0])
    if i != len(active):
        return "active manager %s missing" % mgr_label(active[i][0])
    return None


def details_msg(prog, R, owner, contexts):
    """Trickery mode: varname and start_line of every reported context of the program's own
    frame against the with statement in the source (positions already matched the truth)."""
    if owner != "main":
        return None
    entries = [e for e in R.truth.get("main", ()) if e[2] != "entering"]
    if len(entries) != len(contexts):
        return None
    for e, cx in zip(entries, contexts):
        info = prog.sites.get(getattr(e[0], "site", None))
        if info is None:
            continue
        line0, _, kind, _, tgt, _ = info
        site = e[0].site
        want = {"n": None, "a": "ns.a%d" % site, "s": "d[%d]" % site}.get(tgt, "x%d" % site)
        if cx.varname != want:
            return "varname of %s is %r, source says %r" % (mgr_label(e[0]), cx.varname, want)
        if cx.start_line != line0:
            return "start_line of %s is %r, with statement is on line %d" % (mgr_label(e[0]), cx.start_line, line0)
    return None


class Collector(object):
    """Accumulates evaluations / violations / distribution info for one leg."""

    def __init__(self, leg):
        self.leg = leg
        self.evaluations = 0
        self.violations = []
        self.nviol = 0
        self.counts = {}
        self.by_construct = {}
        self.by_variant = {}
        self.by_family = {}
        self.codes = set()
        self.state_hist = {}
        self.observer = None     # callable(record) for every observation of the program's own frame
        self.strict_alias = False
        self.sigger = classify_violation
        self.nknown = 0

    def count(self, key, n=1):
        self.counts[key] = self.counts.get(key, 0) + n

    def note_program(self, prog):
        self.count("programs")
        self.codes.add(id(prog.code))
        self.by_variant[prog.variant] = self.by_variant.get(prog.variant, 0) + 1
        fam = prog.desc.get("family", "?")
        self.by_family[fam] = self.by_family.get(fam, 0) + 1
        for lab in constructs(prog.desc):
            self.by_construct[lab] = self.by_construct.get(lab, 0) + 1

    def emit_state(self, prog, R, pyframe, running, got):
        """Feed one observed state of the program's own frame to the observer (used to abstract
        states for the Coq model): sites refer to prog.sites / the M(kind, site) calls."""
        if self.observer is None:
            return
        self.observer({
            "pid": prog.pid, "code": prog.code, "lasti": pyframe.f_lasti, "running": running,
            "vector": list(R.vec), "throw_at": R.throw_at,
            "truth": [[getattr(m, "site", None), bool(a), ph] for (m, a, ph) in R.truth.get("main", ())],
            "reported": [[getattr(m, "site", None) if m is not None else None, a, x] for (m, a, x) in got]})

    def note_state(self, R, owner):
        t = R.truth.get(owner, ())
        key = "act=%d ent=%d exi=%d" % (sum(1 for e in t if e[2] == "active"),
                                        sum(1 for e in t if e[2] == "entering"),
                                        sum(1 for e in t if e[2] == "exiting"))
        self.state_hist[key] = self.state_hist.get(key, 0) + 1

    def violation(self, what, R, prog, **extra):
        sig = self.sigger(what, R, prog, extra)
        if sig:
            self.nknown += 1
        else:
            self.nviol += 1
        if len(self.violations) < 40 or (sig and sum(1 for v in self.violations if v.get("sig") == sig) < 3):
            inp = {"program": prog.src, "variant": prog.variant, "family": prog.desc.get("family"),
                   "tag": prog.desc.get("tag"), "tree": prog.desc["body"], "flags": prog.desc.get("flags"),
                   "vector": list(R.vec), "throw_at": R.throw_at, "python": "%d.%d" % PY_VERSION}
            inp.update(extra)
            v = {"what": "[%s] %s" % (self.leg, what), "input": inp}
            if sig:
                v["sig"] = sig
            self.violations.append(v)

    def result(self, **info):
        inf = {"counts": self.counts, "distinct_code_objects": len(self.codes),
               "by_variant": self.by_variant, "by_family": self.by_family,
               "by_construct": self.by_construct, "truth_states": self.state_hist,
               "violations_total": self.nviol, "known_total": self.nknown, "python": "%d.%d.%d" % sys.version_info[:3]}
        inf.update(info)
        return {"evaluations": self.evaluations, "violations": self.violations, "info": inf}


def classify_violation(what, R, prog, extra):
    """Signature names for genuine, recorded discrepancies (none suppresses anything here; the
    caller decides).  Returns None for an unclassified violation."""
    return None


def observe_suspended(col, prog, R, obj, how, idx, mode):
    """C01 (mode trickery) / C20 (mode referents) check at one suspension point."""
    import stackscope
    ll = _ll()
    col.count("observation_points")
    col.count("susp:" + how)
    where = {"suspension_index": idx, "how": how}
    try:
        st = stackscope.extract(obj, with_contexts=True)
    except BaseException as ex:
        col.evaluations += 1
        col.violation("extract raised %r" % (ex,), R, prog, **where)
        return
    col.evaluations += 1
    if st.error is not None:
        col.violation("Stack.error = %r" % (st.error,), R, prog, **where)
    found_main = False
    for fr in iter_frames(st):
        owner = R.owner_of(fr.pyframe)
        if owner is None:
            continue
        if owner == "main":
            found_main = True
        col.note_state(R, owner)
        got = view(fr.contexts)
        col.evaluations += 1
        if owner == "main":
            col.emit_state(prog, R, fr.pyframe, False, got)
        if mode == "trickery":
            exp = R.expected(owner)
            if not same_view(got, exp):
                col.violation("extract: contexts of %s frame differ from truth" % (owner,), R, prog,
                              got=show_view(got), expected=show_view(exp),
                              lasti=fr.pyframe.f_lasti, **where)
            else:
                msg = details_msg(prog, R, owner, fr.contexts)
                col.evaluations += 1
                if msg:
                    col.violation("extract: " + msg, R, prog, lasti=fr.pyframe.f_lasti, **where)
        else:
            msg = referents_ok(got, R, owner, col.strict_alias)
            if msg is None and any(g[2] and g[0] is None for g in got):
                msg = "is_exiting entry has obj None although the exit frame is available"
            if msg:
                col.violation("extract (referents): " + msg, R, prog, got=show_view(got),
                              truth=[[mgr_label(m), a, ph] for (m, a, ph) in R.truth.get(owner, ())],
                              lasti=fr.pyframe.f_lasti, **where)
    if not found_main:
        col.violation("program frame not found in extract() result", R, prog, **where)
    # low-level entry point, on every frame of interest that is suspended
    targets = [(obj, "main")]
    for kind, ref, owner in R.foi:
        if kind == "gen" and own_frame(ref) is not None:
            running = getattr(ref, "gi_running", False) or (
                getattr(ref, "ag_running", False) and getattr(ref, "ag_await", None) is None)
            started = own_frame(ref).f_lasti >= 0
            if not running and started:
                targets.append((ref, owner))
    for tobj, owner in targets:
        frame = own_frame(tobj)
        if frame is None:
            continue
        nxt = awaited_frame(tobj)
        try:
            cs = ll.contexts_active_in_frame(frame, tobj, nxt)
        except BaseException as ex:
            col.evaluations += 1
            col.violation("contexts_active_in_frame raised %r" % (ex,), R, prog, owner=str(owner), **where)
            continue
        got = view(cs)
        col.evaluations += 1
        if mode == "trickery":
            exp = R.expected(owner)
            if nxt is None:
                exp = [(None if x else m, a, x) for (m, a, x) in exp]
            if not same_view(got, exp):
                col.violation("contexts_active_in_frame: %s frame differs from truth" % (owner,), R, prog,
                              got=show_view(got), expected=show_view(exp), lasti=frame.f_lasti, **where)
            else:
                msg = details_msg(prog, R, owner, cs)
                if msg:
                    col.violation("contexts_active_in_frame: " + msg, R, prog, lasti=frame.f_lasti, **where)
            # without next_inner the exiting entry carries no obj, everything else is unchanged
            if nxt is not None and exp and exp[-1][2]:
                cs2 = ll.contexts_active_in_frame(frame, tobj, None)
                col.evaluations += 1
                exp2 = exp[:-1] + [(None, exp[-1][1], True)]
                if not same_view(view(cs2), exp2):
                    col.violation("contexts_active_in_frame(next_inner=None) differs", R, prog,
                                  got=show_view(view(cs2)), expected=show_view(exp2), **where)
        else:
            msg = referents_ok(got, R, owner, col.strict_alias)
            if msg:
                col.violation("contexts_active_in_frame (referents): " + msg, R, prog, got=show_view(got),
                              truth=[[mgr_label(m), a, ph] for (m, a, ph) in R.truth.get(owner, ())],
                              owner=str(owner), lasti=frame.f_lasti, **where)
            if any(cx.start_line is not None or cx.varname is not None for cx in cs):
                col.violation("referents mode produced varname/start_line (trickery still active?)", R, prog, **where)


def _snap(api, outer_frame):
    """Tiny on purpose: this frame and its callers up to the program are part of every result."""
    import stackscope
    if api == 0:
        return stackscope.extract_since(None), sys._getframe(0)
    if api == 1:
        return stackscope.extract(stackscope.StackSlice(outer=outer_frame), with_contexts=True), sys._getframe(0)
    return stackscope.extract_since(outer_frame), sys._getframe(0)


def snap_running(R, idx):
    api = idx % 12
    api = 0 if api == 0 else (1 if api < 6 else 2)
    try:
        st, caller = _snap(api, R.driver_frame)
        return st, caller, api, None
    except BaseException as ex:
        return None, None, api, ex


class _RunFault(Exception):
    pass


def observe_running(col, prog, R, where, mgr, idx, snap):
    """C02 check from a probe call (running frames); `snap` was taken by snap_running() from
    a small frame below the probe."""
    ll = _ll()
    col.count("observation_points")
    col.count("probe:" + where)
    info = {"probe_index": idx, "probe_where": where, "probe_mgr": mgr_label(mgr) if mgr is not None else None}
    st, caller, api, ex = snap
    info["api"] = ("extract_since(None)", "extract(StackSlice(outer=driver))", "extract_since(driver)")[api]
    if ex is not None:
        col.evaluations += 1
        col.violation("extract raised %r" % (ex,), R, prog, **info)
        return
    col.evaluations += 1
    if st.error is not None:
        col.violation("Stack.error = %r" % (st.error,), R, prog, **info)
    found_main = False
    main_i = None
    for i, fr in enumerate(st.frames):
        if R.owner_of(fr.pyframe) == "main":
            main_i = i
    for fr in iter_frames(st):
        owner = R.owner_of(fr.pyframe)
        if owner is None:
            continue
        if owner == "main":
            found_main = True
        col.note_state(R, owner)
        got = view(fr.contexts)
        exp = R.expected(owner)
        col.evaluations += 1
        if owner == "main":
            col.emit_state(prog, R, fr.pyframe, True, got)
        if not same_view(got, exp):
            col.violation("running: contexts of %s frame differ from truth" % (owner,), R, prog,
                          got=show_view(got), expected=show_view(exp), lasti=fr.pyframe.f_lasti, **info)
        else:
            msg = details_msg(prog, R, owner, fr.contexts)
            col.evaluations += 1
            if msg:
                col.violation("running: " + msg, R, prog, lasti=fr.pyframe.f_lasti, **info)
    if not found_main:
        col.violation("program frame not found in extract_since() result", R, prog,
                      frames=[f.pyframe.f_code.co_name for f in st.frames], **info)
        return
    # the innermost frame reported must be the caller of extract (this function)
    if st.frames and st.frames[-1].pyframe is not caller:
        col.violation("innermost frame is not the caller of extract", R, prog, **info)
    # low-level entry point on the running program frame
    fr = st.frames[main_i]
    nxt = st.frames[main_i + 1].pyframe if main_i + 1 < len(st.frames) else None
    if idx % 3 == 1:
        # history: first a CONTAINED failure of the detailed analysis at this very (code, f_lasti)
        # (one helper raises once: a warning, no exception), then the same call again, which must be
        # exact as if the failure had never happened (checked below)
        hname = ("analyze_with_blocks", "currently_exiting_context", "inspect_frame")[(idx // 3) % 3]
        horig = getattr(ll, hname, None)
        if horig is not None:
            fired = []

            def _boom(*a, **kw):
                if fired:           # one fault: the fallback path may use the same helper legitimately
                    return horig(*a, **kw)
                fired.append(1)
                raise _RunFault("injected into %s" % hname)
            col.count("running_fault_then_recheck")
            col.evaluations += 1
            try:
                setattr(ll, hname, _boom)
                with warnings.catch_warnings(record=True) as wl:
                    warnings.simplefilter("always")
                    with contextlib.redirect_stderr(io.StringIO()):
                        ll.contexts_active_in_frame(fr.pyframe, None, nxt)
                if not any(issubclass(w.category, ll.InspectionWarning) for w in wl):
                    col.violation("running: fault in %s produced no InspectionWarning" % hname, R, prog, **info)
            except BaseException as ex:
                col.violation("running: fault in %s escaped contexts_active_in_frame: %r" % (hname, ex), R, prog, **info)
            finally:
                setattr(ll, hname, horig)
    try:
        cs = ll.contexts_active_in_frame(fr.pyframe, None, nxt)
    except BaseException as ex:
        col.evaluations += 1
        col.violation("contexts_active_in_frame raised %r" % (ex,), R, prog, **info)
        return
    col.evaluations += 1
    exp = R.expected("main")
    if not same_view(view(cs), exp):
        col.violation("running: contexts_active_in_frame differs from truth", R, prog,
                      got=show_view(view(cs)), expected=show_view(exp), lasti=fr.pyframe.f_lasti, **info)
    else:
        msg = details_msg(prog, R, "main", cs)
        if msg:
            col.violation("running: contexts_active_in_frame: " + msg, R, prog, lasti=fr.pyframe.f_lasti, **info)


# =========================================================================================
# 6. corpus per tier
# =========================================================================================
TIERS = {
    # matrix_stride: take every n-th matrix program; enum: {size: stride} (1 = exhaustive);
    # random: number of random programs per variant; max_runs: branch vectors per program
    # (exhaustive below that, see explore); running_stride: the running leg (3x dearer per
    # observation) takes every n-th program; deadline: seconds after which a leg stops early
    # and reports truncated=True.
    # throw_every / throw_k / throw_runs: every n-th program is also resumed with throw(E1) at each
    # of its first throw_k suspensions, exploring up to throw_runs branch vectors each.
    "quick": dict(special_stride=12, matrix_stride=79, enum={2: 1, 3: 12}, random=22, max_nodes=(6, 12), max_runs=24,
                  throw_every=3, throw_k=8, throw_runs=6, running_stride=5, deadline=36.0),
    "thorough": dict(matrix_stride=4, enum={2: 1, 3: 1, 4: 6}, random=400, max_nodes=(5, 14), max_runs=48,
                     throw_every=2, throw_k=6, throw_runs=6, running_stride=4, deadline=440.0),
    "tiny": dict(special_stride=60, matrix_stride=431, enum={2: 4}, random=4, max_nodes=(5, 8), max_runs=8,
                 throw_every=4, throw_k=8, throw_runs=4, running_stride=1, deadline=20.0),
}


def corpus(tier, seed, variants=VARIANTS):
    """Deterministic list of program descriptors for a tier."""
    cfg = TIERS[tier]
    rng = random.Random(seed * 1000003 + 17)
    out = []
    stride = cfg["matrix_stride"]
    off = seed % stride if stride > 1 else 0
    for i, p in enumerate(matrix_programs(variants)):
        if (i + off) % stride == 0:
            out.append(p)
    for size, st in sorted(cfg["enum"].items()):
        off = seed % st if st > 1 else 0
        for i, p in enumerate(enum_programs(size, variants)):
            if (i + off) % st == 0:
                out.append(p)
    lo, hi = cfg["max_nodes"]
    for variant in variants:
        for _ in range(cfg["random"]):
            p = gen_program(rng, variant, max_nodes=rng.randint(lo, hi), depth=rng.choice((2, 3, 3, 4)))
            fl = {}
            k = rng.random()
            if k < 0.12:
                fl["closure"] = 1
            elif k < 0.24:
                fl["closure"] = 2
            elif k < 0.31:
                fl["closure"] = 3
            elif k < 0.36:
                fl["closure"] = 4
            if rng.random() < 0.04:
                fl["doc"] = True
                fl["consts"] = 260
            if fl:
                p["flags"] = fl
            out.append(p)
    sp = list(special_programs(variants))
    st = cfg.get("special_stride", 1)
    off = seed % st if st > 1 else 0
    out.extend(p for i, p in enumerate(sp) if (i + off) % st == 0)
    # the maximal-nesting programs are in every tier and seed
    out.extend(p for p in sp if str(p.get("tag", "")).startswith("nest") and p not in out)
    # every tier and seed has, per variant, programs whose code object has a local and a free
    # (resp. cell) variable of the same name
    for variant in variants:
        pick = [p for p in sp if p["variant"] == variant and p["flags"].get("closure") in (3, 4) and "consts" not in p["flags"]]
        for cl in (3, 4):
            same = [p for p in pick if p["flags"]["closure"] == cl]
            for j in range(min(2, len(same))):
                out.append(same[(seed * 2 + j * 5) % len(same)])
    return out


_COMPILES = {}


def _compiles(src):
    """does this interpreter compile src?  Probed in a subprocess: CPython 3.12.1 crashes in the compiler,
    instead of raising SyntaxError, when the block nesting limit is exceeded by certain shapes"""
    if src not in _COMPILES:
        import subprocess
        try:
            r = subprocess.run([sys.executable, "-c", "import sys; compile(sys.stdin.read(), '<probe>', 'exec')"],
                               input=src, text=True, stdout=subprocess.DEVNULL, stderr=subprocess.DEVNULL, timeout=60)
            _COMPILES[src] = r.returncode == 0
        except Exception:
            _COMPILES[src] = False
    return _COMPILES[src]


def special_programs(variants=VARIANTS):
    """Shapes the grammar reaches rarely: many constants (EXTENDED_ARG before LOAD_CONST None and
    on jumps), cell/free variables and extra parameters (frame layout), with-expression over
    several lines (NOP after the enter sequence on 3.11)."""
    # the deepest block nesting the compiler accepts (CO_MAXBLOCKS = 20): on 3.9/3.10 the frame's block stack
    # is then completely full (f_iblock == 20), on 3.11+ the exception-table chain is 20 long
    for variant in variants:
        found = 0
        for depth in (20, 19, 18, 17, 16, 14, 12):
            body = [["susp"]]
            for lvl in range(depth):
                is_async = variant in ASYNC_VARIANTS and lvl % 3 == 1
                body = [["with", is_async, [["A" if is_async else "S", "v" if lvl % 2 else "n"]], body]]
            prog = {"variant": variant, "body": body + [["susp"]], "family": "special", "flags": {},
                    "tag": "nest%d" % depth}
            if not _compiles(emit(prog)):
                continue
            yield prog
            found += 1
            if found == 2:
                break
    flagsets = ({"doc": True, "consts": 260}, {"closure": 1}, {"closure": 2},
                {"closure": 2, "doc": True, "consts": 260}, {"closure": 3}, {"closure": 4})
    for variant in variants:
        itemsets = [[["S", "m"]], [["Sw", "v"], ["G", "m"]], [["Sv", "v"]]]
        if variant in ASYNC_VARIANTS:
            itemsets += [[["A", "m"]], [["A", "n"], ["AG", "m"]], [["Aw", "v"]], [["Av", "v"]]]
        for fl in flagsets:
            for items in itemsets:
                is_async = items[0][0] in ASYNC_KINDS
                for ex in ("fall", "c_ret_c", "ret_v", "c_break", "raise_swallow", "c_raise", "try_except_last"):
                    if ex == "raise_swallow" and not any(k.endswith("w") for k, _ in items):
                        continue
                    tail, needs_loop, needs_catch = _matrix_exit(ex)
                    body = [["with", is_async, items, [["susp"]] + tail], ["susp"]]
                    if needs_loop:
                        body = [["for", body, None]]
                    if needs_catch:
                        body = [["try", body, [["E12", [["susp"]]]], None, [["susp"]]]]
                    yield {"variant": variant, "body": body + [["susp"]], "family": "special", "flags": dict(fl),
                           "tag": "%s/%s/%s" % (sorted(fl.items()), "+".join(k for k, _ in items), ex)}


def compile_corpus(tier, seed, variants=VARIANTS):
    progs = []
    seen = set()
    for i, d in enumerate(corpus(tier, seed, variants)):
        p = Program(d, "%s%d" % (d.get("family", "p"), i))
        key = (d["variant"], p.src)
        if key in seen:
            continue
        seen.add(key)
        progs.append(p)
    # deterministic shuffle: shards and deadline truncation then see an unbiased sample
    random.Random(seed * 7 + 1).shuffle(progs)
    return progs


def _shard(progs, shard):
    if not shard:
        return progs
    k, n = shard
    return progs[k::n]


# =========================================================================================
# 7. legs
# =========================================================================================
class _Warn(object):
    """warnings.simplefilter("error", InspectionWarning) for the duration of a leg."""

    def __enter__(self):
        ll = _ll()
        self.cm = warnings.catch_warnings()
        self.cm.__enter__()
        warnings.simplefilter("error", ll.InspectionWarning)
        return self

    def __exit__(self, *a):
        return self.cm.__exit__(*a)


def _run_suspended(col, progs, cfg, mode, t0):
    truncated = False
    for pi, prog in enumerate(progs):
        if prog.variant == "sync":
            continue
        if time.time() - t0 > cfg["deadline"]:
            truncated = True
            break
        col.note_program(prog)

        def on_suspend(R, obj, how, idx, prog=prog):
            observe_suspended(col, prog, R, obj, how, idx, mode)

        max_susp = [0]

        def visit(R, prefix):
            col.count("branch_vectors")
            if R.aborted:
                col.count("aborted_runs")
            max_susp[0] = max(max_susp[0], R.nsusp)

        runs, complete = explore(prog, None, cfg["max_runs"], None, on_suspend, visit)
        if not complete:
            col.count("programs_with_sampled_vectors")
        # throw edges: resume suspension k with throw(E1)
        if pi % cfg["throw_every"] == 0:
            for k in range(min(max_susp[0], cfg["throw_k"])):
                def visit_t(R, prefix):
                    if R.threw:
                        col.count("branch_vectors")
                        col.count("throw_runs")
                explore(prog, k, cfg["throw_runs"], None, on_suspend, visit_t)
    return truncated


def leg_suspended(tier="quick", seed=0, mode="trickery", variants=VARIANTS, progs=None, shard=None, observer=None):
    """[C01] every suspension point of every program/branch vector: Frame.contexts and
    lowlevel.contexts_active_in_frame equal the logged truth; no InspectionWarning."""
    t0 = time.time()
    c0 = time.process_time()
    cfg = TIERS[tier]
    ll = _ll()
    col = Collector("suspended" if mode == "trickery" else "referents")
    col.observer = observer
    if progs is None:
        progs = compile_corpus(tier, seed, variants)
    progs = _shard(progs, shard)
    try:
        if mode == "referents":
            ll.set_trickery_enabled(False)
        with _Warn():
            truncated = _run_suspended(col, progs, cfg, mode, t0)
    finally:
        if mode == "referents":
            ll.set_trickery_enabled(None)
    return col.result(wall=round(time.time() - t0, 2), cpu=round(time.process_time() - c0, 2), truncated=truncated, tier=tier, seed=seed, mode=mode)


def leg_running(tier="quick", seed=0, variants=VARIANTS, progs=None, shard=None, observer=None):
    """[C02] probes from call sites inside bodies and inside every enter/exit of the logging
    managers; the program's running frame is located in extract_since()/extract(StackSlice)."""
    t0 = time.time()
    c0 = time.process_time()
    cfg = TIERS[tier]
    col = Collector("running")
    col.observer = observer
    if progs is None:
        progs = compile_corpus(tier, seed, variants)
    progs = _shard(progs[::cfg["running_stride"]], shard)
    truncated = False
    with _Warn():
        for pi, prog in enumerate(progs):
            if time.time() - t0 > cfg["deadline"]:
                truncated = True
                break
            col.note_program(prog)

            def on_probe(R, where, mgr, idx, prog=prog):
                observe_running(col, prog, R, where, mgr, idx, snap_running(R, idx))

            max_susp = [0]

            def visit(R, prefix):
                col.count("branch_vectors")
                if R.aborted:
                    col.count("aborted_runs")
                max_susp[0] = max(max_susp[0], R.nsusp)

            runs, complete = explore(prog, None, cfg["max_runs"], on_probe, None, visit)
            if not complete:
                col.count("programs_with_sampled_vectors")
            if pi % cfg["throw_every"] == 0:
                for k in range(min(max_susp[0], cfg["throw_k"])):
                    def visit_t(R, prefix):
                        if R.threw:
                            col.count("branch_vectors")
                            col.count("throw_runs")
                    explore(prog, k, cfg["throw_runs"], on_probe, None, visit_t)
    return col.result(wall=round(time.time() - t0, 2), cpu=round(time.process_time() - c0, 2), truncated=truncated, tier=tier, seed=seed)


# ---- C20 extras -----------------------------------------------------------------------------
def _fixed_target(R):
    """A coroutine suspended inside two managers with distinguishable trickery-only details."""
    ns = make_namespace(R)
    src = ("async def prog():\n"
           "    with M('S', 1) as first:\n"
           "        async with M('A0', 2) as second:\n"
           "            r(await trap(1))\n")
    exec(compile(src, "<prog:fixed>", "exec"), ns)
    return ns["prog"]


def trickery_sequences(col, tier, seed):
    """set_trickery_enabled value sequences; the mode in effect is read back on this thread and
    on a second thread: trickery <=> start_line/varname are filled in."""
    ll = _ll()
    rng = random.Random(seed * 31 + 5)
    R = Run()
    fn = _fixed_target(R)
    co = fn()
    co.send(None)

    def mode_now(out):
        try:
            with warnings.catch_warnings():
                warnings.simplefilter("error", ll.InspectionWarning)
                cs = ll.contexts_active_in_frame(co.cr_frame, co)
            if [c.obj for c in cs] != [e[0] for e in R.truth["main"]]:
                out.append("wrong")
            elif all(c.start_line is not None and c.varname is not None for c in cs):
                out.append("trickery")
            elif all(c.start_line is None and c.varname is None for c in cs):
                out.append("referents")
            else:
                out.append("mixed")
        except BaseException as ex:
            out.append("raised %r" % (ex,))

    seqs = []
    vals = (True, False, None)
    n = 3 if tier != "thorough" else 4
    import itertools
    for L in range(1, n + 1):
        for s in itertools.product(vals, repeat=L):
            seqs.append(list(s))
    for _ in range(20 if tier != "thorough" else 200):
        seqs.append([rng.choice(vals) for _ in range(rng.randint(4, 9))])
    try:
        for s in seqs:
            for i, val in enumerate(s):
                ll.set_trickery_enabled(val)
                want = "referents" if val is False else "trickery"
                here = []
                mode_now(here)
                there = []
                th = threading.Thread(target=mode_now, args=(there,))
                th.start()
                th.join()
                # a setter on another thread is seen here as well
                col.evaluations += 2
                col.count("mode_switch_checks", 2)
                if here != [want] or there != [want]:
                    col.nviol += 1
                    col.violations.append({"what": "[referents] set_trickery_enabled(%r): mode main=%s thread=%s, expected %s"
                                           % (val, here, there, want),
                                           "input": {"sequence": [repr(x) for x in s], "position": i}})
            # set from a second thread, read here
            val = s[-1]
            for val2 in (not val if val is not None else False, val):
                th = threading.Thread(target=ll.set_trickery_enabled, args=(val2,))
                th.start()
                th.join()
                here = []
                mode_now(here)
                want = "referents" if val2 is False else "trickery"
                col.evaluations += 1
                col.count("mode_switch_checks")
                if here != [want]:
                    col.nviol += 1
                    col.violations.append({"what": "[referents] set_trickery_enabled(%r) from another thread not seen: %s"
                                           % (val2, here),
                                           "input": {"sequence": [repr(x) for x in s]}})
        # a setter on a second thread that runs while this thread is inside the auto-detection
        # self-test: once set_trickery_enabled(v) has returned, v must be what later reads see
        # (the self-test must not overwrite it)
        orig = ll._contexts_active_by_trickery
        for trial in range(3):
            fired = []
            done = threading.Event()
            box = {}

            def setter():
                ll.set_trickery_enabled(False)
                done.set()

            def hooked(frame):
                if not fired and threading.current_thread() is threading.main_thread():
                    fired.append(1)
                    box["t"] = threading.Thread(target=setter)
                    box["t"].start()
                    done.wait(0.25)
                return orig(frame)

            ll.set_trickery_enabled(None)
            ll._contexts_active_by_trickery = hooked
            try:
                first = []
                mode_now(first)
            finally:
                ll._contexts_active_by_trickery = orig
            if "t" in box:
                box["t"].join()
            here, there = [], []
            mode_now(here)
            th = threading.Thread(target=mode_now, args=(there,))
            th.start()
            th.join()
            col.evaluations += 1
            col.count("mode_switch_race_checks")
            if not fired:
                col.count("mode_switch_race_not_reached")
            elif here != ["referents"] or there != ["referents"]:
                col.nviol += 1
                col.violations.append({"what": "[referents] set_trickery_enabled(False) issued on a second thread during the "
                                               "auto-detection self-test was lost: later reads main=%s thread=%s" % (here, there),
                                       "input": {"scenario": "set(None); thread A extracts (self-test running); thread B set(False) returns; A finishes",
                                                 "trial": trial}})
    finally:
        ll.set_trickery_enabled(None)
        co.close()
        R.release()


FAULT_HELPERS = ("analyze_with_blocks", "inspect_frame", "currently_exiting_context",
                 "_parse_exception_table", "describe_assignment_target", "_parse_varint", "replace")


class _Fault(Exception):
    pass


def ctx_sig(cs):
    return [(id(c.obj) if c.obj is not None else None, bool(c.is_async), bool(c.is_exiting), c.varname, c.start_line)
            for c in cs]


def fault_leg(col, progs, tier, seed):
    """Each helper of the trickery analysis raises at its k-th invocation within one
    contexts_active_in_frame call: no exception, an InspectionWarning, the referents answer."""
    ll = _ll()
    rng = random.Random(seed * 77 + 3)
    # make sure the version-specific inspect_frame is bound before patching it
    cands = [p for p in progs if p.variant != "sync"]
    rng.shuffle(cands)
    cands = cands[: (25 if tier != "thorough" else 250)]
    # every Exception subclass counts as "the analysis failed": resource-exhaustion errors and
    # errors a C helper could raise are included on purpose (the handler must not be narrowed);
    # StopIteration is left out: inside _parse_exception_table it is the normal end-of-table signal
    exc_types = (_Fault, AssertionError, KeyError, RuntimeError, IndexError, RecursionError, MemoryError,
                 ValueError, TypeError, AttributeError, NotImplementedError, OSError,
                 ZeroDivisionError, LookupError, SystemError, BufferError)
    ll.set_trickery_enabled(True)
    state = {"name": None, "k": 0, "n": {}, "armed": False}

    def wrap(name, orig):
        def wrapper(*a, **kw):
            state["n"][name] = state["n"].get(name, 0) + 1
            if state["armed"] and name == state["name"] and state["n"][name] == state["k"]:
                state["armed"] = False
                raise state["exc"]("injected into %s call %d" % (name, state["k"]))
            return orig(*a, **kw)
        wrapper.__name__ = getattr(orig, "__name__", name)
        return wrapper

    def on_suspend(R, obj, how, idx, prog=None):
        frame = own_frame(obj)
        nxt = awaited_frame(obj)
        # unfaulted run: count invocations of each helper
        state["n"] = {}
        state["armed"] = False
        try:
            with warnings.catch_warnings():
                warnings.simplefilter("error", ll.InspectionWarning)
                exact_sig = ctx_sig(ll.contexts_active_in_frame(frame, obj, nxt))
        except BaseException:
            return
        counts = dict(state["n"])
        # the referents-mode answer = what the same call returns with trickery switched off
        ll.set_trickery_enabled(False)
        try:
            ref = ll.contexts_active_in_frame(frame, obj, nxt)
        finally:
            ll.set_trickery_enabled(True)
        ref_sig = ctx_sig(ref)
        for name in patched:
            n = counts.get(name, 0)
            ks = list(range(1, n + 1))
            if len(ks) > 4 and tier != "thorough":
                ks = ks[:2] + ks[-2:]
            elif len(ks) > 12:
                ks = sorted(set(ks[:3] + ks[-3:] + ks[3:-3:max(1, (len(ks) - 6) // 6)]))
            for k in ks:
                state.update(name=name, k=k, n={}, armed=True, exc=exc_types[(k + idx) % len(exc_types)])
                col.evaluations += 1
                col.count("fault_injections")
                col.count("fault:" + name)
                err = io.StringIO()
                try:
                    with warnings.catch_warnings(record=True) as wl:
                        warnings.simplefilter("always")
                        with contextlib.redirect_stderr(err):
                            got = ll.contexts_active_in_frame(frame, obj, nxt)
                except BaseException as ex:
                    col.violation("fault in %s call %d escaped contexts_active_in_frame: %r" % (name, k, ex),
                                  cur["R"], cur["prog"], suspension_index=idx)
                    continue
                finally:
                    fired = not state["armed"]
                    state["armed"] = False
                if not fired:
                    col.count("fault_not_reached")
                    continue
                if not any(issubclass(w.category, ll.InspectionWarning) for w in wl):
                    col.violation("fault in %s call %d: no InspectionWarning" % (name, k), cur["R"], cur["prog"],
                                  suspension_index=idx)
                if ctx_sig(got) != ref_sig:
                    col.violation("fault in %s call %d: result is not the referents answer" % (name, k),
                                  cur["R"], cur["prog"], suspension_index=idx,
                                  got=[[mgr_label(c.obj) if c.obj is not None else None, c.is_async, c.is_exiting] for c in got],
                                  expected=[[mgr_label(c.obj) if c.obj is not None else None, c.is_async, c.is_exiting] for c in ref])
                # a contained failure leaves no trace: the same call, unfaulted, is exact again and silent
                col.evaluations += 1
                col.count("fault_recovery_checks")
                try:
                    with warnings.catch_warnings():
                        warnings.simplefilter("error", ll.InspectionWarning)
                        with contextlib.redirect_stderr(err):
                            again = ctx_sig(ll.contexts_active_in_frame(frame, obj, nxt))
                except BaseException as ex:
                    col.violation("after a contained fault in %s call %d the unfaulted call fails/warns: %r" % (name, k, ex),
                                  cur["R"], cur["prog"], suspension_index=idx)
                    continue
                if again != exact_sig:
                    col.violation("after a contained fault in %s call %d the unfaulted call no longer gives the "
                                  "exact answer" % (name, k), cur["R"], cur["prog"], suspension_index=idx)

    cur = {}
    # bind the real inspect_frame first (the module-level stub replaces itself on first call)
    try:
        ll.inspect_frame(sys._getframe(0))
    except Exception:
        pass
    patched = {}
    for name in FAULT_HELPERS:
        orig = getattr(ll, name, None)
        if orig is None:
            continue
        patched[name] = orig
    try:
        for name, orig in patched.items():
            setattr(ll, name, wrap(name, orig))
        for prog in cands:
            cur["prog"] = prog

            def osusp(R, obj, how, idx):
                cur["R"] = R
                on_suspend(R, obj, how, idx)

            explore(prog, None, 3 if tier != "thorough" else 6, None, osusp, None)
    finally:
        for name, orig in patched.items():
            setattr(ll, name, orig)
        ll.set_trickery_enabled(None)
    col.counts["fault_helpers"] = sorted(patched)


def leg_referents(tier="quick", seed=0, variants=VARIANTS, progs=None, shard=None):
    """[C20] referents mode at every suspension point (ordered superset relation), mode switch
    sequences incl. a second thread, faults inside the trickery branch."""
    t0 = time.time()
    if progs is None:
        progs = compile_corpus(tier, seed, variants)
    res = leg_suspended(tier, seed, mode="referents", variants=variants, progs=progs, shard=shard)
    col = Collector("referents")
    t1 = time.time()
    if not shard or shard[0] == 0:
        trickery_sequences(col, tier, seed)
        t1 = time.time()
        fault_leg(col, progs, tier, seed)
    extra = col.result()
    res["evaluations"] += extra["evaluations"]
    res["violations"] += extra["violations"]
    res["info"]["violations_total"] += col.nviol
    res["info"]["counts"].update(extra["info"]["counts"])
    res["info"]["wall"] = round(time.time() - t0, 2)
    res["info"]["wall_faults"] = round(time.time() - t1, 2)
    return res


# ---- recorded discrepancies (sig-tagged), kept out of the main legs ---------------------------
KNOWN_SIGS = {
    "referents_alias_exit_name":
        "referents mode (C20): a manager whose exit method is an alias of a function with another "
        "name (`__exit__ = close`) is not reported although it is active; the fallback recognises "
        "exit methods by __func__.__name__ (documented limitation of set_trickery_enabled(False)); "
        "known_findings.json: property C20, finding F21",
}


def known_programs(variants=VARIANTS):
    for variant in variants:
        a = variant in ASYNC_VARIANTS
        k = "Aa" if a else "Sa"
        yield {"variant": variant, "family": "known", "tag": "aliased exit",
               "body": [["with", a, [[k, "v"]], [["susp"], ["with", False, [["S", "n"]], [["susp"]]]]], ["susp"]]}
        yield {"variant": variant, "family": "known", "tag": "aliased exit, exception path",
               "body": [["try", [["with", a, [["S" if not a else "A", "n"], [k, "n"]], [["susp"], ["raise", "E1"]]]],
                         [["E1", [["susp"]]]], None, None]]}


def _known_sigger(what, R, prog, extra):
    kinds = set(k for st in _walk(prog.desc["body"]) if st[0] == "with" for k, _ in st[2])
    if kinds & set(ALIAS_KINDS) and "(referents)" in what and ("missing" in what or "unexpected entry" in what):
        truth = extra.get("truth") or []
        if any(str(t[0]).startswith(("Sa@", "Aa@")) and t[2] == "active" for t in truth):
            return "referents_alias_exit_name"
    return None


def leg_known(tier="quick", seed=0, variants=VARIANTS, progs=None, shard=None):
    """Reproduces the recorded discrepancies on a handful of dedicated programs: every violation
    that matches a recorded signature carries `sig`; anything else is an ordinary violation.
    result["known_reproduced"] lists the signatures seen."""
    t0 = time.time()
    if shard and shard[0] != 0:
        return {"evaluations": 0, "violations": [], "known_reproduced": [], "info": {"counts": {}, "violations_total": 0, "known_total": 0}}
    kp = [Program(d, "known%d" % i) for i, d in enumerate(known_programs(variants))]
    out = {"evaluations": 0, "violations": [], "info": {"counts": {}, "violations_total": 0, "known_total": 0, "parts": {}}}
    ll = _ll()
    cfg = TIERS["tiny"]
    for name in ("suspended", "running", "referents"):
        col = Collector("known/" + name)
        col.sigger = _known_sigger
        col.strict_alias = True
        with _Warn():
            if name == "running":
                for prog in kp:
                    col.note_program(prog)

                    def on_probe(R, where, mgr, idx, prog=prog):
                        observe_running(col, prog, R, where, mgr, idx, snap_running(R, idx))

                    explore(prog, None, 8, on_probe, None, None)
                    explore(prog, 0, 4, on_probe, None, None)
            else:
                try:
                    if name == "referents":
                        ll.set_trickery_enabled(False)
                    _run_suspended(col, kp, cfg, "trickery" if name == "suspended" else "referents", time.time())
                finally:
                    if name == "referents":
                        ll.set_trickery_enabled(None)
        r = col.result()
        out["evaluations"] += r["evaluations"]
        out["violations"] += r["violations"]
        out["info"]["violations_total"] += col.nviol
        out["info"]["known_total"] += col.nknown
        out["info"]["parts"][name] = {"evaluations": r["evaluations"], "violations_total": col.nviol, "known_total": col.nknown}
    out["known_reproduced"] = sorted(set(v["sig"] for v in out["violations"] if v.get("sig")))
    out["info"]["known_sigs"] = KNOWN_SIGS
    out["info"]["wall"] = round(time.time() - t0, 2)
    out["info"]["python"] = "%d.%d.%d" % sys.version_info[:3]
    return out


LEGS = {"suspended": leg_suspended, "running": leg_running, "referents": leg_referents, "known": leg_known}


def main(argv=None):
    import argparse
    ap = argparse.ArgumentParser()
    ap.add_argument("--legs", default="suspended,running,referents")
    ap.add_argument("--tier", default="quick")
    ap.add_argument("--seed", type=int, default=0)
    ap.add_argument("--deadline", type=float, default=None)
    ap.add_argument("--shard", default=None, help="k/n: only programs k, k+n, ... of the shuffled corpus")
    a = ap.parse_args(argv)
    shard = tuple(int(x) for x in a.shard.split("/")) if a.shard else None
    try:  # a broken analysis can loop while allocating: fail fast instead of exhausting the machine
        import resource
        lim = 6 * 1024 ** 3
        soft, hard = resource.getrlimit(resource.RLIMIT_AS)
        if soft == resource.RLIM_INFINITY or soft > lim:
            resource.setrlimit(resource.RLIMIT_AS, (lim, hard))
    except Exception:
        pass
    if a.deadline:
        TIERS[a.tier] = dict(TIERS[a.tier], deadline=a.deadline)
    out = {}
    progs = compile_corpus(a.tier, a.seed)
    for leg in a.legs.split(","):
        try:
            out[leg] = LEGS[leg](a.tier, a.seed, progs=progs, shard=shard)
        except BaseException as ex:
            import traceback
            out[leg] = {"evaluations": 0, "violations": [{"what": "[%s] leg crashed: %r" % (leg, ex),
                                                          "input": {"traceback": traceback.format_exc()}}],
                        "info": {"python": "%d.%d.%d" % sys.version_info[:3]}}
    sys.stdout.write("\n" + json.dumps(out, default=repr) + "\n")
    return 0


if __name__ == "__main__":
    sys.exit(main())
