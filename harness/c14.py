"""C14 — Trio: the extracted tree is isomorphic to the real task tree, across thread hops.

Correspondence: generated Trio programs (harness/c14_gen.py) are run under trio.run; once every
task/thread is parked a supervisor task (or, for end=inside, the innermost serving task itself)
calls the REAL stackscope.extract on the root task / foreign thread under warnings-as-errors
for InspectionWarning.  The parked program is abstracted from ground truth (coroutine chains,
thread f_back chains, the generator's registry of which manager is open in which frame, Trio's
own task.child_nurseries / nursery.child_tasks) into the world descriptor of coq/M_TaskTree.v;
Coq evaluates the model on that world, compares with the abstracted Stack returned by the
implementation and, for recurse=True, also evaluates the specification (iso_b against Trio's
own tables) on the observed Stack.  A Python oracle written from the property text runs on the
live objects as well (identity of Nursery objects, child roots, order, first/innermost frame of
every child, Stack.error/leaf, stubs, frames across thread hops)."""
import copy
import itertools
import random

from .common import cbool, clist, cnat

PROP = "C14"
KINDS = {"main": dict(imports="From SS Require Import Base M_TaskTree.", type="tcase",
                      mismatch="mismatches", nontrivial="count_nontrivial")}
SHARD = 120
F14 = "F14_sys_task_context_swapped"
RULE = ("trees: random task trees of depth <= 3 and fan-out <= 3 (<= 40 tasks), every task with 1..3 frames, 0..3 nested "
        "contexts per frame (nurseries, CancelScope, Lock), parked in the innermost body (sleep_forever / Event.wait / "
        "to_thread.run_sync of ONE shared function, alone or re-entering the task through from_thread.run of ONE shared "
        "coroutine function, all tasks carrying one name so that worker-thread names are equal) or in "
        "the innermost nursery's __aexit__ (0..2 already closed nurseries inside), nursery bodies ending in plain statement / "
        "try-except / try-finally / `if c: return K` (c false and c true) / a nested with; both recurse_child_tasks values; "
        "some tasks with 95..150 nested awaits between two frames (above a nursery with children) and ping-pong chains of "
        "depth 21..24 (chains longer than the runaway-unwrap guard's constant); trees extracted while a second thread sits "
        "inside an extract() of its own with other options (entered at the start of the k-th stack, scheduled through "
        "stackscope._verif 'glue:enter'); thorough adds a systematic family (context layouts x end shapes x block modes x child counts). chains: every valid "
        "hop string over T (to_thread.run_sync), H (from_thread.run re-entering the host task), S (from_thread.run with "
        "trio_token, system task), R (from_thread.run_sync as the last hop, the sync function calling extract from inside the "
        "host task) up to length M (quick 5, thorough 8) from a task or a foreign thread, parked and observed from "
        "outside, or observed from inside the innermost task, or parked before the worker thread exists; each hop string also "
        "with ONE sync and ONE async function at every level (equal worker-thread names); nurseries with a child "
        "in the task segments. distinct = distinct descriptors; non-trivial = model result has a nursery child or frames that "
        "came in through a hop")
CONFIG = dict(
    coq=["C14"], level="proof",
    claim=("Coq theorems (all task trees, all hop alternation depths) about an executable model of glue_trio + extract_child + "
           "the prune/insert queue discipline of extract_iter, tied to the code by differential comparison inside Coq on "
           "generated Trio programs run for real, plus the isomorphism specification evaluated in Coq on the observed Stack "
           "against Trio's own task.child_nurseries / nursery.child_tasks."),
    design_ref="DESIGN.md section 5 C14",
    trusted_base=["model M_TaskTree.v is hand-written; the lookups of the thread glue (thread by name, frames by "
                  "sys._current_frames, serving task by contextvars.Context identity) are abstracted as already-resolved "
                  "kinds of the to_thread/from_thread frames, resolved by the harness from the generated functions' identity",
                  "harness/c14_gen.py abstraction of live Trio objects into the world descriptor"],
    assumptions=["the per-frame context analysis is exact (C01/C02): in the theorems the contexts attached to a frame agree "
                 "with Trio's tables; in the runs this is what is being observed",
                 "the program is parked while it is observed (trio.testing.wait_all_tasks_blocked, worker threads blocked in C)",
                 "CPython 3.12 + trio 0.34 only"],
    unproved_legs=["C14_lookahead_irrelevant shows that the model's lookahead approximation (a to_thread.run_sync frame ending "
                   "its segment sees next_inner=None) cannot change the frames on well-typed ping-pong worlds; on ill-typed "
                   "worlds (never produced by Trio) the model is not claimed to follow the code",
                   "trio.from_thread.run_sync needs no rule of its own (the glue registers nothing for it: its frame and "
                   "_send_message_to_trio are plain thread frames before the host's frames); covered by generated chains "
                   "ending in R and by C14_hops_n (thread segment without from_thread.run), not by a separate theorem"],
    NOTES=("DESIGN deviation: the analysis oracle is not a Section function variable (that would break structural recursion "
           "of the model); the Section variables are Trio's tables nurs_of/kids_of and exactness is the hypothesis that the "
           "contexts attached to the frames agree with them. Hops are modelled on a dedicated queue-with-depths walk instead "
           "of M_Frames hook tables so that the induction on the alternation depth is structural."),
    timeout={"quick": 900, "thorough": 5400},
)

ENDS = ("plain", "tryexc", "tryfin", "ifret0", "none")


# ------------------------------------------------------------------------------- generators
def leaf(how="sleep", nfr=1):
    return {"frames": [{"ctxs": []} for _ in range(nfr)], "block": "body", "how": how, "closed": 0}


def rand_task(rng, depth, maxdepth, fan, budget):
    budget[0] -= 1
    nfr = rng.choice([1, 1, 2, 3])
    frames = []
    for _ in range(nfr):
        ctxs = []
        for _ in range(rng.choice([0, 1, 1, 2, 3])):
            t = rng.choice(["n", "n", "n", "cs", "lock"])
            c = {"t": t, "end": rng.choice(ENDS)}
            if t == "n":
                c["kids"] = []
                if depth < maxdepth:
                    for _ in range(rng.choice([0, 1, 1, 2, fan])):
                        if budget[0] > 0:
                            c["kids"].append(rand_task(rng, depth + 1, maxdepth, fan, budget))
            ctxs.append(c)
        frames.append({"ctxs": ctxs})
    task = {"frames": frames, "block": "body", "how": rng.choice(["sleep", "event", "sleep", "event", "thread", "poll", "pingpong"]), "closed": 0}
    last = frames[-1]["ctxs"]
    if last and last[-1]["t"] == "n" and last[-1]["kids"] and rng.random() < 0.6:
        task["block"] = "aexit"
        task["closed"] = rng.choice([0, 0, 1, 2])
        last[-1]["end"] = rng.choice(ENDS + ("ifret1", "ifret1"))
    return task


def pad_some(rng, task, depth=0):
    """give some tasks of the tree a long await chain (more links than the runaway-unwrap guard's
    constant) between two of their frames / above their parking place"""
    if rng.random() < (0.5 if depth == 0 else 0.15):
        task["pad"] = rng.choice([97, 99, 100, 101, 120, 150])
    for fr in task["frames"]:
        for c in fr["ctxs"]:
            for k in c.get("kids", []):
                pad_some(rng, k, depth + 1)


def deep_trees():
    """a nursery with children BELOW more than 100 nested awaits, in the root and in a child"""
    for pad in (95, 98, 99, 100, 101, 120, 150):
        kid = {"frames": [{"ctxs": []}, {"ctxs": [{"t": "n", "end": "plain", "kids": [leaf("event")]}]}],
               "block": "aexit", "how": "sleep", "closed": 0, "pad": pad}
        yield {"kind": "tree", "rc": True, "root": {
            "frames": [{"ctxs": []}, {"ctxs": [{"t": "n", "end": "tryfin", "kids": [leaf(), kid]}]}],
            "block": "body", "how": "event", "closed": 0, "pad": pad}}
    yield {"kind": "tree", "rc": True, "root": dict(leaf("sleep"), pad=130)}


def interleaved_trees(rng, n_random):
    """while the tree is being extracted (at the start of its `at`-th stack) a second thread
    enters a plain extract() of its own with OTHER options and stays inside it until the tree is
    finished; the tree must come out as if nothing had happened"""
    def two_level():
        b = lambda how: {"frames": [{"ctxs": [{"t": "n", "end": "plain", "kids": [leaf(how), leaf("event")]}]}],
                         "block": "body", "how": "sleep", "closed": 0}
        return {"frames": [{"ctxs": [{"t": "n", "end": "tryfin", "kids": [b("sleep"), b("event"), leaf()]}]}],
                "block": "body", "how": "event", "closed": 0}
    for rc in (True, False):
        for at in ((1, 2, 3, 5, 8) if rc else (1,)):
            for wc, orc in ((True, not rc), (False, rc), (False, not rc)):
                yield {"kind": "tree", "rc": rc, "root": two_level(), "intr": {"at": at, "wc": wc, "rc": orc}}
    for _ in range(n_random):
        d = rand_tree(rng, 0)
        n = _count(d["root"])[0]
        d["intr"] = {"at": rng.randint(1, max(1, n if d["rc"] else 1)), "wc": rng.random() < 0.6,
                     "rc": (not d["rc"]) if rng.random() < 0.8 else d["rc"]}
        yield d


def deep_chains():
    """ping-pong of depth >= 20 (each level adds five coroutines to the host task's chain)"""
    for hops, shared in (("TH" * 21, False), ("TH" * 24, True), ("TH" * 22 + "T", False)):
        n = len(hops) + 1
        yield {"kind": "chain", "rc": True, "start": "task", "hops": hops, "end": "park",
               "nurs": [0] * (n - 1) + [0 if shared else 1], "deep": [0] * n, **({"shared": True} if shared else {})}


def rand_tree(rng, p_deep=0.03):
    maxdepth = rng.choice([1, 2, 2, 3])
    fan = rng.choice([1, 2, 3])
    root = rand_task(rng, 0, maxdepth, fan, [40])
    if rng.random() < p_deep:
        pad_some(rng, root)
    return {"kind": "tree", "rc": rng.random() < 0.75, "root": root}


LAYOUTS = [[["n"]], [["n", "n"]], [["n", "cs"]], [["cs", "n"]], [["n", "n", "n"]], [["lock", "n"]],
           [["n"], ["n"]], [[], ["n", "n"]], [["n", "cs"], ["n"]], [["n"], []]]


def systematic(stride=1, offset=0):
    """context layouts x end shape of the innermost nursery x block mode x child count"""
    n = 0
    grandchild = {"frames": [{"ctxs": [{"t": "n", "kids": [leaf("event")], "end": "tryfin"}]}],
                  "block": "aexit", "how": "sleep", "closed": 0}
    kid_sets = [[], [leaf()], [leaf("event", 2), grandchild], [leaf(), leaf("event"), leaf("sleep", 2)],
                [leaf("thread"), leaf("thread", 2), leaf("thread")],
                [leaf("poll"), leaf("sleep"), leaf("poll", 2)],
                [leaf("pingpong"), leaf("pingpong"), leaf("thread"), leaf("pingpong", 2)]]
    for layout in LAYOUTS:
        for end in ENDS + ("ifret1",):
            for block in (("body", "sleep", 0), ("body", "event", 0), ("aexit", "sleep", 0), ("aexit", "sleep", 1),
                          ("aexit", "sleep", 2)):
                for kc, kids in enumerate(kid_sets):
                    for rc in (True, False):
                        last_is_n = bool(layout[-1]) and layout[-1][-1] == "n"
                        if block[0] == "aexit" and not (last_is_n and kids):
                            continue
                        if end == "ifret1" and block[0] != "aexit":
                            continue
                        if not rc and (kc != 2 or end not in ("plain", "ifret1")):
                            continue
                        n += 1
                        if (n + offset) % stride:
                            continue
                        frames = []
                        other_ends = itertools.cycle(ENDS)
                        for fr in layout:
                            ctxs = []
                            for t in fr:
                                c = {"t": t, "end": next(other_ends)}
                                if t == "n":
                                    c["kids"] = copy.deepcopy(kids)
                                ctxs.append(c)
                            frames.append({"ctxs": ctxs})
                        # the innermost nursery of the last frame carries the shape under test
                        for fr in reversed(frames):
                            ns = [c for c in fr["ctxs"] if c["t"] == "n"]
                            if ns:
                                ns[-1]["end"] = end
                                break
                        yield {"kind": "tree", "rc": rc,
                               "root": {"frames": frames, "block": block[0], "how": block[1], "closed": block[2]}}


def hop_strings(start, maxlen):
    out = []

    def go(s, in_task):
        out.append(s)
        if len(s) >= maxlen:
            return
        if in_task:
            go(s + "T", False)
        else:
            if not (start == "thread" and len(s) == 0):
                go(s + "H", True)
                out.append(s + "R")       # from_thread.run_sync: only as the last hop, observed from inside
            go(s + "S", True)

    go("", start == "task")
    return out


def seg_tasks(start, hops):
    """task identity (a small number) of every task segment, None for thread segments"""
    owner = [0 if start == "task" else None]
    nxt = 1
    for i, h in enumerate(hops):
        if h == "T":
            owner.append(None)
        elif h in "HR":
            owner.append(owner[i - 1])
        else:
            owner.append(nxt)
            nxt += 1
    return owner


def f14(start, hops):
    """an S hop whose serving system task is, at observation time, inside a re-entrant Run.run"""
    owner = seg_tasks(start, hops)
    for i, h in enumerate(hops):
        if h == "S":
            x = owner[i + 1]
            if any(hops[j] == "H" and owner[j + 1] == x for j in range(i + 1, len(hops))):
                return True
    return False


def chains(rng, maxlen, per):
    for start in ("task", "thread"):
        for hops in hop_strings(start, maxlen):
            in_task = (start == "task") == (len(hops) % 2 == 0)
            ends = ["park", "inside", "limiter"] if in_task else ["park"]
            if hops.endswith("R"):
                ends = ["inside"]
            for end in ends:
                for v in range(per):
                    n = len(hops) + 1
                    d = {"kind": "chain", "rc": (v % 3 != 2), "start": start, "hops": hops, "end": end,
                         "nurs": [int(rng.random() < 0.6) for _ in range(n)] if v else [1] * n,
                         "deep": [int(rng.random() < 0.4) for _ in range(n)] if v else [0] * n}
                    if v == 1 and not hops.endswith("R"):
                        # one sync and one async function at every level (equal worker-thread names)
                        d.update(shared=True, nurs=[0] * n, deep=[0] * n)
                    if f14(start, hops):
                        # two legs: the property-text oracle under the known-finding signature
                        # (not sent to Coq), and the model-vs-code comparison untagged, so that
                        # any OTHER deviation on these shapes stays a VIOLATION
                        yield dict(d, leg="model")
                        d["_sig"] = F14
                        d["leg"] = "spec"
                    yield d


def specials():
    # the shape of test_trio_nursery / test_trio_threads and the two findings' minimal inputs
    yield {"kind": "tree", "rc": True, "root": leaf()}
    yield {"kind": "tree", "rc": False, "root": leaf("event", 3)}
    # sibling tasks with one name, all parked in to_thread.run_sync(<one function>): every task must
    # show ITS OWN worker thread's frames (the glue finds the thread by identity of the name object)
    yield {"kind": "tree", "rc": True, "root": {"frames": [{"ctxs": [
        {"t": "n", "end": "plain", "kids": [leaf("thread"), leaf("thread"), leaf("thread", 2), leaf("thread")]}]}],
        "block": "body", "how": "sleep", "closed": 0}}
    yield {"kind": "tree", "rc": True, "root": {"frames": [{"ctxs": [
        {"t": "n", "end": "plain", "kids": [leaf("pingpong"), leaf("pingpong"), leaf("pingpong", 2)]}]}],
        "block": "body", "how": "sleep", "closed": 0}}
    # children that are runnable at a checkpoint (polling trio.lowlevel.checkpoint()): parked in the
    # trap cancel_shielded_checkpoint, which must be hidden and pruned like wait_task_rescheduled
    yield {"kind": "tree", "rc": True, "root": {"frames": [{"ctxs": [
        {"t": "n", "end": "plain", "kids": [leaf("poll"), leaf("sleep"), leaf("poll", 2)]}]}],
        "block": "body", "how": "sleep", "closed": 0}}
    yield {"kind": "tree", "rc": True, "root": leaf("poll")}
    for hops in ("THTH", "THTHT", "TSTS"):
        n = len(hops) + 1
        yield {"kind": "chain", "rc": True, "start": "task", "hops": hops, "end": "park", "nurs": [0] * n,
               "deep": [0] * n, "shared": True}
    yield {"kind": "chain", "rc": True, "start": "task", "hops": "TH", "end": "park", "nurs": [0, 0, 0], "deep": [0, 0, 0]}
    yield {"kind": "chain", "rc": True, "start": "task", "hops": "TH", "end": "inside", "nurs": [0, 0, 0], "deep": [0, 0, 0]}
    yield {"kind": "chain", "rc": True, "start": "thread", "hops": "S", "end": "inside", "nurs": [0, 0], "deep": [0, 0]}
    d = {"kind": "chain", "rc": True, "start": "thread", "hops": "STH", "end": "park", "nurs": [0] * 4, "deep": [0] * 4}
    yield dict(d, leg="model")
    yield dict(d, leg="spec", _sig=F14)


def make_inputs(tier, seed):
    rng = random.Random(seed * 7919 + 14)
    yield from specials()
    yield from deep_trees()
    yield from deep_chains()
    yield from interleaved_trees(rng, 60 if tier == "quick" else 800)
    if tier == "quick":
        for _ in range(900):
            yield rand_tree(rng)
        yield from systematic(stride=7, offset=seed)
        yield from chains(rng, 5, 3)
    else:
        for _ in range(15000):
            yield rand_tree(rng, 0.08)
        yield from systematic()
        yield from chains(rng, 8, 4)


# ------------------------------------------------------------------------------- run + print
class CaseTimeout(BaseException):
    """not an Exception: extract() contains `except Exception` around every hook"""


TIMEOUTS = [0]
UNEXPECTED = []     # failures on F14-tagged descriptors that are NOT the known deviation (reported by extra_legs)


def run_case(desc):
    import signal
    from . import c14_gen as G
    d = copy.deepcopy(desc)

    def on_alarm(signum, frame):    # extract() has no fuel: a wrong splice can loop for ever
        TIMEOUTS[0] += 1
        raise CaseTimeout("case did not finish in time (extract() looping?)")

    old = signal.signal(signal.SIGALRM, on_alarm)
    signal.setitimer(signal.ITIMER_REAL, 10 if TIMEOUTS[0] < 3 else 2, 2)
    try:
        obs = G.run(d)
    finally:
        signal.setitimer(signal.ITIMER_REAL, 0)
        signal.signal(signal.SIGALRM, old)
    orc = obs.get("oracle")
    if desc.get("leg") == "spec":
        # only the known deviation (frames across the hop) may be attributed to the signature
        if orc and orc[0] != "hops":
            UNEXPECTED.append({"what": "on an F14-shaped chain, a failure other than the known one: " + orc[1],
                               "input": {k: v for k, v in desc.items() if k != "_sig"}})
            obs["oracle"] = None
    elif desc.get("leg") == "model":
        if orc and orc[0] == "hops":
            obs["oracle_known"] = orc[1]
            obs["oracle"] = None
    return obs


def c_task(t):
    return "(Task %s (fl %s))" % (cnat(t["root"]), clist([c_frame(f) for f in t["frames"]]))


def c_frame(f):
    k = f["kind"]
    if k[0] == "plain":
        kind = "KPlain"
    elif k[0] == "hidden":
        kind = "KHidden"
    elif k[0] == "trap":
        kind = "(KTrap %s)" % cbool(k[1])
    elif k[0] == "to_nf":
        kind = "KToThreadNF"
    elif k[0] == "to":
        kind = "(KToThread (fl %s))" % clist([c_frame(x) for x in k[1]])
    elif k[0] == "from_host":
        kind = "KFromHost"
    elif k[0] == "from_sys":
        # whether the glue's lookup of the serving task succeeds is decided by the MODEL from the
        # shape of the world (M_TaskTree.reentered, finding F14); k[3] is the physical observation
        kind = "(KFromSys %s %s)" % (cbool(k[1]), c_task(k[2]))
    else:
        raise ValueError(k)
    ctxs = []
    for c in f["ctxs"]:
        if c[0] == "n":
            ctxs.append("(CNurs %s (tl %s))" % (cnat(c[1]), clist([c_task(t) for t in c[2]])))
        else:
            ctxs.append("(COther %s)" % cnat(c[1]))
    return "(Frame %s %s (cl %s))" % (cnat(f["id"]), kind, clist(ctxs))


def c_stack(s):
    root = "(SRTask %s)" % cnat(s["root"][1]) if s["root"][0] == "T" else "(SRThread %s)" % cnat(s["root"][1])
    fouts = []
    for fid, hide, cx in s["frames"]:
        couts = []
        for kind, num, kids in cx:
            obj = "(ONurs %s)" % cnat(num) if kind == "n" else "(OOther %s)" % cnat(num)
            couts.append("(COut %s %s)" % (obj, clist([c_stack(k) for k in kids])))
        fouts.append("(FOut %s %s %s)" % (cnat(fid), cbool(hide), clist(couts)))
    return "(Stack %s %s)" % (root, clist(fouts))


def c_table(tab):
    return clist(["(%s, %s)" % (cnat(k), clist([cnat(x) for x in v])) for k, v in tab])


def coq_case(desc, obs):
    if obs.get("stack") is None or desc.get("leg") == "spec":
        return None
    w = obs["world"]
    if "task" in w:
        root = "(RTask %s %s)" % (cbool(w["running"]), c_task(w["task"]))
    else:
        root = "(RThread %s (fl %s))" % (cnat(w["thread"]), clist([c_frame(f) for f in w["frames"]]))
    iso = bool(desc["rc"]) and "task" in w and (desc["kind"] == "tree" or "S" not in desc["hops"])
    return "(Build_tcase %s %s %s %s %s %s %s)" % (root, cbool(desc["rc"]), c_stack(obs["stack"]),
                                                c_table(obs["nurs"]), c_table(obs["kids"]), cbool(iso),
                                                   cbool(obs.get("clean", False)))


def direct_oracle(desc, obs):
    orc = obs.get("oracle")
    return orc[1] if orc else None


def _count(task):
    n, aexit, ends = 1, int(task["block"] == "aexit"), set()
    if task["block"] == "body" and task["how"] == "thread":
        ends.add("parked in to_thread")
    if task["block"] == "body" and task["how"] == "pingpong":
        ends.add("parked in to_thread -> from_thread.run")
    if task["block"] == "body" and task["how"] == "poll":
        ends.add("runnable at a checkpoint")
    for fr in task["frames"]:
        for c in fr["ctxs"]:
            if c["t"] == "n":
                ends.add(c["end"])
            for k in c.get("kids", []):
                a, b, e = _count(k)
                n += a
                aexit += b
                ends |= e
    return n, aexit, ends


def classify(desc, obs):
    labs = [desc["kind"], "rc=%s" % desc["rc"]]
    if desc["kind"] == "tree":
        n, aexit, ends = _count(desc["root"])
        labs.append("tasks=%s" % ("1" if n == 1 else "2-5" if n <= 5 else "6-15" if n <= 15 else "16+"))
        if desc.get("intr"):
            labs.append("second thread inside extract() meanwhile: " + ("interleaved" if obs.get("interleaved") else "not reached"))
        if '"pad"' in __import__("json").dumps(desc):
            labs.append("await chain > 95 links")
        labs.append("parked_in_aexit=%d" % min(aexit, 3))
        labs += ["end:" + e for e in sorted(ends)]
    else:
        labs.append("hops=%s" % (len(desc["hops"]) if len(desc["hops"]) < 10 else "40+"))
        labs.append("start:" + desc["start"])
        labs.append("end:" + desc["end"])
        if desc.get("shared"):
            labs.append("one sync/async function at every level")
        if desc.get("_sig"):
            labs.append("sig:" + desc["_sig"])
    if obs.get("oracle_known"):
        labs.append("tagged deviation observed")
    return labs


def extra_legs(tier, seed):
    """The literal observation point of the property record: extract(current_root_task(),
    recurse_child_tasks=True) from a task of the run itself, compared with Trio's own tables
    for EVERY task of the run (init task, system tasks, the running caller)."""
    import warnings
    import trio
    import trio.testing
    import stackscope

    viol = []
    n_eval = 0
    rng = random.Random(seed * 31 + 1414)

    def check(stack, task, path, rc):
        if stack.root is not task:
            return f"{path}: root is not the task"
        if stack.error is not None:
            return f"{path}: error {stack.error!r}"
        got = [c for f in stack.frames for c in f.contexts if isinstance(c.obj, trio.Nursery)]
        if [id(c.obj) for c in got] != [id(n) for n in task.child_nurseries]:
            return f"{path}: nursery contexts differ from task.child_nurseries ({len(got)} vs {len(task.child_nurseries)})"
        for c in got:
            kids = list(c.obj.child_tasks)
            if [id(k.root) for k in c.children] != [id(k) for k in kids]:
                return f"{path}: children differ from nursery.child_tasks"
            for ks, kt in zip(c.children, kids):
                if rc:
                    msg = check(ks, kt, path + "/" + kt.name.rsplit(".", 1)[-1], rc)
                    if msg:
                        return msg
                elif len(ks.frames):
                    return f"{path}: child is not a stub"
        return None

    from . import c14_gen as G
    for i in range(6 if tier == "quick" else 40):
        d = rand_tree(rng)
        src = G.tree_source(copy.deepcopy(d["root"]))
        ns = {"trio": trio}
        exec(compile(src, f"<c14-root-{i}>", "exec"), ns)
        res = {}

        async def main():
            W = G.World(d)
            async with trio.open_nursery() as sup:
                sup.start_soon(ns["t0_f0"], W)
                total, polls = G.count_tasks(d["root"])
                if polls:       # pollers never block
                    for _ in range(100000):
                        if len(W.tasks) >= total:
                            break
                        await trio.sleep(0)
                    for _ in range(60):
                        await trio.sleep(0)
                else:
                    await trio.testing.wait_all_tasks_blocked()
                root = trio.lowlevel.current_root_task()
                with warnings.catch_warnings():
                    warnings.simplefilter("error", stackscope.InspectionWarning)
                    for rc in (True, False):
                        try:
                            st = stackscope.extract(root, recurse_child_tasks=rc)
                            res[rc] = check(st, root, "init", rc)
                        except BaseException as ex:
                            res[rc] = "extract raised " + repr(ex)
                W.gate.set()
                sup.cancel_scope.cancel()

        trio.run(main)
        for rc, msg in res.items():
            n_eval += 1
            if msg:
                viol.append({"what": "extract(current_root_task(), recurse_child_tasks=%s): %s" % (rc, msg), "input": d})
    # a second trio.run loop alive in another thread: from_thread.run(trio_token=...) must be
    # followed into the loop the token belongs to (the glue compares runner.trio_token)
    # (the decoy loop runs in the main thread, whose thread-local dict comes first in Trio's
    # GLOBAL_RUN_CONTEXT; the observed loop runs in a second thread)
    import threading
    from . import c14_gen as G2
    decoy = {"results": []}

    def observed_loop():
        try:
            for start, hops, end in (("thread", "S", "park"), ("task", "TS", "park"), ("task", "TSTS", "inside"),
                                     ("thread", "STS", "park")):
                n = len(hops) + 1
                d = {"kind": "chain", "rc": True, "start": start, "hops": hops, "end": end, "nurs": [1] * n, "deep": [0] * n}
                try:
                    obs = G2.run(copy.deepcopy(d))
                    decoy["results"].append((d, obs.get("oracle")))
                except BaseException as ex:
                    decoy["results"].append((d, ["fatal", "run failed: " + repr(ex)]))
        finally:
            decoy["token"].run_sync_soon(decoy["stop"].set)

    async def decoy_main():
        decoy["token"] = trio.lowlevel.current_trio_token()
        decoy["stop"] = trio.Event()
        th = threading.Thread(target=observed_loop, daemon=True)
        th.start()
        with trio.move_on_after(120):
            await decoy["stop"].wait()

    trio.run(decoy_main)
    two_loops = len(decoy["results"])
    for d, orc in decoy["results"]:
        if orc:
            viol.append({"what": "with a second trio.run loop alive in another thread: " + orc[1], "input": d})
    if two_loops != 4:
        viol.append({"what": "the two-loops leg did not finish", "input": None})
    n_eval += two_loops
    viol += UNEXPECTED
    return {"evaluations": n_eval, "violations": viol,
            "info": {"two_loops_leg": "%d token-hop chains observed while a second trio.run loop was alive in another thread" % two_loops,
                     "root_task_leg": "extract(trio.lowlevel.current_root_task()) from a running task of the same run, "
                                      "%d extractions compared with Trio's tables for every task of the run" % n_eval,
                     "F14": "F14-shaped chains run twice: leg=spec carries the signature %s and only the property-text oracle "
                            "(its complaint is the KNOWN-FINDING); leg=model is untagged and compares the model (serving task "
                            "not found, as in the code) with the implementation inside Coq" % F14}}
