"""C06 — extraction is a pure observation: no perturbation, repeatable, nothing retained.
Coq: model of stackscope's hidden (module-level) state and of what one extraction does to it
(idempotent, options restored, nothing target-derived can be stored), ghost reference balance of the
snapshot, and the regenerated structural facts (resume-like call sites and module-level writes are
exactly the allow-listed ones).  Correspondence: the real hidden state (builtin_glue_pending, the
sys.modules length cache, _can_use_trickery, current_options, registry sizes) is snapshotted before and
after real extractions in varied environments and compared with the model inside Coq.
Runtime leg (decides what no model can exhibit): twin runs of generated programs with / without
extraction at sampled subsets of suspension and probe points, equality of repeated extractions,
reference counts of value-stack-only sentinels, weakref collectability — harness/progs.py leg_purity."""
import random

from .common import cbool, clist, copt

PROP = "C06"
KINDS = {"main": dict(imports="From SS Require Import Base M_Purity.", type="pcase", mismatch="mismatches",
                      nontrivial="count_nontrivial")}
RULE = ("hidden-state cases: sequences of {insert k fake modules (some with pending built-in glue), "
        "set_trickery_enabled(None/True/False), extract with each option pair, of a suspended generator / coroutine / "
        "the running stack}; each extraction gives one case (state before, state after); non-trivial = the extraction "
        "changed the hidden state. Runtime leg: see extra_legs (twin runs, repeat equality, refcounts, weakrefs).")
CONFIG = dict(
    coq=["C06"], level="proof",
    claim=("PARTIAL by nature. Proved in Coq (for all environments, options, prior states): the hidden state of stackscope after "
           "an extraction is idempotent in an unchanged environment, the caller's options are restored, no component can hold "
           "a target-derived value, snapshot reference taking is balanced for every retry pattern; and, regenerated from the "
           "source on every run, the calls that could advance/finalise a foreign object and the module-level writes are exactly "
           "the allow-listed ones. The model of the hidden state is compared with the real one around real extractions. "
           "That the live interpreter is not perturbed (twin runs), that results are repeatable, that reference counts return "
           "to baseline and objects stay collectable, and that nothing crashes is decided by the runtime leg, which is "
           "exploration, not proof."),
    design_ref="DESIGN.md section 5 C06",
    trusted_base=["M_Purity.v is a hand-written inventory of stackscope's module-level state, tied to the source by "
                  "harness/facts_c06.py (allow-list of writes) and to the running library by the before/after snapshots"],
    assumptions=["hooks registered by users are outside the claim (they can retain anything)",
                 "asserts enabled; warnings not turned into errors"],
    unproved_legs=["non-perturbation of the target (twin runs over generated programs, sampled subsets of observation points)",
                   "repeatability of real results; reference counts back to baseline; weakref collectability; no crash",
                   "both analysis modes are exercised by the runtime leg only"],
    timeout={"quick": 1200, "thorough": 5400},
)


def make_inputs(tier, seed):
    rng = random.Random(seed * 31 + 6)
    n = 40 if tier == "quick" else 400
    for k in range(n):
        ops = []
        for _ in range(rng.randint(1, 6)):
            r = rng.random()
            if r < 0.3:
                ops.append(["mods", rng.randint(1, 3), rng.randint(0, 2)])      # insert k modules, j of them with pending glue
            elif r < 0.38:
                # a sys.modules entry that is not an ordinary module: None (import blocked), an object without
                # __dict__, a lazy module whose attribute access raises (importlib.util.LazyLoader whose deferred
                # import fails) -- legal, and must not make an extraction raise or behave differently
                ops.append(["oddmod", rng.choice(["none", "nodict", "lazy_import_error", "lazy_runtime_error", "lazy_value_error"])])
            elif r < 0.45:
                ops.append(["trick", rng.choice([None, True, False])])
            elif r < 0.55:
                ops.append(["rm"])                                               # remove one fake module again
            else:
                ops.append(["extract", rng.random() < 0.7, rng.random() < 0.3, rng.choice(["gen", "coro", "running"])])
        ops.append(["extract", True, False, "gen"])
        yield {"ops": ops, "n": k}


def _odd_module(kind, name):
    import types
    if kind == "none":
        return None
    if kind == "nodict":
        class Slotted(object):
            __slots__ = ()
        return Slotted()
    exc = {"lazy_import_error": ModuleNotFoundError, "lazy_runtime_error": RuntimeError, "lazy_value_error": ValueError}[kind]

    class Lazy(types.ModuleType):
        def __getattribute__(self, attr):
            if attr in ("__class__", "__name__"):
                return object.__getattribute__(self, attr)
            raise exc("deferred import of %s failed" % object.__getattribute__(self, "__name__"))
    return Lazy(name)


def _hidden(ids):
    import sys
    from stackscope import _glue, _lowlevel, _extract, _customization
    from stackscope import unwrap_stackitem, elaborate_frame, elaborate_context, unwrap_context
    pend = sorted(ids.setdefault(n, len(ids)) for n in _glue.builtin_glue_pending)
    cache = _glue.add_glue_as_needed.__kwdefaults__["_sys_modules_len_cache"][0]
    o = _extract.current_options
    opts = None if getattr(o, "with_contexts", None) is None else [bool(o.with_contexts), bool(o.recurse_child_tasks)]
    reg = 0
    for f in (unwrap_stackitem, elaborate_context, unwrap_context):
        reg += len(f.registry)
    reg += len(elaborate_frame.registry) + len(_customization.unwrap_context_generator.registry)
    return {"pending": pend, "cache": cache, "trick": _lowlevel._can_use_trickery, "opts": opts, "reg": reg}


def run_case(desc):
    import sys
    import types
    import warnings
    import stackscope
    from stackscope import _glue, _lowlevel
    warnings.simplefilter("ignore")
    stackscope.extract(iter(()))              # make sure the library is fully initialised
    ids = {}
    added = []
    saved_pending = dict(_glue.builtin_glue_pending)
    saved_trick = _lowlevel._can_use_trickery
    steps = []

    def gen():
        with open(__file__):
            yield 1

    async def coro():
        import asyncio
        await asyncio.sleep(0)
    try:
        for op in desc["ops"]:
            if op[0] == "mods":
                for j in range(op[1]):
                    name = "verif_fake_%d_%d" % (desc["n"], len(added))
                    if j < op[2]:
                        _glue.builtin_glue_pending[name] = lambda: None
                        sys.modules.pop(name, None)
                    sys.modules[name] = types.ModuleType(name)
                    added.append(name)
            elif op[0] == "oddmod":
                name = "verif_fake_%d_%d" % (desc["n"], len(added))
                sys.modules[name] = _odd_module(op[1], name)
                added.append(name)
            elif op[0] == "rm":
                if added:
                    sys.modules.pop(added.pop(), None)
            elif op[0] == "trick":
                _lowlevel.set_trickery_enabled(op[1])
            else:
                _, wc, rc, what = op
                target = None
                if what == "gen":
                    target = gen(); next(target)
                elif what == "coro":
                    target = coro()
                    try:
                        target.send(None)
                    except StopIteration:
                        pass
                else:
                    target = stackscope.StackSlice()
                mods = sorted(ids.setdefault(n, len(ids)) for n in sys.modules)
                before = _hidden(ids)
                ib = interp_state()
                stackscope.extract(target, with_contexts=wc, recurse_child_tasks=rc)
                ia = interp_state()
                if what != "running":
                    target.close()
                after = _hidden(ids)
                steps.append({"mods": mods, "nmods": len(sys.modules), "wc": wc, "rc": rc, "before": before, "after": after,
                              "interp_changed": {k: [ib.get(k), ia.get(k)] for k in ia if ib.get(k) != ia.get(k)}})
    finally:
        for n in added:
            sys.modules.pop(n, None)
            _glue.builtin_glue_pending.pop(n, None)
        _glue.builtin_glue_pending.clear()
        _glue.builtin_glue_pending.update(saved_pending)
        _lowlevel.set_trickery_enabled(saved_trick)
    return {"steps": steps}


def _h(h):
    return ("{| pending := %s; len_cache := %d; trickery_sw := %s; opts := %s; registry_size := %d |}"
            % (clist([str(x) for x in h["pending"]]), h["cache"], copt(None if h["trick"] is None else cbool(h["trick"])),
               copt(None if h["opts"] is None else "(%s, %s)" % (cbool(h["opts"][0]), cbool(h["opts"][1]))), h["reg"]))


def coq_case(desc, obs):
    # one Coq case per extraction step
    out = []
    for s in obs["steps"]:
        # the environment of the model: module ids present (padded to the real count), detection = True on CPython
        mods = list(s["mods"])
        out.append("({| modules := %s; detect := true |}, %s, %s, %s, %s)" % (
            clist([str(m) for m in mods]), cbool(s["wc"]), cbool(s["rc"]), _h(s["before"]), _h(s["after"])))
    return out


def direct_oracle(desc, obs):
    for s in obs["steps"]:
        if s["after"]["opts"] is not None:
            return "options still set after extract() returned: %r" % (s["after"]["opts"],)
        if s.get("interp_changed"):
            return "an extraction changed interpreter-global state: %r" % (s["interp_changed"],)
        if s["after"]["reg"] != s["before"]["reg"]:
            return "an extraction changed a hook registry (%d -> %d)" % (s["before"]["reg"], s["after"]["reg"])
    return None


ASYNCGEN_PROBE = r"""
import gc, sys, warnings
seen = []
sys.set_asyncgen_hooks(firstiter=lambda ag: None, finalizer=lambda ag: seen.append(getattr(ag, "__qualname__", repr(ag))))
warnings.simplefilter("ignore")
import stackscope                    # first import happens with asyncgen hooks installed (as inside an event loop)
def g():
    yield 1
x = g(); next(x)
stackscope.extract(x)                # runs add_glue_as_needed -> glue_builtins and friends
del x
gc.collect(); gc.collect()
print("FINALIZED:" + "|".join(seen))
"""


def asyncgen_leg():
    """stackscope's own helper objects must not reach the host's asyncgen finalizer hook (importing /
    first use of stackscope inside a running event loop must not schedule work in that loop)"""
    import os
    import subprocess
    import sys
    env = dict(os.environ)
    try:
        p = subprocess.run([sys.executable, "-c", ASYNCGEN_PROBE], stdout=subprocess.PIPE, stderr=subprocess.STDOUT,
                           text=True, timeout=120, env=env)
    except subprocess.TimeoutExpired:
        return [{"what": "asyncgen-hook probe timed out", "input": {"leg": "asyncgen_hooks"}}]
    line = [l for l in p.stdout.splitlines() if l.startswith("FINALIZED:")]
    if p.returncode != 0 or not line:
        return [{"what": "asyncgen-hook probe failed: rc=%s %s" % (p.returncode, p.stdout[-400:]), "input": {"leg": "asyncgen_hooks"}}]
    got = [x for x in line[0][len("FINALIZED:"):].split("|") if x]
    if got:
        return [{"what": "importing/using stackscope handed its own helper async generator(s) %r to the host's asyncgen "
                         "finalizer hook (the observed program's event loop is perturbed)" % (got,),
                 "input": {"leg": "asyncgen_hooks", "script": ASYNCGEN_PROBE}}]
    return []


def interp_state():
    """process-global interpreter settings an observer has no business changing"""
    import gc
    import signal
    import sys
    import threading
    import warnings
    st = {"gc.isenabled": gc.isenabled(), "gc.threshold": list(gc.get_threshold()), "gc.debug": gc.get_debug(),
          "gc.callbacks": len(gc.callbacks),
          "sys.trace": repr(sys.gettrace()), "sys.profile": repr(sys.getprofile()),
          "threading.trace": repr(getattr(threading, "_trace_hook", None)), "threading.profile": repr(getattr(threading, "_profile_hook", None)),
          "switchinterval": sys.getswitchinterval(), "recursionlimit": sys.getrecursionlimit(),
          "asyncgen_hooks": repr(tuple(sys.get_asyncgen_hooks())),
          "coroutine_origin_tracking_depth": sys.get_coroutine_origin_tracking_depth(),
          "excepthook": repr(sys.excepthook), "unraisablehook": repr(sys.unraisablehook),
          "threading.excepthook": repr(threading.excepthook),
          "warnings.filters": len(warnings.filters), "warnings.showwarning": repr(warnings.showwarning)}
    try:
        st["SIGINT"] = repr(signal.getsignal(signal.SIGINT))
    except Exception:
        pass
    return st


def interp_leg(tier, seed):
    """the interpreter-global settings are the same after an extraction as before it -- also when the
    frame snapshot had to be retried (another thread moved the frame: the forced-retry schedules of the
    C07 harness are reused here) and when the analysis failed in a contained way"""
    import gc
    import random
    import warnings
    from . import c07
    bad = []
    n = 0
    rng = random.Random(seed * 13 + 6)
    descs = [d for d in c07.snap_inputs(tier, rng)]
    retrying = [d for d in descs if any(p in ("P1", "P1b", "P2", "P3") for _a, p, _i, _m in d["sched"])]
    rng.shuffle(retrying)
    for gc_on in (True, False):
        for d in retrying[: (40 if tier == "quick" else 400)]:
            was = gc.isenabled()
            (gc.enable if gc_on else gc.disable)()
            try:
                before = interp_state()
                with warnings.catch_warnings():
                    warnings.simplefilter("ignore")
                    try:
                        obs = c07.run_snap(d)
                    except BaseException as ex:
                        obs = {"error": repr(ex)}
                after = interp_state()
            finally:
                (gc.enable if was else gc.disable)()
            n += 1
            if before != after:
                diff = {k: [before.get(k), after.get(k)] for k in after if before.get(k) != after.get(k)}
                bad.append({"what": "a frame snapshot (inspect_frame under a forced interleaving, retries=%s) changed "
                                    "interpreter-global state: %r" % (obs.get("retries") if isinstance(obs, dict) else "?", diff),
                            "input": dict(d, leg="interp_state", gc_enabled=gc_on)})
                if len(bad) >= 5:
                    return bad, n
    return bad, n


def spy_leg():
    """twin runs whose await / yield-from chain ends in a leaf object that logs every special method an
    observer might be tempted to call on it (comparison, hashing, truth value, length, attribute lookup):
    the observed run's log must equal the unobserved run's, the leaf must be reported (also when it is
    falsy or compares equal to nothing), and extraction must not raise"""
    import stackscope

    def make(log, falsy):
        class Spy(object):
            def __init__(self):
                self.state = 0

            def __iter__(self):
                log.append("iter")
                return self

            __await__ = __iter__

            def __next__(self):
                return self.send(None)

            def send(self, v):
                if self.state == 0:
                    self.state = 1
                    return "parked"
                self.state = 2
                raise StopIteration(v)

            def throw(self, typ, val=None, tb=None):
                self.state = 2
                raise (val if val is not None else typ)

            def close(self):
                self.state = 2

            def __eq__(self, other):
                log.append("eq")
                return NotImplemented

            def __ne__(self, other):
                log.append("ne")
                return NotImplemented

            def __hash__(self):
                log.append("hash")
                return 7

            def __bool__(self):
                log.append("bool")
                return not falsy

            def __len__(self):
                log.append("len")
                return 0

            def __getattr__(self, name):
                log.append("getattr:" + name)
                raise AttributeError(name)
        return Spy

    def targets(Spy, log):
        def g():
            log.append(("g-result", (yield from Spy())))

        async def c():
            log.append(("c-result", await Spy()))

        async def inner():
            return await Spy()

        async def c2():
            log.append(("c2-result", await inner()))

        return [("gen", g), ("coro", c), ("coro2", c2)]

    bad = []
    n = 0
    for falsy in (False, True):
        for observe in ("extract", "extract_nocontexts", "outermost"):
            for idx in range(3):
                logs = []
                leafs = []
                for observed in (False, True):
                    log = []
                    Spy = make(log, falsy)
                    name, fn = targets(Spy, log)[idx]
                    t = fn()
                    try:
                        t.send(None)
                        if observed:
                            n += 1
                            try:
                                if observe == "outermost":
                                    stackscope.extract_outermost(t)
                                    st = stackscope.extract(t)
                                else:
                                    st = stackscope.extract(t, with_contexts=(observe == "extract"))
                                    st2 = stackscope.extract(t, with_contexts=(observe == "extract"))
                                    if len(st.frames) != len(st2.frames):
                                        bad.append({"what": "two extractions of an unchanged target differ (spy leaf)",
                                                    "input": {"leg": "spy", "target": name, "falsy": falsy, "observe": observe}})
                                leafs.append((type(st.leaf).__name__, st.error is None))
                            except BaseException as ex:
                                bad.append({"what": "extraction raised %r on a target whose chain ends in a leaf with user-defined "
                                                    "special methods" % (ex,),
                                            "input": {"leg": "spy", "target": name, "falsy": falsy, "observe": observe}})
                        try:
                            t.send(41)
                        except StopIteration:
                            pass
                    finally:
                        t.close()
                    logs.append(log)
                if logs[0] != logs[1]:
                    bad.append({"what": "observing the target called special methods of an object on its await/yield-from chain: "
                                        "unobserved log %r, observed log %r" % (logs[0], logs[1]),
                                "input": {"leg": "spy", "target": name, "falsy": falsy, "observe": observe}})
                elif leafs and leafs[0] != ("Spy", True):
                    bad.append({"what": "the leaf of the chain is reported as %r (expected the Spy object, no error)" % (leafs[0],),
                                "input": {"leg": "spy", "target": name, "falsy": falsy, "observe": observe}})
    return bad, n


def fault_history_leg():
    """Extractions in which a hook / repr fails (contained in Stack.error) are observations too: after
    one, (b) a second extraction of the unchanged target must equal the extraction of a twin target that
    never saw a failing extraction, also once the fault is gone, and (d) nothing of the target may be
    retained once results and target are dropped.  Fault sites: a user elaborate_context hook, a user
    unwrap_context hook, repr() of an ExitStack entry (called by the contextlib glue), a user
    elaborate_frame hook; manager placements: plain `with`, ExitStack entry, inside a @contextmanager
    generator; the fault is on for the k-th extraction of a history, off for the others."""
    import contextlib
    import gc
    import weakref
    import stackscope

    bad = []
    n = 0
    flag = {"site": None}

    class Boom(Exception):
        pass

    class Mgr:
        def __init__(self, tag):
            self.tag = tag

        def __enter__(self):
            return self

        def __exit__(self, *exc):
            return False

        def __repr__(self):
            if flag["site"] == "repr":
                raise Boom("repr")
            return "<Mgr %s>" % self.tag

    class Wrap(Mgr):
        def __init__(self, tag, inner):
            Mgr.__init__(self, tag)
            self.inner = inner

    @stackscope.elaborate_context.register(Mgr)
    def _elab(mgr, context):
        if flag["site"] == "elaborate_context":
            raise Boom("elaborate_context")
        context.description = "mgr:" + mgr.tag

    @stackscope.unwrap_context.register(Wrap)
    def _unwrap(mgr, context):
        if flag["site"] == "unwrap_context":
            raise Boom("unwrap_context")
        return mgr.inner

    @contextlib.contextmanager
    def cm(tag):
        with Mgr(tag + ".in"):
            yield tag

    def target(shape, made):
        def mk(cls, *a):
            m = cls(*a)
            made.append(weakref.ref(m))
            return m
        if shape == "plain":
            with mk(Mgr, "a"), mk(Wrap, "w", mk(Mgr, "wi")):
                yield 1
        elif shape == "exitstack":
            with contextlib.ExitStack() as es:
                made.append(weakref.ref(es))
                es.enter_context(mk(Mgr, "e1"))
                es.enter_context(mk(Wrap, "ew", mk(Mgr, "ewi")))
                es.enter_context(cm("ec"))
                es.push(mk(Mgr, "e2"))
                yield 1
        else:
            with cm("c1") as x, mk(Wrap, "w2", mk(Mgr, "w2i")):
                yield x

    def ctx_view(cx, depth=0):
        inner = getattr(cx, "inner_stack", None)
        return (type(cx.obj).__name__, getattr(cx.obj, "tag", None), bool(cx.is_exiting), bool(cx.hide), cx.varname,
                cx.description if cx.description is None or "0x" not in cx.description else "<addr>",
                tuple(ctx_view(c, depth + 1) for c in (cx.children or ())) if depth < 5 else (),
                None if inner is None else stack_view(inner, depth + 1))

    def stack_view(st, depth=0):
        return (tuple((f.funcname, f.lineno, bool(f.hide), tuple(ctx_view(c, depth) for c in f.contexts)) for f in st.frames),
                type(st.error).__name__ if st.error is not None else None)

    hist_lens = (2, 3)
    for shape in ("plain", "exitstack", "cm"):
        for site in ("elaborate_context", "unwrap_context", "repr"):
            for hl in hist_lens:
                for k in range(hl):
                    n += 1
                    made, tmade = [], []
                    g, twin = target(shape, made), target(shape, tmade)
                    next(g)
                    next(twin)
                    flag["site"] = None
                    want = stack_view(stackscope.extract(twin))
                    views = []
                    try:
                        for j in range(hl):
                            flag["site"] = site if j == k else None
                            views.append(stack_view(stackscope.extract(g)))
                    except BaseException as ex:  # noqa: BLE001
                        bad.append({"what": "extract raised %r in a history with a failing %s" % (ex, site),
                                    "input": {"leg": "fault_history", "shape": shape, "site": site, "history": hl, "fault_at": k}})
                        flag["site"] = None
                        continue
                    flag["site"] = None
                    inp = {"leg": "fault_history", "shape": shape, "site": site, "history": hl, "fault_at": k}
                    for j, v in enumerate(views):
                        if j != k and v != want:
                            bad.append({"what": "extraction %d of an unchanged target (a %s fault was contained in extraction %d) differs "
                                                "from the extraction of a twin target that never saw a failing extraction: %r vs %r"
                                                % (j, site, k, v, want), "input": inp})
                            break
                    if site != "repr" and views[k][1] is None and views[k] != want:
                        bad.append({"what": "the failing extraction reported no error yet differs from the fault-free one", "input": inp})
                    del views, want
                    g.close()
                    twin.close()
                    del g, twin
                    gc.collect()
                    alive = [i for i, w in enumerate(made) if w() is not None]
                    talive = [i for i, w in enumerate(tmade) if w() is not None]
                    if alive != talive:
                        bad.append({"what": "after a contained %s fault, results and target dropped, gc.collect(): objects %r of the target "
                                            "are still alive (twin without failing extraction: %r)" % (site, alive, talive), "input": inp})
    return bad, n


def extra_legs(tier, seed):
    from . import progs
    res = progs.leg_purity(tier, seed)
    res.setdefault("violations", []).extend(asyncgen_leg())
    res["evaluations"] = res.get("evaluations", 0) + 1
    bad, n = interp_leg(tier, seed)
    res["violations"].extend(bad)
    res["evaluations"] += n
    res.setdefault("info", {})["interp_state_forced_retry_snapshots"] = n
    # memory safety of the 3.11 / 3.10 / 3.9 code paths: the running-frame leg (frames executing while they
    # are inspected: the ctypes reads of the value stack) in child processes; a child that dies on a signal
    # is a crash of the interpreter caused by the observation
    handles = progs.start_children(["running"], "tiny", seed, {}, 0)
    crashed = []
    for label, c in progs.collect_children(handles, "tiny"):
        if "failed" in c and ("rc=-" in str(c["failed"]) or "timeout" in str(c["failed"])):
            crashed.append({"what": "the interpreter (python %s) crashed or hung while frames running on the calling thread were "
                                    "being extracted: %s" % (label, c["failed"]),
                            "input": {"leg": "crash", "python": label, "stderr": c.get("stderr", "")[-800:]}})
    res["violations"].extend(crashed)
    res["evaluations"] += len(handles)
    res["info"]["crash_leg_children"] = len(handles)
    bad, n = spy_leg()
    res["violations"].extend(bad)
    res["evaluations"] += n
    res["info"]["spy_leaf_twin_runs"] = n
    bad, n = fault_history_leg()
    res["violations"].extend(bad)
    res["evaluations"] += n
    res["info"]["fault_history_runs"] = n
    return res
