class BaseExceptionGroup(BaseException):
    def __new__(cls, msg, excs):
        self = super().__new__(cls, msg, excs); self.message = msg; self.exceptions = tuple(excs); return self
class ExceptionGroup(BaseExceptionGroup, Exception): pass
