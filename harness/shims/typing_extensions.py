import abc
import builtins
import collections
import collections.abc
import contextlib
import enum
import functools
import inspect
import io
import keyword
import operator
import sys
import types as _types
import typing
import warnings

# Breakpoint: https://github.com/python/cpython/pull/119891
if sys.version_info >= (3, 14):
    import annotationlib

__all__ = [
    # Super-special typing primitives.
    'Any',
    'ClassVar',
    'Concatenate',
    'Final',
    'LiteralString',
    'ParamSpec',
    'ParamSpecArgs',
    'ParamSpecKwargs',
    'Self',
    'Type',
    'TypeVar',
    'TypeVarTuple',
    'Unpack',

    # ABCs (from collections.abc).
    'Awaitable',
    'AsyncIterator',
    'AsyncIterable',
    'Coroutine',
    'AsyncGenerator',
    'AsyncContextManager',
    'Buffer',
    'ChainMap',

    # Concrete collection types.
    'ContextManager',
    'Counter',
    'Deque',
    'DefaultDict',
    'NamedTuple',
    'OrderedDict',
    'TypedDict',

    # Structural checks, a.k.a. protocols.
    'SupportsAbs',
    'SupportsBytes',
    'SupportsComplex',
    'SupportsFloat',
    'SupportsIndex',
    'SupportsInt',
    'SupportsRound',
    'Reader',
    'Writer',

    # One-off things.
    'Annotated',
    'assert_never',
    'assert_type',
    'clear_overloads',
    'dataclass_transform',
    'deprecated',
    'disjoint_base',
    'Doc',
    'evaluate_forward_ref',
    'get_overloads',
    'final',
    'Format',
    'get_annotations',
    'get_args',
    'get_origin',
    'get_original_bases',
    'get_protocol_members',
    'get_type_hints',
    'IntVar',
    'is_protocol',
    'is_typeddict',
    'Literal',
    'NewType',
    'overload',
    'override',
    'Protocol',
    'sentinel',
    'Sentinel',
    'reveal_type',
    'runtime',
    'runtime_checkable',
    'Text',
    'TypeAlias',
    'TypeAliasType',
    'TypeForm',
    'TypeGuard',
    'TypeIs',
    'TYPE_CHECKING',
    'type_repr',
    'Never',
    'NoReturn',
    'ReadOnly',
    'Required',
    'NotRequired',
    'NoDefault',
    'NoExtraItems',

    # Pure aliases, have always been in typing
    'AbstractSet',
    'AnyStr',
    'BinaryIO',
    'Callable',
    'Collection',
    'Container',
    'Dict',
    'ForwardRef',
    'FrozenSet',
    'Generator',
    'Generic',
    'Hashable',
    'IO',
    'ItemsView',
    'Iterable',
    'Iterator',
    'KeysView',
    'List',
    'Mapping',
    'MappingView',
    'Match',
    'MutableMapping',
    'MutableSequence',
    'MutableSet',
    'Optional',
    'Pattern',
    'Reversible',
    'Sequence',
    'Set',
    'Sized',
    'TextIO',
    'Tuple',
    'Union',
    'ValuesView',
    'cast',
    'no_type_check',
]

# for backward compatibility
PEP_560 = True
GenericMeta = type
# Breakpoint: https://github.com/python/cpython/pull/116129
_PEP_696_IMPLEMENTED = sys.version_info >= (3, 13, 0, "beta")

# Added with bpo-45166 to 3.10.1+ and some 3.9 versions
_FORWARD_REF_HAS_CLASS = "__forward_is_class__" in typing.ForwardRef.__slots__


def _caller(depth=1, default='__main__'):
    try:
        return sys._getframemodulename(depth + 1) or default
    except AttributeError:  # For platforms without _getframemodulename()
        pass
    try:
        return sys._getframe(depth + 1).f_globals.get('__name__', default)
    except (AttributeError, ValueError):  # For platforms without _getframe()
        pass
    return None


# Placeholder for sentinel methods, because sentinels can not have their own sentinels
_sentinel_placeholder = object()

if hasattr(builtins, "sentinel"):  # 3.15+
    sentinel = builtins.sentinel
else:
    class sentinel:
        """Create a unique sentinel object.

        *name* should be the name of the variable to which the return value
        shall be assigned.
        """

        def __init__(
            self,
            __name: str = _sentinel_placeholder,
            __repr: typing.Optional[str] = _sentinel_placeholder,
            /,
            *,
            repr: typing.Optional[str] = None,
            name: str = _sentinel_placeholder,
        ) -> None:
            if name is not _sentinel_placeholder:
                warnings.warn(
                    "Passing 'name' as a keyword argument is deprecated; "
                    "pass it positionally instead.",
                    DeprecationWarning,
                    stacklevel=2,
                )
                __name = name
            if __name is _sentinel_placeholder:
                raise TypeError("First parameter 'name' is required")
            if __repr is not _sentinel_placeholder:
                warnings.warn(
                    "Passing 'repr' as a positional argument is deprecated; "
                    "pass it by keyword instead.",
                    DeprecationWarning,
                    stacklevel=2,
                )
                repr = __repr

            self._name = __name
            self._repr = repr if repr is not None else __name

            # For pickling as a singleton:
            self.__module__ = _caller()

        def __init_subclass__(cls):
            warnings.warn(
                "Subclassing sentinel is deprecated "
                "and will be disallowed in Python 3.15",
                DeprecationWarning,
                stacklevel=2,
            )
            super().__init_subclass__()

        def __setattr__(self, attr: str, value: object) -> None:
            if attr not in {"_name", "_repr", "__module__"}:
                warnings.warn(
                    f"Setting attribute {attr!r} on sentinel objects is deprecated "
                    "and will be disallowed in Python 3.15.",
                    DeprecationWarning,
                    stacklevel=2,
                )
            super().__setattr__(attr, value)

        @property
        def __name__(self) -> str:
            return self._name

        @__name__.setter
        def __name__(self, value: str) -> None:
            self._name = value

        def __repr__(self) -> str:
            return self._repr

        if sys.version_info < (3, 11):
            # The presence of this method convinces typing._type_check
            # that Sentinels are types.
            def __call__(self, *args, **kwargs):
                raise TypeError(f"{type(self).__name__!r} object is not callable")

        # Breakpoint: https://github.com/python/cpython/pull/21515
        if sys.version_info >= (3, 10):
            def __or__(self, other):
                return typing.Union[self, other]

            def __ror__(self, other):
                return typing.Union[other, self]

        def __reduce__(self) -> str:
            """Reduce this sentinel to a singleton."""
            return self.__name__  # Module is taken from the __module__ attribute

Sentinel = sentinel

_marker = sentinel("sentinel")


# The functions below are modified copies of typing internal helpers.
# They are needed by _ProtocolMeta and they provide support for PEP 646.

# Breakpoint: https://github.com/python/cpython/pull/27342
if sys.version_info >= (3, 10):
    def _should_collect_from_parameters(t):
        return isinstance(
            t, (typing._GenericAlias, _types.GenericAlias, _types.UnionType)
        )
else:
    def _should_collect_from_parameters(t):
        return isinstance(t, (typing._GenericAlias, _types.GenericAlias))


NoReturn = typing.NoReturn

# Some unconstrained type variables.  These are used by the container types.
# (These are not for export.)
T = typing.TypeVar('T')  # Any type.
KT = typing.TypeVar('KT')  # Key type.
VT = typing.TypeVar('VT')  # Value type.
T_co = typing.TypeVar('T_co', covariant=True)  # Any type covariant containers.
T_contra = typing.TypeVar('T_contra', contravariant=True)  # Ditto contravariant.


# Breakpoint: https://github.com/python/cpython/pull/31841
if sys.version_info >= (3, 11):
    from typing import Any
else:

    class _AnyMeta(type):
        def __instancecheck__(self, obj):
            if self is Any:
                raise TypeError("typing_extensions.Any cannot be used with isinstance()")
            return super().__instancecheck__(obj)

        def __repr__(self):
            if self is Any:
                return "typing_extensions.Any"
            return super().__repr__()

    class Any(metaclass=_AnyMeta):
        """Special type indicating an unconstrained type.
        - Any is compatible with every type.
        - Any assumed to have all methods.
        - All values assumed to be instances of Any.
        Note that all the above statements are true from the point of view of
        static type checkers. At runtime, Any should not be used with instance
        checks.
        """
        def __new__(cls, *args, **kwargs):
            if cls is Any:
                raise TypeError("Any cannot be instantiated")
            return super().__new__(cls, *args, **kwargs)


ClassVar = typing.ClassVar

# Vendored from cpython typing._SpecialFrom
# Having a separate class means that instances will not be rejected by
# typing._type_check.
class _SpecialForm(typing._Final, _root=True):
    __slots__ = ('_name', '__doc__', '_getitem')

    def __init__(self, getitem):
        self._getitem = getitem
        self._name = getitem.__name__
        self.__doc__ = getitem.__doc__

    def __getattr__(self, item):
        if item in {'__name__', '__qualname__'}:
            return self._name

        raise AttributeError(item)

    def __mro_entries__(self, bases):
        raise TypeError(f"Cannot subclass {self!r}")

    def __repr__(self):
        return f'typing_extensions.{self._name}'

    def __reduce__(self):
        return self._name

    def __call__(self, *args, **kwds):
        raise TypeError(f"Cannot instantiate {self!r}")

    def __or__(self, other):
        return typing.Union[self, other]

    def __ror__(self, other):
        return typing.Union[other, self]

    def __instancecheck__(self, obj):
        raise TypeError(f"{self} cannot be used with isinstance()")

    def __subclasscheck__(self, cls):
        raise TypeError(f"{self} cannot be used with issubclass()")

    @typing._tp_cache
    def __getitem__(self, parameters):
        return self._getitem(self, parameters)


# Note that inheriting from this class means that the object will be
# rejected by typing._type_check, so do not use it if the special form
# is arguably valid as a type by itself.
class _ExtensionsSpecialForm(typing._SpecialForm, _root=True):
    def __repr__(self):
        return 'typing_extensions.' + self._name


Final = typing.Final

# Breakpoint: https://github.com/python/cpython/pull/30530
if sys.version_info >= (3, 11):
    final = typing.final
else:
    # @final exists in 3.8+, but we backport it for all versions
    # before 3.11 to keep support for the __final__ attribute.
    # See https://bugs.python.org/issue46342
    def final(f):
        """This decorator can be used to indicate to type checkers that
        the decorated method cannot be overridden, and decorated class
        cannot be subclassed. For example:

            class Base:
                @final
                def done(self) -> None:
                    ...
            class Sub(Base):
                def done(self) -> None:  # Error reported by type checker
                    ...
            @final
            class Leaf:
                ...
            class Other(Leaf):  # Error reported by type checker
                ...

        There is no runtime checking of these properties. The decorator
        sets the ``__final__`` attribute to ``True`` on the decorated object
        to allow runtime introspection.
        """
        try:
            f.__final__ = True
        except (AttributeError, TypeError):
            # Skip the attribute silently if it is not writable.
            # AttributeError happens if the object has __slots__ or a
            # read-only property, TypeError if it's a builtin class.
            pass
        return f


if hasattr(typing, "disjoint_base"):  # 3.15
    disjoint_base = typing.disjoint_base
else:
    def disjoint_base(cls):
        """This decorator marks a class as a disjoint base.

        Child classes of a disjoint base cannot inherit from other disjoint bases that are
        not parent classes of the disjoint base.

        For example:

            @disjoint_base
            class Disjoint1: pass

            @disjoint_base
            class Disjoint2: pass

            class Disjoint3(Disjoint1, Disjoint2): pass  # Type checker error

        Type checkers can use knowledge of disjoint bases to detect unreachable code
        and determine when two types can overlap.

        See PEP 800."""
        cls.__disjoint_base__ = True
        return cls


def IntVar(name):
    return typing.TypeVar(name)


# A Literal bug was fixed in 3.11.0, 3.10.1 and 3.9.8
# Breakpoint: https://github.com/python/cpython/pull/29334
if sys.version_info >= (3, 10, 1):
    Literal = typing.Literal
else:
    def _flatten_literal_params(parameters):
        """An internal helper for Literal creation: flatten Literals among parameters"""
        params = []
        for p in parameters:
            if isinstance(p, _LiteralGenericAlias):
                params.extend(p.__args__)
            else:
                params.append(p)
        return tuple(params)

    def _value_and_type_iter(params):
        for p in params:
            yield p, type(p)

    class _LiteralGenericAlias(typing._GenericAlias, _root=True):
        def __eq__(self, other):
            if not isinstance(other, _LiteralGenericAlias):
                return NotImplemented
            these_args_deduped = set(_value_and_type_iter(self.__args__))
            other_args_deduped = set(_value_and_type_iter(other.__args__))
            return these_args_deduped == other_args_deduped

        def __hash__(self):
            return hash(frozenset(_value_and_type_iter(self.__args__)))

    class _LiteralForm(_ExtensionsSpecialForm, _root=True):
        def __init__(self, doc: str):
            self._name = 'Literal'
            self._doc = self.__doc__ = doc

        def __getitem__(self, parameters):
            if not isinstance(parameters, tuple):
                parameters = (parameters,)

            parameters = _flatten_literal_params(parameters)

            val_type_pairs = list(_value_and_type_iter(parameters))
            try:
                deduped_pairs = set(val_type_pairs)
            except TypeError:
                # unhashable parameters
                pass
            else:
                # similar logic to typing._deduplicate on Python 3.9+
                if len(deduped_pairs) < len(val_type_pairs):
                    new_parameters = []
                    for pair in val_type_pairs:
                        if pair in deduped_pairs:
                            new_parameters.append(pair[0])
                            deduped_pairs.remove(pair)
                    assert not deduped_pairs, deduped_pairs
                    parameters = tuple(new_parameters)

            return _LiteralGenericAlias(self, parameters)

    Literal = _LiteralForm(doc="""\
                           A type that can be used to indicate to type checkers
                           that the corresponding value has a value literally equivalent
                           to the provided parameter. For example:

                               var: Literal[4] = 4

                           The type checker understands that 'var' is literally equal to
                           the value 4 and no other value.

                           Literal[...] cannot be subclassed. There is no runtime
                           checking verifying that the parameter is actually a value
                           instead of a type.""")


_overload_dummy = typing._overload_dummy


if hasattr(typing, "get_overloads"):  # 3.11+
    overload = typing.overload
    get_overloads = typing.get_overloads
    clear_overloads = typing.clear_overloads
else:
    # {module: {qualname: {firstlineno: func}}}
    _overload_registry = collections.defaultdict(
        functools.partial(collections.defaultdict, dict)
    )

    def overload(func):
        """Decorator for overloaded functions/methods.

        In a stub file, place two or more stub definitions for the same
        function in a row, each decorated with @overload.  For example:

        @overload
        def utf8(value: None) -> None: ...
        @overload
        def utf8(value: bytes) -> bytes: ...
        @overload
        def utf8(value: str) -> bytes: ...

        In a non-stub file (i.e. a regular .py file), do the same but
        follow it with an implementation.  The implementation should *not*
        be decorated with @overload.  For example:

        @overload
        def utf8(value: None) -> None: ...
        @overload
        def utf8(value: bytes) -> bytes: ...
        @overload
        def utf8(value: str) -> bytes: ...
        def utf8(value):
            # implementation goes here

        The overloads for a function can be retrieved at runtime using the
        get_overloads() function.
        """
        # classmethod and staticmethod
        f = getattr(func, "__func__", func)
        try:
            _overload_registry[f.__module__][f.__qualname__][
                f.__code__.co_firstlineno
            ] = func
        except AttributeError:
            # Not a normal function; ignore.
            pass
        return _overload_dummy

    def get_overloads(func):
        """Return all defined overloads for *func* as a sequence."""
        # classmethod and staticmethod
        f = getattr(func, "__func__", func)
        if f.__module__ not in _overload_registry:
            return []
        mod_dict = _overload_registry[f.__module__]
        if f.__qualname__ not in mod_dict:
            return []
        return list(mod_dict[f.__qualname__].values())

    def clear_overloads():
        """Clear all overloads in the registry."""
        _overload_registry.clear()


# This is not a real generic class.  Don't use outside annotations.
Type = typing.Type

# Various ABCs mimicking those in collections.abc.
# A few are simply re-exported for completeness.
Awaitable = typing.Awaitable
Coroutine = typing.Coroutine
AsyncIterable = typing.AsyncIterable
AsyncIterator = typing.AsyncIterator
Deque = typing.Deque
DefaultDict = typing.DefaultDict
OrderedDict = typing.OrderedDict
Counter = typing.Counter
ChainMap = typing.ChainMap
Text = typing.Text
TYPE_CHECKING = typing.TYPE_CHECKING


# Breakpoint: https://github.com/python/cpython/pull/118681
if sys.version_info >= (3, 13, 0, "beta"):
    from typing import AsyncContextManager, AsyncGenerator, ContextManager, Generator
else:
    def _is_dunder(attr):
        return attr.startswith('__') and attr.endswith('__')


    class _SpecialGenericAlias(typing._SpecialGenericAlias, _root=True):
        def __init__(self, origin, nparams, *, defaults, inst=True, name=None):
            assert nparams > 0, "`nparams` must be a positive integer"
            assert defaults, "Must always specify a non-empty sequence for `defaults`"
            super().__init__(origin, nparams, inst=inst, name=name)
            self._defaults = defaults

        def __setattr__(self, attr, val):
            allowed_attrs = {'_name', '_inst', '_nparams', '_defaults'}
            if _is_dunder(attr) or attr in allowed_attrs:
                object.__setattr__(self, attr, val)
            else:
                setattr(self.__origin__, attr, val)

        @typing._tp_cache
        def __getitem__(self, params):
            if not isinstance(params, tuple):
                params = (params,)
            msg = "Parameters to generic types must be types."
            params = tuple(typing._type_check(p, msg) for p in params)
            if (
                len(params) < self._nparams
                and len(params) + len(self._defaults) >= self._nparams
            ):
                params = (*params, *self._defaults[len(params) - self._nparams:])
            actual_len = len(params)

            if actual_len != self._nparams:
                expected = f"at least {self._nparams - len(self._defaults)}"
                raise TypeError(
                    f"Too {'many' if actual_len > self._nparams else 'few'}"
                    f" arguments for {self};"
                    f" actual {actual_len}, expected {expected}"
                )
            return self.copy_with(params)

    _NoneType = type(None)
    Generator = _SpecialGenericAlias(
        collections.abc.Generator, 3, defaults=(_NoneType, _NoneType)
    )
    AsyncGenerator = _SpecialGenericAlias(
        collections.abc.AsyncGenerator, 2, defaults=(_NoneType,)
    )
    ContextManager = _SpecialGenericAlias(
        contextlib.AbstractContextManager,
        2,
        name="ContextManager",
        defaults=(typing.Optional[bool],)
    )
    AsyncContextManager = _SpecialGenericAlias(
        contextlib.AbstractAsyncContextManager,
        2,
        name="AsyncContextManager",
        defaults=(typing.Optional[bool],)
    )


_PROTO_ALLOWLIST = {
    'collections.abc': [
        'Callable', 'Awaitable', 'Iterable', 'Iterator', 'AsyncIterable',
        'AsyncIterator', 'Hashable', 'Sized', 'Container', 'Collection',
        'Reversible', 'Buffer',
    ],
    'contextlib': ['AbstractContextManager', 'AbstractAsyncContextManager'],
    'io': ['Reader', 'Writer'],
    'typing_extensions': ['Buffer'],
    'os': ['PathLike'],
}


_EXCLUDED_ATTRS = frozenset(typing.EXCLUDED_ATTRIBUTES) | {
    "__match_args__", "__protocol_attrs__", "__non_callable_proto_members__",
    "__final__",
}


def _get_protocol_attrs(cls):
    attrs = set()
    for base in cls.__mro__[:-1]:  # without object
        if base.__name__ in {'Protocol', 'Generic'}:
            continue
        annotations = getattr(base, '__annotations__', {})
        for attr in (*base.__dict__, *annotations):
            if (not attr.startswith('_abc_') and attr not in _EXCLUDED_ATTRS):
                attrs.add(attr)
    return attrs


# `__match_args__` attribute was removed from protocol members in 3.13,
# we want to backport this change to older Python versions.
# 3.14 additionally added `io.Reader`, `io.Writer` and `os.PathLike` to
# the list of allowed protocol allowlist.
# https://github.com/python/cpython/issues/127647
if sys.version_info >= (3, 14):
    Protocol = typing.Protocol
else:
    def _allow_reckless_class_checks(depth=2):
        """Allow instance and class checks for special stdlib modules.
        The abc and functools modules indiscriminately call isinstance() and
        issubclass() on the whole MRO of a user class, which may contain protocols.
        """
        return _caller(depth) in {'abc', 'functools', None}

    def _no_init(self, *args, **kwargs):
        if type(self)._is_protocol:
            raise TypeError('Protocols cannot be instantiated')

    def _type_check_issubclass_arg_1(arg):
        """Raise TypeError if `arg` is not an instance of `type`
        in `issubclass(arg, <protocol>)`.

        In most cases, this is verified by type.__subclasscheck__.
        Checking it again unnecessarily would slow down issubclass() checks,
        so, we don't perform this check unless we absolutely have to.

        For various error paths, however,
        we want to ensure that *this* error message is shown to the user
        where relevant, rather than a typing.py-specific error message.
        """
        if not isinstance(arg, type):
            # Same error message as for issubclass(1, int).
            raise TypeError('issubclass() arg 1 must be a class')

    # Inheriting from typing._ProtocolMeta isn't actually desirable,
    # but is necessary to allow typing.Protocol and typing_extensions.Protocol
    # to mix without getting TypeErrors about "metaclass conflict"
    class _ProtocolMeta(type(typing.Protocol)):
        # This metaclass is somewhat unfortunate,
        # but is necessary for several reasons...
        #
        # NOTE: DO NOT call super() in any methods in this class
        # That would call the methods on typing._ProtocolMeta on Python <=3.11
        # and those are slow
        def __new__(mcls, name, bases, namespace, **kwargs):
            if name == "Protocol" and len(bases) < 2:
                pass
            elif {Protocol, typing.Protocol} & set(bases):
                for base in bases:
                    if not (
                        base in {object, typing.Generic, Protocol, typing.Protocol}
                        or base.__name__ in _PROTO_ALLOWLIST.get(base.__module__, [])
                        or is_protocol(base)
                    ):
                        raise TypeError(
                            f"Protocols can only inherit from other protocols, "
                            f"got {base!r}"
                        )
            return abc.ABCMeta.__new__(mcls, name, bases, namespace, **kwargs)

        def __init__(cls, *args, **kwargs):
            abc.ABCMeta.__init__(cls, *args, **kwargs)
            if getattr(cls, "_is_protocol", False):
                cls.__protocol_attrs__ = _get_protocol_attrs(cls)

        def __subclasscheck__(cls, other):
            if cls is Protocol:
                return type.__subclasscheck__(cls, other)
            if (
                getattr(cls, '_is_protocol', False)
                and not _allow_reckless_class_checks()
            ):
                if not getattr(cls, '_is_runtime_protocol', False):
                    _type_check_issubclass_arg_1(other)
                    raise TypeError(
                        "Instance and class checks can only be used with "
                        "@runtime_checkable protocols"
                    )
                if (
                    # this attribute is set by @runtime_checkable:
                    cls.__non_callable_proto_members__
                    and cls.__dict__.get("__subclasshook__") is _proto_hook
                ):
                    _type_check_issubclass_arg_1(other)
                    non_method_attrs = sorted(cls.__non_callable_proto_members__)
                    raise TypeError(
                        "Protocols with non-method members don't support issubclass()."
                        f" Non-method members: {str(non_method_attrs)[1:-1]}."
                    )
            return abc.ABCMeta.__subclasscheck__(cls, other)

        def __instancecheck__(cls, instance):
            # We need this method for situations where attributes are
            # assigned in __init__.
            if cls is Protocol:
                return type.__instancecheck__(cls, instance)
            if not getattr(cls, "_is_protocol", False):
                # i.e., it's a concrete subclass of a protocol
                return abc.ABCMeta.__instancecheck__(cls, instance)

            if (
                not getattr(cls, '_is_runtime_protocol', False) and
                not _allow_reckless_class_checks()
            ):
                raise TypeError("Instance and class checks can only be used with"
                                " @runtime_checkable protocols")

            if abc.ABCMeta.__instancecheck__(cls, instance):
                return True

            for attr in cls.__protocol_attrs__:
                try:
                    val = inspect.getattr_static(instance, attr)
                except AttributeError:
                    break
                # this attribute is set by @runtime_checkable:
                if val is None and attr not in cls.__non_callable_proto_members__:
                    break
            else:
                return True

            return False

        def __eq__(cls, other):
            # Hack so that typing.Generic.__class_getitem__
            # treats typing_extensions.Protocol
            # as equivalent to typing.Protocol
            if abc.ABCMeta.__eq__(cls, other) is True:
                return True
            return cls is Protocol and other is typing.Protocol

        # This has to be defined, or the abc-module cache
        # complains about classes with this metaclass being unhashable,
        # if we define only __eq__!
        def __hash__(cls) -> int:
            return type.__hash__(cls)

    @classmethod
    def _proto_hook(cls, other):
        if not cls.__dict__.get('_is_protocol', False):
            return NotImplemented

        for attr in cls.__protocol_attrs__:
            for base in other.__mro__:
                # Check if the members appears in the class dictionary...
                if attr in base.__dict__:
                    if base.__dict__[attr] is None:
                        return NotImplemented
                    break

                # ...or in annotations, if it is a sub-protocol.
                annotations = getattr(base, '__annotations__', {})
                if (
                    isinstance(annotations, collections.abc.Mapping)
                    and attr in annotations
                    and is_protocol(other)
                ):
                    break
            else:
                return NotImplemented
        return True

    class Protocol(typing.Generic, metaclass=_ProtocolMeta):
        __doc__ = typing.Protocol.__doc__
        __slots__ = ()
        _is_protocol = True
        _is_runtime_protocol = False

        def __init_subclass__(cls, *args, **kwargs):
            super().__init_subclass__(*args, **kwargs)

            # Determine if this is a protocol or a concrete subclass.
            if not cls.__dict__.get('_is_protocol', False):
                cls._is_protocol = any(b is Protocol for b in cls.__bases__)

            # Set (or override) the protocol subclass hook.
            if '__subclasshook__' not in cls.__dict__:
                cls.__subclasshook__ = _proto_hook

            # Prohibit instantiation for protocol classes
            if cls._is_protocol and cls.__init__ is Protocol.__init__:
                cls.__init__ = _no_init


# Breakpoint: https://github.com/python/cpython/pull/113401
if sys.version_info >= (3, 13):
    runtime_checkable = typing.runtime_checkable
else:
    def runtime_checkable(cls):
        """Mark a protocol class as a runtime protocol.

        Such protocol can be used with isinstance() and issubclass().
        Raise TypeError if applied to a non-protocol class.
        This allows a simple-minded structural check very similar to
        one trick ponies in collections.abc such as Iterable.

        For example::

            @runtime_checkable
            class Closable(Protocol):
                def close(self): ...

            assert isinstance(open('/some/file'), Closable)

        Warning: this will check only the presence of the required methods,
        not their type signatures!
        """
        if not issubclass(cls, typing.Generic) or not getattr(cls, '_is_protocol', False):
            raise TypeError(f'@runtime_checkable can be only applied to protocol classes,'
                            f' got {cls!r}')
        cls._is_runtime_protocol = True

        # typing.Protocol classes on <=3.11 break if we execute this block,
        # because typing.Protocol classes on <=3.11 don't have a
        # `__protocol_attrs__` attribute, and this block relies on the
        # `__protocol_attrs__` attribute. Meanwhile, typing.Protocol classes on 3.12.2+
        # break if we *don't* execute this block, because *they* assume that all
        # protocol classes have a `__non_callable_proto_members__` attribute
        # (which this block sets)
        if isinstance(cls, _ProtocolMeta) or sys.version_info >= (3, 12, 2):
            # PEP 544 prohibits using issubclass()
            # with protocols that have non-method members.
            # See gh-113320 for why we compute this attribute here,
            # rather than in `_ProtocolMeta.__init__`
            cls.__non_callable_proto_members__ = set()
            for attr in cls.__protocol_attrs__:
                try:
                    is_callable = callable(getattr(cls, attr, None))
                except Exception as e:
                    raise TypeError(
                        f"Failed to determine whether protocol member {attr!r} "
                        "is a method member"
                    ) from e
                else:
                    if not is_callable:
                        cls.__non_callable_proto_members__.add(attr)

        return cls


# The "runtime" alias exists for backwards compatibility.
runtime = runtime_checkable


# Our version of runtime-checkable protocols is faster on Python <=3.11
# Breakpoint: https://github.com/python/cpython/pull/112717
if sys.version_info >= (3, 12):
    SupportsInt = typing.SupportsInt
    SupportsFloat = typing.SupportsFloat
    SupportsComplex = typing.SupportsComplex
    SupportsBytes = typing.SupportsBytes
    SupportsIndex = typing.SupportsIndex
    SupportsAbs = typing.SupportsAbs
    SupportsRound = typing.SupportsRound
else:
    @runtime_checkable
    class SupportsInt(Protocol):
        """An ABC with one abstract method __int__."""
        __slots__ = ()

        @abc.abstractmethod
        def __int__(self) -> int:
            pass

    @runtime_checkable
    class SupportsFloat(Protocol):
        """An ABC with one abstract method __float__."""
        __slots__ = ()

        @abc.abstractmethod
        def __float__(self) -> float:
            pass

    @runtime_checkable
    class SupportsComplex(Protocol):
        """An ABC with one abstract method __complex__."""
        __slots__ = ()

        @abc.abstractmethod
        def __complex__(self) -> complex:
            pass

    @runtime_checkable
    class SupportsBytes(Protocol):
        """An ABC with one abstract method __bytes__."""
        __slots__ = ()

        @abc.abstractmethod
        def __bytes__(self) -> bytes:
            pass

    @runtime_checkable
    class SupportsIndex(Protocol):
        __slots__ = ()

        @abc.abstractmethod
        def __index__(self) -> int:
            pass

    @runtime_checkable
    class SupportsAbs(Protocol[T_co]):
        """
        An ABC with one abstract method __abs__ that is covariant in its return type.
        """
        __slots__ = ()

        @abc.abstractmethod
        def __abs__(self) -> T_co:
            pass

    @runtime_checkable
    class SupportsRound(Protocol[T_co]):
        """
        An ABC with one abstract method __round__ that is covariant in its return type.
        """
        __slots__ = ()

        @abc.abstractmethod
        def __round__(self, ndigits: int = 0) -> T_co:
            pass


if hasattr(io, "Reader") and hasattr(io, "Writer"):
    Reader = io.Reader
    Writer = io.Writer
else:
    @runtime_checkable
    class Reader(Protocol[T_co]):
        """Protocol for simple I/O reader instances.

        This protocol only supports blocking I/O.
        """

        __slots__ = ()

        @abc.abstractmethod
        def read(self, size: int = ..., /) -> T_co:
            """Read data from the input stream and return it.

            If *size* is specified, at most *size* items (bytes/characters) will be
            read.
            """

    @runtime_checkable
    class Writer(Protocol[T_contra]):
        """Protocol for simple I/O writer instances.

        This protocol only supports blocking I/O.
        """

        __slots__ = ()

        @abc.abstractmethod
        def write(self, data: T_contra, /) -> int:
            """Write *data* to the output stream and return the number of items written."""  # noqa: E501


_NEEDS_SINGLETONMETA = (
    not hasattr(typing, "NoDefault") or not hasattr(typing, "NoExtraItems")
)

if _NEEDS_SINGLETONMETA:
    class SingletonMeta(type):
        def __setattr__(cls, attr, value):
            # TypeError is consistent with the behavior of NoneType
            raise TypeError(
                f"cannot set {attr!r} attribute of immutable type {cls.__name__!r}"
            )


if hasattr(typing, "NoDefault"):
    NoDefault = typing.NoDefault
else:
    class NoDefaultType(metaclass=SingletonMeta):
        """The type of the NoDefault singleton."""

        __slots__ = ()

        def __new__(cls):
            return globals().get("NoDefault") or object.__new__(cls)

        def __repr__(self):
            return "typing_extensions.NoDefault"

        def __reduce__(self):
            return "NoDefault"

    NoDefault = NoDefaultType()
    del NoDefaultType

if hasattr(typing, "NoExtraItems"):
    NoExtraItems = typing.NoExtraItems
else:
    class NoExtraItemsType(metaclass=SingletonMeta):
        """The type of the NoExtraItems singleton."""

        __slots__ = ()

        def __new__(cls):
            return globals().get("NoExtraItems") or object.__new__(cls)

        def __repr__(self):
            return "typing_extensions.NoExtraItems"

        def __reduce__(self):
            return "NoExtraItems"

    NoExtraItems = NoExtraItemsType()
    del NoExtraItemsType

if _NEEDS_SINGLETONMETA:
    del SingletonMeta


# Update this to something like >=3.13.0b1 if and when
# PEP 764 is implemented in CPython
_PEP_764_IMPLEMENTED = False

if _PEP_764_IMPLEMENTED:
    # The standard library TypedDict in Python 3.9.0/1 does not honour the "total"
    # keyword with old-style TypedDict().  See https://bugs.python.org/issue42059
    # The standard library TypedDict below Python 3.11 does not store runtime
    # information about optional and required keys when using Required or NotRequired.
    # Generic TypedDicts are also impossible using typing.TypedDict on Python <3.11.
    # Aaaand on 3.12 we add __orig_bases__ to TypedDict
    # to enable better runtime introspection.
    # On 3.13 we deprecate some odd ways of creating TypedDicts.
    # Also on 3.13, PEP 705 adds the ReadOnly[] qualifier.
    # PEP 728 (Python 3.15+) adds the `extra_items` and `closed` keywords.
    # PEP 764 (still pending) allows the `TypedDict` special form to be subscripted.
    TypedDict = typing.TypedDict
    _TypedDictMeta = typing._TypedDictMeta
    is_typeddict = typing.is_typeddict
else:
    # 3.10.0 and later
    _TAKES_MODULE = "module" in inspect.signature(typing._type_check).parameters

    def _get_typeddict_qualifiers(annotation_type):
        while True:
            annotation_origin = get_origin(annotation_type)
            if annotation_origin is Annotated:
                annotation_args = get_args(annotation_type)
                if annotation_args:
                    annotation_type = annotation_args[0]
                else:
                    break
            elif annotation_origin is Required:
                yield Required
                annotation_type, = get_args(annotation_type)
            elif annotation_origin is NotRequired:
                yield NotRequired
                annotation_type, = get_args(annotation_type)
            elif annotation_origin is ReadOnly:
                yield ReadOnly
                annotation_type, = get_args(annotation_type)
            else:
                break

    class _TypedDictMeta(type):

        def __new__(cls, name, bases, ns, *, total=True, closed=None,
                    extra_items=NoExtraItems):
            """Create new typed dict class object.

            This method is called when TypedDict is subclassed,
            or when TypedDict is instantiated. This way
            TypedDict supports all three syntax forms described in its docstring.
            Subclasses and instances of TypedDict return actual dictionaries.
            """
            for base in bases:
                if type(base) is not _TypedDictMeta and base is not typing.Generic:
                    raise TypeError('cannot inherit from both a TypedDict type '
                                    'and a non-TypedDict base class')
            if closed is not None and extra_items is not NoExtraItems:
                raise TypeError(f"Cannot combine closed={closed!r} and extra_items")

            if any(issubclass(b, typing.Generic) for b in bases):
                generic_base = (typing.Generic,)
            else:
                generic_base = ()

            ns_annotations = ns.pop('__annotations__', None)

            # typing.py generally doesn't let you inherit from plain Generic, unless
            # the name of the class happens to be "Protocol"
            tp_dict = type.__new__(_TypedDictMeta, "Protocol", (*generic_base, dict), ns)
            tp_dict.__name__ = name
            if tp_dict.__qualname__ == "Protocol":
                tp_dict.__qualname__ = name

            if not hasattr(tp_dict, '__orig_bases__'):
                tp_dict.__orig_bases__ = bases

            annotations = {}
            own_annotate = None
            if ns_annotations is not None:
                own_annotations = ns_annotations
            elif sys.version_info >= (3, 14):
                if hasattr(annotationlib, "get_annotate_from_class_namespace"):
                    own_annotate = annotationlib.get_annotate_from_class_namespace(ns)
                else:
                    # 3.14.0a7 and earlier
                    own_annotate = ns.get("__annotate__")
                if own_annotate is not None:
                    own_annotations = annotationlib.call_annotate_function(
                        own_annotate, Format.FORWARDREF, owner=tp_dict
                    )
                else:
                    own_annotations = {}
            else:
                own_annotations = {}
            msg = "TypedDict('Name', {f0: t0, f1: t1, ...}); each t must be a type"
            if _TAKES_MODULE:
                own_checked_annotations = {
                    n: typing._type_check(tp, msg, module=tp_dict.__module__)
                    for n, tp in own_annotations.items()
                }
            else:
                own_checked_annotations = {
                    n: typing._type_check(tp, msg)
                    for n, tp in own_annotations.items()
                }
            required_keys = set()
            optional_keys = set()
            readonly_keys = set()
            mutable_keys = set()
            extra_items_type = extra_items

            for base in bases:
                base_dict = base.__dict__

                if sys.version_info <= (3, 14):
                    annotations.update(base_dict.get('__annotations__', {}))
                base_required = base_dict.get('__required_keys__', set())
                required_keys |= base_required
                optional_keys -= base_required

                base_optional = base_dict.get('__optional_keys__', set())
                required_keys -= base_optional
                optional_keys |= base_optional

                readonly_keys.update(base_dict.get('__readonly_keys__', ()))
                mutable_keys.update(base_dict.get('__mutable_keys__', ()))

            # This was specified in an earlier version of PEP 728. Support
            # is retained for backwards compatibility, but only for Python
            # 3.13 and lower.
            if (closed and sys.version_info < (3, 14)
                       and "__extra_items__" in own_checked_annotations):
                annotation_type = own_checked_annotations.pop("__extra_items__")
                qualifiers = set(_get_typeddict_qualifiers(annotation_type))
                if Required in qualifiers:
                    raise TypeError(
                        "Special key __extra_items__ does not support "
                        "Required"
                    )
                if NotRequired in qualifiers:
                    raise TypeError(
                        "Special key __extra_items__ does not support "
                        "NotRequired"
                    )
                extra_items_type = annotation_type

            annotations.update(own_checked_annotations)
            for annotation_key, annotation_type in own_checked_annotations.items():
                qualifiers = set(_get_typeddict_qualifiers(annotation_type))

                if Required in qualifiers:
                    is_required = True
                elif NotRequired in qualifiers:
                    is_required = False
                else:
                    is_required = total

                if is_required:
                    required_keys.add(annotation_key)
                    optional_keys.discard(annotation_key)
                else:
                    optional_keys.add(annotation_key)
                    required_keys.discard(annotation_key)

                if ReadOnly in qualifiers:
                    mutable_keys.discard(annotation_key)
                    readonly_keys.add(annotation_key)
                else:
                    mutable_keys.add(annotation_key)
                    readonly_keys.discard(annotation_key)

            # Breakpoint: https://github.com/python/cpython/pull/119891
            if sys.version_info >= (3, 14):
                def __annotate__(format):
                    annos = {}
                    for base in bases:
                        if base is Generic:
                            continue
                        base_annotate = base.__annotate__
                        if base_annotate is None:
                            continue
                        base_annos = annotationlib.call_annotate_function(
                            base_annotate, format, owner=base)
                        annos.update(base_annos)
                    if own_annotate is not None:
                        own = annotationlib.call_annotate_function(
                            own_annotate, format, owner=tp_dict)
                        if format != Format.STRING:
                            own = {
                                n: typing._type_check(tp, msg, module=tp_dict.__module__)
                                for n, tp in own.items()
                            }
                    elif format == Format.STRING:
                        own = annotationlib.annotations_to_string(own_annotations)
                    elif format in (Format.FORWARDREF, Format.VALUE):
                        own = own_checked_annotations
                    else:
                        raise NotImplementedError(format)
                    annos.update(own)
                    return annos

                tp_dict.__annotate__ = __annotate__
            else:
                tp_dict.__annotations__ = annotations
            tp_dict.__required_keys__ = frozenset(required_keys)
            tp_dict.__optional_keys__ = frozenset(optional_keys)
            tp_dict.__readonly_keys__ = frozenset(readonly_keys)
            tp_dict.__mutable_keys__ = frozenset(mutable_keys)
            tp_dict.__total__ = total
            tp_dict.__closed__ = closed
            tp_dict.__extra_items__ = extra_items_type
            return tp_dict

        __call__ = dict  # static method

        def __subclasscheck__(cls, other):
            # Typed dicts are only for static structural subtyping.
            raise TypeError('TypedDict does not support instance and class checks')

        __instancecheck__ = __subclasscheck__

    _TypedDict = type.__new__(_TypedDictMeta, 'TypedDict', (), {})

    def _create_typeddict(
        typename,
        fields,
        /,
        *,
        typing_is_inline,
        total,
        closed,
        extra_items,
        **kwargs,
    ):
        if fields is _marker or fields is None:
            if fields is _marker:
                deprecated_thing = (
                    "Failing to pass a value for the 'fields' parameter"
                )
            else:
                deprecated_thing = "Passing `None` as the 'fields' parameter"

            example = f"`{typename} = TypedDict({typename!r}, {{}})`"
            deprecation_msg = (
                f"{deprecated_thing} is deprecated and will be disallowed in "
                "Python 3.15. To create a TypedDict class with 0 fields "
                "using the functional syntax, pass an empty dictionary, e.g. "
            ) + example + "."
            warnings.warn(deprecation_msg, DeprecationWarning, stacklevel=2)
            # Support a field called "closed"
            if closed is not False and closed is not True and closed is not None:
                kwargs["closed"] = closed
                closed = None
            # Or "extra_items"
            if extra_items is not NoExtraItems:
                kwargs["extra_items"] = extra_items
                extra_items = NoExtraItems
            fields = kwargs
        elif kwargs:
            raise TypeError("TypedDict takes either a dict or keyword arguments,"
                            " but not both")
        if kwargs:
            # Breakpoint: https://github.com/python/cpython/pull/104891
            if sys.version_info >= (3, 13):
                raise TypeError("TypedDict takes no keyword arguments")
            warnings.warn(
                "The kwargs-based syntax for TypedDict definitions is deprecated "
                "in Python 3.11, will be removed in Python 3.13, and may not be "
                "understood by third-party type checkers.",
                DeprecationWarning,
                stacklevel=2,
            )

        ns = {'__annotations__': dict(fields)}
        module = _caller(depth=4 if typing_is_inline else 2)
        if module is not None:
            # Setting correct module is necessary to make typed dict classes
            # pickleable.
            ns['__module__'] = module

        td = _TypedDictMeta(typename, (), ns, total=total, closed=closed,
                            extra_items=extra_items)
        td.__orig_bases__ = (TypedDict,)
        return td

    class _TypedDictSpecialForm(_SpecialForm, _root=True):
        def __call__(
            self,
            typename,
            fields=_marker,
            /,
            *,
            total=True,
            closed=None,
            extra_items=NoExtraItems,
            **kwargs
        ):
            return _create_typeddict(
                typename,
                fields,
                typing_is_inline=False,
                total=total,
                closed=closed,
                extra_items=extra_items,
                **kwargs,
            )

        def __mro_entries__(self, bases):
            return (_TypedDict,)

    @_TypedDictSpecialForm
    def TypedDict(self, args):
        """A simple typed namespace. At runtime it is equivalent to a plain dict.

        TypedDict creates a dictionary type such that a type checker will expect all
        instances to have a certain set of keys, where each key is
        associated with a value of a consistent type. This expectation
        is not checked at runtime.

        Usage::

            class Point2D(TypedDict):
                x: int
                y: int
                label: str

            a: Point2D = {'x': 1, 'y': 2, 'label': 'good'}  # OK
            b: Point2D = {'z': 3, 'label': 'bad'}           # Fails type check

            assert Point2D(x=1, y=2, label='first') == dict(x=1, y=2, label='first')

        The type info can be accessed via the Point2D.__annotations__ dict, and
        the Point2D.__required_keys__ and Point2D.__optional_keys__ frozensets.
        TypedDict supports an additional equivalent form::

            Point2D = TypedDict('Point2D', {'x': int, 'y': int, 'label': str})

        By default, all keys must be present in a TypedDict. It is possible
        to override this by specifying totality::

            class Point2D(TypedDict, total=False):
                x: int
                y: int

        This means that a Point2D TypedDict can have any of the keys omitted. A type
        checker is only expected to support a literal False or True as the value of
        the total argument. True is the default, and makes all items defined in the
        class body be required.

        The Required and NotRequired special forms can also be used to mark
        individual keys as being required or not required::

            class Point2D(TypedDict):
                x: int  # the "x" key must always be present (Required is the default)
                y: NotRequired[int]  # the "y" key can be omitted

        See PEP 655 for more details on Required and NotRequired.
        """
        # This runs when creating inline TypedDicts:
        if not isinstance(args, dict):
            raise TypeError(
                "TypedDict[...] should be used with a single dict argument"
            )

        return _create_typeddict(
            "<inline TypedDict>",
            args,
            typing_is_inline=True,
            total=True,
            closed=True,
            extra_items=NoExtraItems,
        )

    _TYPEDDICT_TYPES = (typing._TypedDictMeta, _TypedDictMeta)

    def is_typeddict(tp):
        """Check if an annotation is a TypedDict class

        For example::
            class Film(TypedDict):
                title: str
                year: int

            is_typeddict(Film)  # => True
            is_typeddict(Union[list, str])  # => False
        """
        return isinstance(tp, _TYPEDDICT_TYPES)


if hasattr(typing, "assert_type"):
    assert_type = typing.assert_type

else:
    def assert_type(val, typ, /):
        """Assert (to the type checker) that the value is of the given type.

        When the type checker encounters a call to assert_type(), it
        emits an error if the value is not of the specified type::

            def greet(name: str) -> None:
                assert_type(name, str)  # ok
                assert_type(name, int)  # type checker error

        At runtime this returns the first argument unchanged and otherwise
        does nothing.
        """
        return val


if hasattr(typing, "ReadOnly"):  # 3.13+
    get_type_hints = typing.get_type_hints
else:  # <=3.13
    # replaces _strip_annotations()
    def _strip_extras(t):
        """Strips Annotated, Required and NotRequired from a given type."""
        if isinstance(t, typing._AnnotatedAlias):
            return _strip_extras(t.__origin__)
        if hasattr(t, "__origin__") and t.__origin__ in (Required, NotRequired, ReadOnly):
            return _strip_extras(t.__args__[0])
        if isinstance(t, typing._GenericAlias):
            stripped_args = tuple(_strip_extras(a) for a in t.__args__)
            if stripped_args == t.__args__:
                return t
            return t.copy_with(stripped_args)
        if hasattr(_types, "GenericAlias") and isinstance(t, _types.GenericAlias):
            stripped_args = tuple(_strip_extras(a) for a in t.__args__)
            if stripped_args == t.__args__:
                return t
            return _types.GenericAlias(t.__origin__, stripped_args)
        if hasattr(_types, "UnionType") and isinstance(t, _types.UnionType):
            stripped_args = tuple(_strip_extras(a) for a in t.__args__)
            if stripped_args == t.__args__:
                return t
            return functools.reduce(operator.or_, stripped_args)

        return t

    def get_type_hints(obj, globalns=None, localns=None, include_extras=False):
        """Return type hints for an object.

        This is often the same as obj.__annotations__, but it handles
        forward references encoded as string literals, adds Optional[t] if a
        default value equal to None is set and recursively replaces all
        'Annotated[T, ...]', 'Required[T]' or 'NotRequired[T]' with 'T'
        (unless 'include_extras=True').

        The argument may be a module, class, method, or function. The annotations
        are returned as a dictionary. For classes, annotations include also
        inherited members.

        TypeError is raised if the argument is not of a type that can contain
        annotations, and an empty dictionary is returned if no annotations are
        present.

        BEWARE -- the behavior of globalns and localns is counterintuitive
        (unless you are familiar with how eval() and exec() work).  The
        search order is locals first, then globals.

        - If no dict arguments are passed, an attempt is made to use the
          globals from obj (or the respective module's globals for classes),
          and these are also used as the locals.  If the object does not appear
          to have globals, an empty dictionary is used.

        - If one dict argument is passed, it is used for both globals and
          locals.

        - If two dict arguments are passed, they specify globals and
          locals, respectively.
        """
        hint = typing.get_type_hints(
            obj, globalns=globalns, localns=localns, include_extras=True
        )
        # Breakpoint: https://github.com/python/cpython/pull/30304
        if sys.version_info < (3, 11):
            _clean_optional(obj, hint, globalns, localns)
        if include_extras:
            return hint
        return {k: _strip_extras(t) for k, t in hint.items()}

    _NoneType = type(None)

    def _could_be_inserted_optional(t):
        """detects Union[..., None] pattern"""
        if not isinstance(t, typing._UnionGenericAlias):
            return False
        # Assume if last argument is not None they are user defined
        if t.__args__[-1] is not _NoneType:
            return False
        return True

    # < 3.11
    def _clean_optional(obj, hints, globalns=None, localns=None):
        # reverts injected Union[..., None] cases from typing.get_type_hints
        # when a None default value is used.
        # see https://github.com/python/typing_extensions/issues/310
        if not hints or isinstance(obj, type):
            return
        defaults = typing._get_defaults(obj)  # avoid accessing __annotations___
        if not defaults:
            return
        original_hints = obj.__annotations__
        for name, value in hints.items():
            # Not a Union[..., None] or replacement conditions not fullfilled
            if (not _could_be_inserted_optional(value)
                or name not in defaults
                or defaults[name] is not None
            ):
                continue
            original_value = original_hints[name]
            # value=NoneType should have caused a skip above but check for safety
            if original_value is None:
                original_value = _NoneType
            # Forward reference
            if isinstance(original_value, str):
                if globalns is None:
                    if isinstance(obj, _types.ModuleType):
                        globalns = obj.__dict__
                    else:
                        nsobj = obj
                        # Find globalns for the unwrapped object.
                        while hasattr(nsobj, '__wrapped__'):
                            nsobj = nsobj.__wrapped__
                        globalns = getattr(nsobj, '__globals__', {})
                    if localns is None:
                        localns = globalns
                elif localns is None:
                    localns = globalns

                original_value = ForwardRef(
                    original_value,
                    is_argument=not isinstance(obj, _types.ModuleType)
                )
            original_evaluated = typing._eval_type(original_value, globalns, localns)
            # Compare if values differ. Note that even if equal
            # value might be cached by typing._tp_cache contrary to original_evaluated
            if original_evaluated != value or (
                # 3.10: ForwardRefs of UnionType might be turned into _UnionGenericAlias
                hasattr(_types, "UnionType")
                and isinstance(original_evaluated, _types.UnionType)
                and not isinstance(value, _types.UnionType)
            ):
                hints[name] = original_evaluated

# Python 3.9 has get_origin() and get_args() but those implementations don't support
# ParamSpecArgs and ParamSpecKwargs, so only Python 3.10's versions will do.
# Breakpoint: https://github.com/python/cpython/pull/25298
if sys.version_info >= (3, 10):
    get_origin = typing.get_origin
    get_args = typing.get_args
# 3.9
else:
    def get_origin(tp):
        """Get the unsubscripted version of a type.

        This supports generic types, Callable, Tuple, Union, Literal, Final, ClassVar
        and Annotated. Return None for unsupported types. Examples::

            get_origin(Literal[42]) is Literal
            get_origin(int) is None
            get_origin(ClassVar[int]) is ClassVar
            get_origin(Generic) is Generic
            get_origin(Generic[T]) is Generic
            get_origin(Union[T, int]) is Union
            get_origin(List[Tuple[T, T]][int]) == list
            get_origin(P.args) is P
        """
        if isinstance(tp, typing._AnnotatedAlias):
            return Annotated
        if isinstance(tp, (typing._BaseGenericAlias, _types.GenericAlias,
                           ParamSpecArgs, ParamSpecKwargs)):
            return tp.__origin__
        if tp is typing.Generic:
            return typing.Generic
        return None

    def get_args(tp):
        """Get type arguments with all substitutions performed.

        For unions, basic simplifications used by Union constructor are performed.
        Examples::
            get_args(Dict[str, int]) == (str, int)
            get_args(int) == ()
            get_args(Union[int, Union[T, int], str][int]) == (int, str)
            get_args(Union[int, Tuple[T, int]][str]) == (int, Tuple[str, int])
            get_args(Callable[[], T][int]) == ([], int)
        """
        if isinstance(tp, typing._AnnotatedAlias):
            return (tp.__origin__, *tp.__metadata__)
        if isinstance(tp, (typing._GenericAlias, _types.GenericAlias)):
            res = tp.__args__
            if get_origin(tp) is collections.abc.Callable and res[0] is not Ellipsis:
                res = (list(res[:-1]), res[-1])
            return res
        return ()


# 3.10+
if hasattr(typing, 'TypeAlias'):
    TypeAlias = typing.TypeAlias
# 3.9
else:
    @_ExtensionsSpecialForm
    def TypeAlias(self, parameters):
        """Special marker indicating that an assignment should
        be recognized as a proper type alias definition by type
        checkers.

        For example::

            Predicate: TypeAlias = Callable[..., bool]

        It's invalid when used anywhere except as in the example above.
        """
        raise TypeError(f"{self} is not subscriptable")


def _set_default(type_param, default):
    type_param.has_default = lambda: default is not NoDefault
    type_param.__default__ = default


def _set_module(typevarlike):
    # for pickling:
    def_mod = _caller(depth=2)
    if def_mod != 'typing_extensions':
        typevarlike.__module__ = def_mod


class _DefaultMixin:
    """Mixin for TypeVarLike defaults."""

    __slots__ = ()
    __init__ = _set_default


# Classes using this metaclass must provide a _backported_typevarlike ClassVar
class _TypeVarLikeMeta(type):
    def __instancecheck__(cls, __instance: Any) -> bool:
        return isinstance(__instance, cls._backported_typevarlike)


if _PEP_696_IMPLEMENTED:
    from typing import TypeVar
else:
    # Add default and infer_variance parameters from PEP 696 and 695
    class TypeVar(metaclass=_TypeVarLikeMeta):
        """Type variable."""

        _backported_typevarlike = typing.TypeVar

        def __new__(cls, name, *constraints, bound=None,
                    covariant=False, contravariant=False,
                    default=NoDefault, infer_variance=False):
            if hasattr(typing, "TypeAliasType"):
                # PEP 695 implemented (3.12+), can pass infer_variance to typing.TypeVar
                typevar = typing.TypeVar(name, *constraints, bound=bound,
                                         covariant=covariant, contravariant=contravariant,
                                         infer_variance=infer_variance)
            else:
                typevar = typing.TypeVar(name, *constraints, bound=bound,
                                         covariant=covariant, contravariant=contravariant)
                if infer_variance and (covariant or contravariant):
                    raise ValueError("Variance cannot be specified with infer_variance.")
                typevar.__infer_variance__ = infer_variance

            _set_default(typevar, default)
            _set_module(typevar)

            def _tvar_prepare_subst(alias, args):
                if (
                    typevar.has_default()
                    and alias.__parameters__.index(typevar) == len(args)
                ):
                    args += (typevar.__default__,)
                return args

            typevar.__typing_prepare_subst__ = _tvar_prepare_subst
            return typevar

        def __init_subclass__(cls) -> None:
            raise TypeError(f"type '{__name__}.TypeVar' is not an acceptable base type")


# Python 3.10+ has PEP 612
if hasattr(typing, 'ParamSpecArgs'):
    ParamSpecArgs = typing.ParamSpecArgs
    ParamSpecKwargs = typing.ParamSpecKwargs
# 3.9
else:
    class _Immutable:
        """Mixin to indicate that object should not be copied."""
        __slots__ = ()

        def __copy__(self):
            return self

        def __deepcopy__(self, memo):
            return self

    class ParamSpecArgs(_Immutable):
        """The args for a ParamSpec object.

        Given a ParamSpec object P, P.args is an instance of ParamSpecArgs.

        ParamSpecArgs objects have a reference back to their ParamSpec:

        P.args.__origin__ is P

        This type is meant for runtime introspection and has no special meaning to
        static type checkers.
        """
        def __init__(self, origin):
            self.__origin__ = origin

        def __repr__(self):
            return f"{self.__origin__.__name__}.args"

        def __eq__(self, other):
            if not isinstance(other, ParamSpecArgs):
                return NotImplemented
            return self.__origin__ == other.__origin__

    class ParamSpecKwargs(_Immutable):
        """The kwargs for a ParamSpec object.

        Given a ParamSpec object P, P.kwargs is an instance of ParamSpecKwargs.

        ParamSpecKwargs objects have a reference back to their ParamSpec:

        P.kwargs.__origin__ is P

        This type is meant for runtime introspection and has no special meaning to
        static type checkers.
        """
        def __init__(self, origin):
            self.__origin__ = origin

        def __repr__(self):
            return f"{self.__origin__.__name__}.kwargs"

        def __eq__(self, other):
            if not isinstance(other, ParamSpecKwargs):
                return NotImplemented
            return self.__origin__ == other.__origin__


if _PEP_696_IMPLEMENTED:
    from typing import ParamSpec

# 3.10+
elif hasattr(typing, 'ParamSpec'):

    # Add default parameter - PEP 696
    class ParamSpec(metaclass=_TypeVarLikeMeta):
        """Parameter specification."""

        _backported_typevarlike = typing.ParamSpec

        def __new__(cls, name, *, bound=None,
                    covariant=False, contravariant=False,
                    infer_variance=False, default=NoDefault):
            if hasattr(typing, "TypeAliasType"):
                # PEP 695 implemented, can pass infer_variance to typing.TypeVar
                paramspec = typing.ParamSpec(name, bound=bound,
                                             covariant=covariant,
                                             contravariant=contravariant,
                                             infer_variance=infer_variance)
            else:
                paramspec = typing.ParamSpec(name, bound=bound,
                                             covariant=covariant,
                                             contravariant=contravariant)
                paramspec.__infer_variance__ = bool(infer_variance)

            _set_default(paramspec, default)
            _set_module(paramspec)

            def _paramspec_prepare_subst(alias, args):
                params = alias.__parameters__
                i = params.index(paramspec)
                if i == len(args) and paramspec.has_default():
                    args = [*args, paramspec.__default__]
                if i >= len(args):
                    raise TypeError(f"Too few arguments for {alias}")
                # Special case where Z[[int, str, bool]] == Z[int, str, bool] in PEP 612.
                if len(params) == 1 and not typing._is_param_expr(args[0]):
                    assert i == 0
                    args = (args,)
                # Convert lists to tuples to help other libraries cache the results.
                elif isinstance(args[i], list):
                    args = (*args[:i], tuple(args[i]), *args[i + 1:])
                return args

            paramspec.__typing_prepare_subst__ = _paramspec_prepare_subst
            return paramspec

        def __init_subclass__(cls) -> None:
            raise TypeError(f"type '{__name__}.ParamSpec' is not an acceptable base type")

# 3.9
else:

    # Inherits from list as a workaround for Callable checks in Python < 3.9.2.
    class ParamSpec(list, _DefaultMixin):
        """Parameter specification variable.

        Usage::

           P = ParamSpec('P')

        Parameter specification variables exist primarily for the benefit of static
        type checkers.  They are used to forward the parameter types of one
        callable to another callable, a pattern commonly found in higher order
        functions and decorators.  They are only valid when used in ``Concatenate``,
        or s the first argument to ``Callable``. In Python 3.10 and higher,
        they are also supported in user-defined Generics at runtime.
        See class Generic for more information on generic types.  An
        example for annotating a decorator::

           T = TypeVar('T')
           P = ParamSpec('P')

           def add_logging(f: Callable[P, T]) -> Callable[P, T]:
               '''A type-safe decorator to add logging to a function.'''
               def inner(*args: P.args, **kwargs: P.kwargs) -> T:
                   logging.info(f'{f.__name__} was called')
                   return f(*args, **kwargs)
               return inner

           @add_logging
           def add_two(x: float, y: float) -> float:
               '''Add two numbers together.'''
               return x + y

        Parameter specification variables defined with covariant=True or
        contravariant=True can be used to declare covariant or contravariant
        generic types.  These keyword arguments are valid, but their actual semantics
        are yet to be decided.  See PEP 612 for details.

        Parameter specification variables can be introspected. e.g.:

           P.__name__ == 'T'
           P.__bound__ == None
           P.__covariant__ == False
           P.__contravariant__ == False

        Note that only parameter specification variables defined in global scope can
        be pickled.
        """

        # Trick Generic __parameters__.
        __class__ = typing.TypeVar

        @property
        def args(self):
            return ParamSpecArgs(self)

        @property
        def kwargs(self):
            return ParamSpecKwargs(self)

        def __init__(self, name, *, bound=None, covariant=False, contravariant=False,
                     infer_variance=False, default=NoDefault):
            list.__init__(self, [self])
            self.__name__ = name
            self.__covariant__ = bool(covariant)
            self.__contravariant__ = bool(contravariant)
            self.__infer_variance__ = bool(infer_variance)
            self.__bound__ = bound
            _DefaultMixin.__init__(self, default)

            # for pickling:
            def_mod = _caller()
            if def_mod != 'typing_extensions':
                self.__module__ = def_mod

        def __repr__(self):
            if self.__infer_variance__:
                prefix = ''
            elif self.__covariant__:
                prefix = '+'
            elif self.__contravariant__:
                prefix = '-'
            else:
                prefix = '~'
            return prefix + self.__name__

        def __hash__(self):
            return object.__hash__(self)

        def __eq__(self, other):
            return self is other

        def __reduce__(self):
            return self.__name__

        # Hack to get typing._type_check to pass.
        def __call__(self, *args, **kwargs):
            pass

        def __init_subclass__(cls) -> None:
            raise TypeError(f"type '{__name__}.ParamSpec' is not an acceptable base type")


# 3.9
if not hasattr(typing, 'Concatenate'):
    # Inherits from list as a workaround for Callable checks in Python < 3.9.2.

    # 3.9.0-1
    if not hasattr(typing, '_type_convert'):
        def _type_convert(arg, module=None, *, allow_special_forms=False):
            """For converting None to type(None), and strings to ForwardRef."""
            if arg is None:
                return type(None)
            if isinstance(arg, str):
                if sys.version_info <= (3, 9, 6):
                    return ForwardRef(arg)
                if sys.version_info <= (3, 9, 7):
                    return ForwardRef(arg, module=module)
                return ForwardRef(arg, module=module, is_class=allow_special_forms)
            return arg
    else:
        _type_convert = typing._type_convert

    class _ConcatenateGenericAlias(list):

        # Trick Generic into looking into this for __parameters__.
        __class__ = typing._GenericAlias

        def __init__(self, origin, args):
            # Cannot use `super().__init__` here because of the `__class__` assignment
            # in the class body (https://github.com/python/typing_extensions/issues/661)
            list.__init__(self, args)
            self.__origin__ = origin
            self.__args__ = args

        def __repr__(self):
            _type_repr = typing._type_repr
            return (f'{_type_repr(self.__origin__)}'
                    f'[{", ".join(_type_repr(arg) for arg in self.__args__)}]')

        def __hash__(self):
            return hash((self.__origin__, self.__args__))

        # Hack to get typing._type_check to pass in Generic.
        def __call__(self, *args, **kwargs):
            pass

        @property
        def __parameters__(self):
            return tuple(
                tp for tp in self.__args__ if isinstance(tp, (typing.TypeVar, ParamSpec))
            )

        # 3.9 used by __getitem__ below
        def copy_with(self, params):
            if isinstance(params[-1], _ConcatenateGenericAlias):
                params = (*params[:-1], *params[-1].__args__)
            elif isinstance(params[-1], (list, tuple)):
                return (*params[:-1], *params[-1])
            elif (not (params[-1] is ... or isinstance(params[-1], ParamSpec))):
                raise TypeError("The last parameter to Concatenate should be a "
                        "ParamSpec variable or ellipsis.")
            return self.__class__(self.__origin__, params)

        # 3.9; accessed during GenericAlias.__getitem__ when substituting
        def __getitem__(self, args):
            if self.__origin__ in (Generic, Protocol):
                # Can't subscript Generic[...] or Protocol[...].
                raise TypeError(f"Cannot subscript already-subscripted {self}")
            if not self.__parameters__:
                raise TypeError(f"{self} is not a generic class")

            if not isinstance(args, tuple):
                args = (args,)
            args = _unpack_args(*(_type_convert(p) for p in args))
            params = self.__parameters__
            for param in params:
                prepare = getattr(param, "__typing_prepare_subst__", None)
                if prepare is not None:
                    args = prepare(self, args)
                # 3.9 & typing.ParamSpec
                elif isinstance(param, ParamSpec):
                    i = params.index(param)
                    if (
                        i == len(args)
                        and getattr(param, '__default__', NoDefault) is not NoDefault
                    ):
                        args = [*args, param.__default__]
                    if i >= len(args):
                        raise TypeError(f"Too few arguments for {self}")
                    # Special case for Z[[int, str, bool]] == Z[int, str, bool]
                    if len(params) == 1 and not _is_param_expr(args[0]):
                        assert i == 0
                        args = (args,)
                    elif (
                        isinstance(args[i], list)
                        # 3.9
                        # This class inherits from list do not convert
                        and not isinstance(args[i], _ConcatenateGenericAlias)
                    ):
                        args = (*args[:i], tuple(args[i]), *args[i + 1:])

            alen = len(args)
            plen = len(params)
            if alen != plen:
                raise TypeError(
                    f"Too {'many' if alen > plen else 'few'} arguments for {self};"
                    f" actual {alen}, expected {plen}"
                )

            subst = dict(zip(self.__parameters__, args))
            # determine new args
            new_args = []
            for arg in self.__args__:
                if isinstance(arg, type):
                    new_args.append(arg)
                    continue
                if isinstance(arg, TypeVar):
                    arg = subst[arg]
                    if (
                        (isinstance(arg, typing._GenericAlias) and _is_unpack(arg))
                        or (
                            hasattr(_types, "GenericAlias")
                            and isinstance(arg, _types.GenericAlias)
                            and getattr(arg, "__unpacked__", False)
                        )
                    ):
                        raise TypeError(f"{arg} is not valid as type argument")

                elif isinstance(arg,
                    typing._GenericAlias
                    if not hasattr(_types, "GenericAlias") else
                    (typing._GenericAlias, _types.GenericAlias)
                ):
                    subparams = arg.__parameters__
                    if subparams:
                        subargs = tuple(subst[x] for x in subparams)
                        arg = arg[subargs]
                new_args.append(arg)
            return self.copy_with(tuple(new_args))

# 3.10+
else:
    _ConcatenateGenericAlias = typing._ConcatenateGenericAlias

    # 3.10
    if sys.version_info < (3, 11):

        class _ConcatenateGenericAlias(typing._ConcatenateGenericAlias, _root=True):
            # needed for checks in collections.abc.Callable to accept this class
            __module__ = "typing"

            def copy_with(self, params):
                if isinstance(params[-1], (list, tuple)):
                    return (*params[:-1], *params[-1])
                if isinstance(params[-1], typing._ConcatenateGenericAlias):
                    params = (*params[:-1], *params[-1].__args__)
                elif not (params[-1] is ... or isinstance(params[-1], ParamSpec)):
                    raise TypeError("The last parameter to Concatenate should be a "
                            "ParamSpec variable or ellipsis.")
                return super(typing._ConcatenateGenericAlias, self).copy_with(params)

            def __getitem__(self, args):
                value = super().__getitem__(args)
                if isinstance(value, tuple) and any(_is_unpack(t) for t in value):
                    return tuple(_unpack_args(*(n for n in value)))
                return value


# 3.9.2
class _EllipsisDummy: ...


# <=3.10
def _create_concatenate_alias(origin, parameters):
    if parameters[-1] is ... and sys.version_info < (3, 9, 2):
        # Hack: Arguments must be types, replace it with one.
        parameters = (*parameters[:-1], _EllipsisDummy)
    if sys.version_info >= (3, 10, 3):
        concatenate = _ConcatenateGenericAlias(origin, parameters,
                                        _typevar_types=(TypeVar, ParamSpec),
                                        _paramspec_tvars=True)
    else:
        concatenate = _ConcatenateGenericAlias(origin, parameters)
    if parameters[-1] is not _EllipsisDummy:
        return concatenate
    # Remove dummy again
    concatenate.__args__ = tuple(p if p is not _EllipsisDummy else ...
                                    for p in concatenate.__args__)
    if sys.version_info < (3, 10):
        # backport needs __args__ adjustment only
        return concatenate
    concatenate.__parameters__ = tuple(p for p in concatenate.__parameters__
                                        if p is not _EllipsisDummy)
    return concatenate


# <=3.10
@typing._tp_cache
def _concatenate_getitem(self, parameters):
    if parameters == ():
        raise TypeError("Cannot take a Concatenate of no types.")
    if not isinstance(parameters, tuple):
        parameters = (parameters,)
    if not (parameters[-1] is ... or isinstance(parameters[-1], ParamSpec)):
        raise TypeError("The last parameter to Concatenate should be a "
                        "ParamSpec variable or ellipsis.")
    msg = "Concatenate[arg, ...]: each arg must be a type."
    parameters = (*(typing._type_check(p, msg) for p in parameters[:-1]),
                    parameters[-1])
    return _create_concatenate_alias(self, parameters)


# 3.11+; Concatenate does not accept ellipsis in 3.10
# Breakpoint: https://github.com/python/cpython/pull/30969
if sys.version_info >= (3, 11):
    Concatenate = typing.Concatenate
# <=3.10
else:
    @_ExtensionsSpecialForm
    def Concatenate(self, parameters):
        """Used in conjunction with ``ParamSpec`` and ``Callable`` to represent a
        higher order function which adds, removes or transforms parameters of a
        callable.

        For example::

           Callable[Concatenate[int, P], int]

        See PEP 612 for detailed information.
        """
        return _concatenate_getitem(self, parameters)


# 3.10+
if hasattr(typing, 'TypeGuard'):
    TypeGuard = typing.TypeGuard
# 3.9
else:
    @_ExtensionsSpecialForm
    def TypeGuard(self, parameters):
        """Special typing form used to annotate the return type of a user-defined
        type guard function.  ``TypeGuard`` only accepts a single type argument.
        At runtime, functions marked this way should return a boolean.

        ``TypeGuard`` aims to benefit *type narrowing* -- a technique used by static
        type checkers to determine a more precise type of an expression within a
        program's code flow.  Usually type narrowing is done by analyzing
        conditional code flow and applying the narrowing to a block of code.  The
        conditional expression here is sometimes referred to as a "type guard".

        Sometimes it would be convenient to use a user-defined boolean function
        as a type guard.  Such a function should use ``TypeGuard[...]`` as its
        return type to alert static type checkers to this intention.

        Using  ``-> TypeGuard`` tells the static type checker that for a given
        function:

        1. The return value is a boolean.
        2. If the return value is ``True``, the type of its argument
        is the type inside ``TypeGuard``.

        For example::

            def is_str(val: Union[str, float]):
                # "isinstance" type guard
                if isinstance(val, str):
                    # Type of ``val`` is narrowed to ``str``
                    ...
                else:
                    # Else, type of ``val`` is narrowed to ``float``.
                    ...

        Strict type narrowing is not enforced -- ``TypeB`` need not be a narrower
        form of ``TypeA`` (it can even be a wider form) and this may lead to
        type-unsafe results.  The main reason is to allow for things like
        narrowing ``List[object]`` to ``List[str]`` even though the latter is not
        a subtype of the former, since ``List`` is invariant.  The responsibility of
        writing type-safe type guards is left to the user.

        ``TypeGuard`` also works with type variables.  For more information, see
        PEP 647 (User-Defined Type Guards).
        """
        item = typing._type_check(parameters, f'{self} accepts only a single type.')
        return typing._GenericAlias(self, (item,))


# 3.13+
if hasattr(typing, 'TypeIs'):
    TypeIs = typing.TypeIs
# <=3.12
else:
    @_ExtensionsSpecialForm
    def TypeIs(self, parameters):
        """Special typing form used to annotate the return type of a user-defined
        type narrower function.  ``TypeIs`` only accepts a single type argument.
        At runtime, functions marked this way should return a boolean.

        ``TypeIs`` aims to benefit *type narrowing* -- a technique used by static
        type checkers to determine a more precise type of an expression within a
        program's code flow.  Usually type narrowing is done by analyzing
        conditional code flow and applying the narrowing to a block of code.  The
        conditional expression here is sometimes referred to as a "type guard".

        Sometimes it would be convenient to use a user-defined boolean function
        as a type guard.  Such a function should use ``TypeIs[...]`` as its
        return type to alert static type checkers to this intention.

        Using  ``-> TypeIs`` tells the static type checker that for a given
        function:

        1. The return value is a boolean.
        2. If the return value is ``True``, the type of its argument
        is the intersection of the type inside ``TypeIs`` and the argument's
        previously known type.

        For example::

            def is_awaitable(val: object) -> TypeIs[Awaitable[Any]]:
                return hasattr(val, '__await__')

            def f(val: Union[int, Awaitable[int]]) -> int:
                if is_awaitable(val):
                    assert_type(val, Awaitable[int])
                else:
                    assert_type(val, int)

        ``TypeIs`` also works with type variables.  For more information, see
        PEP 742 (Narrowing types with TypeIs).
        """
        item = typing._type_check(parameters, f'{self} accepts only a single type.')
        return typing._GenericAlias(self, (item,))


# 3.15+?
if hasattr(typing, 'TypeForm'):
    TypeForm = typing.TypeForm
# <=3.14
else:
    class _TypeFormForm(_ExtensionsSpecialForm, _root=True):
        # TypeForm(X) is equivalent to X but indicates to the type checker
        # that the object is a TypeForm.
        def __call__(self, obj, /):
            return obj

    @_TypeFormForm
    def TypeForm(self, parameters):
        """A special form representing the value that results from the evaluation
        of a type expression. This value encodes the information supplied in the
        type expression, and it represents the type described by that type expression.

        When used in a type expression, TypeForm describes a set of type form objects.
        It accepts a single type argument, which must be a valid type expression.
        ``TypeForm[T]`` describes the set of all type form objects that represent
        the type T or types that are assignable to T.

        Usage:

            def cast[T](typ: TypeForm[T], value: Any) -> T: ...

            reveal_type(cast(int, "x"))  # int

        See PEP 747 for more information.
        """
        item = typing._type_check(parameters, f'{self} accepts only a single type.')
        return typing._GenericAlias(self, (item,))




if hasattr(typing, "LiteralString"):  # 3.11+
    LiteralString = typing.LiteralString
else:
    @_SpecialForm
    def LiteralString(self, params):
        """Represents an arbitrary literal string.

        Example::

          from typing_extensions import LiteralString

          def query(sql: LiteralString) -> ...:
              ...

          query("SELECT * FROM table")  # ok
          query(f"SELECT * FROM {input()}")  # not ok

        See PEP 675 for details.

        """
        raise TypeError(f"{self} is not subscriptable")


if hasattr(typing, "Self"):  # 3.11+
    Self = typing.Self
else:
    @_SpecialForm
    def Self(self, params):
        """Used to spell the type of "self" in classes.

        Example::

          from typing import Self

          class ReturnsSelf:
              def parse(self, data: bytes) -> Self:
                  ...
                  return self

        """

        raise TypeError(f"{self} is not subscriptable")


if hasattr(typing, "Never"):  # 3.11+
    Never = typing.Never
else:
    @_SpecialForm
    def Never(self, params):
        """The bottom type, a type that has no members.

        This can be used to define a function that should never be
        called, or a function that never returns::

            from typing_extensions import Never

            def never_call_me(arg: Never) -> None:
                pass

            def int_or_str(arg: int | str) -> None:
                never_call_me(arg)  # type checker error
                match arg:
                    case int():
                        print("It's an int")
                    case str():
                        print("It's a str")
                    case _:
                        never_call_me(arg)  # ok, arg is of type Never

        """

        raise TypeError(f"{self} is not subscriptable")


if hasattr(typing, 'Required'):  # 3.11+
    Required = typing.Required
    NotRequired = typing.NotRequired
else:  # <=3.10
    @_ExtensionsSpecialForm
    def Required(self, parameters):
        """A special typing construct to mark a key of a total=False TypedDict
        as required. For example:

            class Movie(TypedDict, total=False):
                title: Required[str]
                year: int

            m = Movie(
                title='The Matrix',  # typechecker error if key is omitted
                year=1999,
            )

        There is no runtime checking that a required key is actually provided
        when instantiating a related TypedDict.
        """
        item = typing._type_check(parameters, f'{self._name} accepts only a single type.')
        return typing._GenericAlias(self, (item,))

    @_ExtensionsSpecialForm
    def NotRequired(self, parameters):
        """A special typing construct to mark a key of a TypedDict as
        potentially missing. For example:

            class Movie(TypedDict):
                title: str
                year: NotRequired[int]

            m = Movie(
                title='The Matrix',  # typechecker error if key is omitted
                year=1999,
            )
        """
        item = typing._type_check(parameters, f'{self._name} accepts only a single type.')
        return typing._GenericAlias(self, (item,))


if hasattr(typing, 'ReadOnly'):
    ReadOnly = typing.ReadOnly
else:  # <=3.12
    @_ExtensionsSpecialForm
    def ReadOnly(self, parameters):
        """A special typing construct to mark an item of a TypedDict as read-only.

        For example:

            class Movie(TypedDict):
                title: ReadOnly[str]
                year: int

            def mutate_movie(m: Movie) -> None:
                m["year"] = 1992  # allowed
                m["title"] = "The Matrix"  # typechecker error

        There is no runtime checking for this property.
        """
        item = typing._type_check(parameters, f'{self._name} accepts only a single type.')
        return typing._GenericAlias(self, (item,))


_UNPACK_DOC = """\
Type unpack operator.

The type unpack operator takes the child types from some container type,
such as `tuple[int, str]` or a `TypeVarTuple`, and 'pulls them out'. For
example:

  # For some generic class `Foo`:
  Foo[Unpack[tuple[int, str]]]  # Equivalent to Foo[int, str]

  Ts = TypeVarTuple('Ts')
  # Specifies that `Bar` is generic in an arbitrary number of types.
  # (Think of `Ts` as a tuple of an arbitrary number of individual
  #  `TypeVar`s, which the `Unpack` is 'pulling out' directly into the
  #  `Generic[]`.)
  class Bar(Generic[Unpack[Ts]]): ...
  Bar[int]  # Valid
  Bar[int, str]  # Also valid

From Python 3.11, this can also be done using the `*` operator:

    Foo[*tuple[int, str]]
    class Bar(Generic[*Ts]): ...

The operator can also be used along with a `TypedDict` to annotate
`**kwargs` in a function signature. For instance:

  class Movie(TypedDict):
    name: str
    year: int

  # This function expects two keyword arguments - *name* of type `str` and
  # *year* of type `int`.
  def foo(**kwargs: Unpack[Movie]): ...

Note that there is only some runtime checking of this operator. Not
everything the runtime allows may be accepted by static type checkers.

For more information, see PEP 646 and PEP 692.
"""


# PEP 692 changed the repr of Unpack[]
# Breakpoint: https://github.com/python/cpython/pull/104048
if sys.version_info >= (3, 12):
    Unpack = typing.Unpack

    def _is_unpack(obj):
        return get_origin(obj) is Unpack

else:  # <=3.11
    class _UnpackSpecialForm(_ExtensionsSpecialForm, _root=True):
        def __init__(self, getitem):
            super().__init__(getitem)
            self.__doc__ = _UNPACK_DOC

    class _UnpackAlias(typing._GenericAlias, _root=True):
        if sys.version_info < (3, 11):
            # needed for compatibility with Generic[Unpack[Ts]]
            __class__ = typing.TypeVar

        @property
        def __typing_unpacked_tuple_args__(self):
            assert self.__origin__ is Unpack
            assert len(self.__args__) == 1
            arg, = self.__args__
            if isinstance(arg, (typing._GenericAlias, _types.GenericAlias)):
                if arg.__origin__ is not tuple:
                    raise TypeError("Unpack[...] must be used with a tuple type")
                return arg.__args__
            return None

        @property
        def __typing_is_unpacked_typevartuple__(self):
            assert self.__origin__ is Unpack
            assert len(self.__args__) == 1
            return isinstance(self.__args__[0], TypeVarTuple)

        def __getitem__(self, args):
            if self.__typing_is_unpacked_typevartuple__:
                return args
            # Cannot use `super().__getitem__` here because of the `__class__` assignment
            # in the class body on Python <=3.11
            # (https://github.com/python/typing_extensions/issues/661)
            return typing._GenericAlias.__getitem__(self, args)

    @_UnpackSpecialForm
    def Unpack(self, parameters):
        item = typing._type_check(parameters, f'{self._name} accepts only a single type.')
        return _UnpackAlias(self, (item,))

    def _is_unpack(obj):
        return isinstance(obj, _UnpackAlias)


def _unpack_args(*args):
    newargs = []
    for arg in args:
        subargs = getattr(arg, '__typing_unpacked_tuple_args__', None)
        if subargs is not None and (not (subargs and subargs[-1] is ...)):
            newargs.extend(subargs)
        else:
            newargs.append(arg)
    return newargs


if sys.version_info >= (3, 15):
    from typing import TypeVarTuple

elif hasattr(typing, "TypeVarTuple"):  # 3.11+

    # Add default parameter - PEP 696 and bound/variance parameters
    class TypeVarTuple(metaclass=_TypeVarLikeMeta):
        """Type variable tuple."""

        _backported_typevarlike = typing.TypeVarTuple

        def __new__(cls, name, *, bound=None,
                    covariant=False, contravariant=False,
                    infer_variance=False, default=NoDefault):

            if _PEP_696_IMPLEMENTED:
                # can pass default argument
                tvt = typing.TypeVarTuple(name, default=default)
            else:
                tvt = typing.TypeVarTuple(name)
                _set_default(tvt, default)

            tvt.__bound__ = bound
            tvt.__covariant__ = bool(covariant)
            tvt.__contravariant__ = bool(contravariant)
            tvt.__infer_variance__ = bool(infer_variance)

            _set_module(tvt)

            def _typevartuple_prepare_subst(alias, args):
                params = alias.__parameters__
                typevartuple_index = params.index(tvt)
                for param in params[typevartuple_index + 1:]:
                    if isinstance(param, TypeVarTuple):
                        raise TypeError(
                            f"More than one TypeVarTuple parameter in {alias}"
                        )

                alen = len(args)
                plen = len(params)
                left = typevartuple_index
                right = plen - typevartuple_index - 1
                var_tuple_index = None
                fillarg = None
                for k, arg in enumerate(args):
                    if not isinstance(arg, type):
                        subargs = getattr(arg, '__typing_unpacked_tuple_args__', None)
                        if subargs and len(subargs) == 2 and subargs[-1] is ...:
                            if var_tuple_index is not None:
                                raise TypeError(
                                    "More than one unpacked "
                                    "arbitrary-length tuple argument"
                                )
                            var_tuple_index = k
                            fillarg = subargs[0]
                if var_tuple_index is not None:
                    left = min(left, var_tuple_index)
                    right = min(right, alen - var_tuple_index - 1)
                elif left + right > alen:
                    raise TypeError(f"Too few arguments for {alias};"
                                    f" actual {alen}, expected at least {plen - 1}")
                if left == alen - right and tvt.has_default():
                    replacement = _unpack_args(tvt.__default__)
                else:
                    replacement = args[left: alen - right]

                return (
                    *args[:left],
                    *([fillarg] * (typevartuple_index - left)),
                    replacement,
                    *([fillarg] * (plen - right - left - typevartuple_index - 1)),
                    *args[alen - right:],
                )

            tvt.__typing_prepare_subst__ = _typevartuple_prepare_subst
            return tvt

        def __init_subclass__(self, *args, **kwds):
            raise TypeError("Cannot subclass special typing classes")

else:  # <=3.10
    class TypeVarTuple(_DefaultMixin):
        """Type variable tuple.

        Usage::

            Ts = TypeVarTuple('Ts')

        In the same way that a normal type variable is a stand-in for a single
        type such as ``int``, a type variable *tuple* is a stand-in for a *tuple*
        type such as ``Tuple[int, str]``.

        Type variable tuples can be used in ``Generic`` declarations.
        Consider the following example::

            class Array(Generic[*Ts]): ...

        The ``Ts`` type variable tuple here behaves like ``tuple[T1, T2]``,
        where ``T1`` and ``T2`` are type variables. To use these type variables
        as type parameters of ``Array``, we must *unpack* the type variable tuple using
        the star operator: ``*Ts``. The signature of ``Array`` then behaves
        as if we had simply written ``class Array(Generic[T1, T2]): ...``.
        In contrast to ``Generic[T1, T2]``, however, ``Generic[*Shape]`` allows
        us to parameterise the class with an *arbitrary* number of type parameters.

        Type variable tuples can be used anywhere a normal ``TypeVar`` can.
        This includes class definitions, as shown above, as well as function
        signatures and variable annotations::

            class Array(Generic[*Ts]):

                def __init__(self, shape: Tuple[*Ts]):
                    self._shape: Tuple[*Ts] = shape

                def get_shape(self) -> Tuple[*Ts]:
                    return self._shape

            shape = (Height(480), Width(640))
            x: Array[Height, Width] = Array(shape)
            y = abs(x)  # Inferred type is Array[Height, Width]
            z = x + x   #        ...    is Array[Height, Width]
            x.get_shape()  #     ...    is tuple[Height, Width]

        """

        # Trick Generic __parameters__.
        __class__ = typing.TypeVar

        def __iter__(self):
            yield self.__unpacked__

        def __init__(self, name, *, bound=None, covariant=False, contravariant=False,
                     infer_variance=False, default=NoDefault):
            self.__name__ = name
            self.__covariant__ = bool(covariant)
            self.__contravariant__ = bool(contravariant)
            self.__infer_variance__ = bool(infer_variance)
            self.__bound__ = bound
            _DefaultMixin.__init__(self, default)

            # for pickling:
            def_mod = _caller()
            if def_mod != 'typing_extensions':
                self.__module__ = def_mod

            self.__unpacked__ = Unpack[self]

        def __repr__(self):
            if self.__infer_variance__:
                prefix = ''
            elif self.__covariant__:
                prefix = '+'
            elif self.__contravariant__:
                prefix = '-'
            else:
                prefix = '~'
            return prefix + self.__name__

        def __hash__(self):
            return object.__hash__(self)

        def __eq__(self, other):
            return self is other

        def __reduce__(self):
            return self.__name__

        def __init_subclass__(self, *args, **kwds):
            if '_root' not in kwds:
                raise TypeError("Cannot subclass special typing classes")


if hasattr(typing, "reveal_type"):  # 3.11+
    reveal_type = typing.reveal_type
else:  # <=3.10
    def reveal_type(obj: T, /) -> T:
        """Reveal the inferred type of a variable.

        When a static type checker encounters a call to ``reveal_type()``,
        it will emit the inferred type of the argument::

            x: int = 1
            reveal_type(x)

        Running a static type checker (e.g., ``mypy``) on this example
        will produce output similar to 'Revealed type is "builtins.int"'.

        At runtime, the function prints the runtime type of the
        argument and returns it unchanged.

        """
        print(f"Runtime type is {type(obj).__name__!r}", file=sys.stderr)
        return obj


if hasattr(typing, "_ASSERT_NEVER_REPR_MAX_LENGTH"):  # 3.11+
    _ASSERT_NEVER_REPR_MAX_LENGTH = typing._ASSERT_NEVER_REPR_MAX_LENGTH
else:  # <=3.10
    _ASSERT_NEVER_REPR_MAX_LENGTH = 100


if hasattr(typing, "assert_never"):  # 3.11+
    assert_never = typing.assert_never
else:  # <=3.10
    def assert_never(arg: Never, /) -> Never:
        """Assert to the type checker that a line of code is unreachable.

        Example::

            def int_or_str(arg: int | str) -> None:
                match arg:
                    case int():
                        print("It's an int")
                    case str():
                        print("It's a str")
                    case _:
                        assert_never(arg)

        If a type checker finds that a call to assert_never() is
        reachable, it will emit an error.

        At runtime, this throws an exception when called.

        """
        value = repr(arg)
        if len(value) > _ASSERT_NEVER_REPR_MAX_LENGTH:
            value = value[:_ASSERT_NEVER_REPR_MAX_LENGTH] + '...'
        raise AssertionError(f"Expected code to be unreachable, but got: {value}")


# dataclass_transform exists in 3.11 but lacks the frozen_default parameter
# Breakpoint: https://github.com/python/cpython/pull/99958
if sys.version_info >= (3, 12):  # 3.12+
    dataclass_transform = typing.dataclass_transform
else:  # <=3.11
    def dataclass_transform(
        *,
        eq_default: bool = True,
        order_default: bool = False,
        kw_only_default: bool = False,
        frozen_default: bool = False,
        field_specifiers: typing.Tuple[
            typing.Union[typing.Type[typing.Any], typing.Callable[..., typing.Any]],
            ...
        ] = (),
        **kwargs: typing.Any,
    ) -> typing.Callable[[T], T]:
        """Decorator that marks a function, class, or metaclass as providing
        dataclass-like behavior.

        Example:

            from typing_extensions import dataclass_transform

            _T = TypeVar("_T")

            # Used on a decorator function
            @dataclass_transform()
            def create_model(cls: type[_T]) -> type[_T]:
                ...
                return cls

            @create_model
            class CustomerModel:
                id: int
                name: str

            # Used on a base class
            @dataclass_transform()
            class ModelBase: ...

            class CustomerModel(ModelBase):
                id: int
                name: str

            # Used on a metaclass
            @dataclass_transform()
            class ModelMeta(type): ...

            class ModelBase(metaclass=ModelMeta): ...

            class CustomerModel(ModelBase):
                id: int
                name: str

        Each of the ``CustomerModel`` classes defined in this example will now
        behave similarly to a dataclass created with the ``@dataclasses.dataclass``
        decorator. For example, the type checker will synthesize an ``__init__``
        method.

        The arguments to this decorator can be used to customize this behavior:
        - ``eq_default`` indicates whether the ``eq`` parameter is assumed to be
          True or False if it is omitted by the caller.
        - ``order_default`` indicates whether the ``order`` parameter is
          assumed to be True or False if it is omitted by the caller.
        - ``kw_only_default`` indicates whether the ``kw_only`` parameter is
          assumed to be True or False if it is omitted by the caller.
        - ``frozen_default`` indicates whether the ``frozen`` parameter is
          assumed to be True or False if it is omitted by the caller.
        - ``field_specifiers`` specifies a static list of supported classes
          or functions that describe fields, similar to ``dataclasses.field()``.

        At runtime, this decorator records its arguments in the
        ``__dataclass_transform__`` attribute on the decorated object.

        See PEP 681 for details.

        """
        def decorator(cls_or_fn):
            cls_or_fn.__dataclass_transform__ = {
                "eq_default": eq_default,
                "order_default": order_default,
                "kw_only_default": kw_only_default,
                "frozen_default": frozen_default,
                "field_specifiers": field_specifiers,
                "kwargs": kwargs,
            }
            return cls_or_fn
        return decorator


if hasattr(typing, "override"):  # 3.12+
    override = typing.override
else:  # <=3.11
    _F = typing.TypeVar("_F", bound=typing.Callable[..., typing.Any])

    def override(arg: _F, /) -> _F:
        """Indicate that a method is intended to override a method in a base class.

        Usage:

            class Base:
                def method(self) -> None:
                    pass

            class Child(Base):
                @override
                def method(self) -> None:
                    super().method()

        When this decorator is applied to a method, the type checker will
        validate that it overrides a method with the same name on a base class.
        This helps prevent bugs that may occur when a base class is changed
        without an equivalent change to a child class.

        There is no runtime checking of these properties. The decorator
        sets the ``__override__`` attribute to ``True`` on the decorated object
        to allow runtime introspection.

        See PEP 698 for details.

        """
        try:
            arg.__override__ = True
        except (AttributeError, TypeError):
            # Skip the attribute silently if it is not writable.
            # AttributeError happens if the object has __slots__ or a
            # read-only property, TypeError if it's a builtin class.
            pass
        return arg


# Python 3.13.8+ and 3.14.1+ contain a fix for the wrapped __init_subclass__
# Breakpoint: https://github.com/python/cpython/pull/138210
if ((3, 13, 8) <= sys.version_info < (3, 14)) or sys.version_info >= (3, 14, 1):
    deprecated = warnings.deprecated
else:
    _T = typing.TypeVar("_T")

    class deprecated:
        """Indicate that a class, function or overload is deprecated.

        When this decorator is applied to an object, the type checker
        will generate a diagnostic on usage of the deprecated object.

        Usage:

            @deprecated("Use B instead")
            class A:
                pass

            @deprecated("Use g instead")
            def f():
                pass

            @overload
            @deprecated("int support is deprecated")
            def g(x: int) -> int: ...
            @overload
            def g(x: str) -> int: ...

        The warning specified by *category* will be emitted at runtime
        on use of deprecated objects. For functions, that happens on calls;
        for classes, on instantiation and on creation of subclasses.
        If the *category* is ``None``, no warning is emitted at runtime.
        The *stacklevel* determines where the
        warning is emitted. If it is ``1`` (the default), the warning
        is emitted at the direct caller of the deprecated object; if it
        is higher, it is emitted further up the stack.
        Static type checker behavior is not affected by the *category*
        and *stacklevel* arguments.

        The deprecation message passed to the decorator is saved in the
        ``__deprecated__`` attribute on the decorated object.
        If applied to an overload, the decorator
        must be after the ``@overload`` decorator for the attribute to
        exist on the overload as returned by ``get_overloads()``.

        See PEP 702 for details.

        """
        def __init__(
            self,
            message: str,
            /,
            *,
            category: typing.Optional[typing.Type[Warning]] = DeprecationWarning,
            stacklevel: int = 1,
        ) -> None:
            if not isinstance(message, str):
                raise TypeError(
                    "Expected an object of type str for 'message', not "
                    f"{type(message).__name__!r}"
                )
            self.message = message
            self.category = category
            self.stacklevel = stacklevel

        def __call__(self, arg: _T, /) -> _T:
            # Make sure the inner functions created below don't
            # retain a reference to self.
            msg = self.message
            category = self.category
            stacklevel = self.stacklevel
            if category is None:
                arg.__deprecated__ = msg
                return arg
            elif isinstance(arg, type):
                import functools
                from types import MethodType

                original_new = arg.__new__

                @functools.wraps(original_new)
                def __new__(cls, /, *args, **kwargs):
                    if cls is arg:
                        warnings.warn(msg, category=category, stacklevel=stacklevel + 1)
                    if original_new is not object.__new__:
                        return original_new(cls, *args, **kwargs)
                    # Mirrors a similar check in object.__new__.
                    elif cls.__init__ is object.__init__ and (args or kwargs):
                        raise TypeError(f"{cls.__name__}() takes no arguments")
                    else:
                        return original_new(cls)

                arg.__new__ = staticmethod(__new__)

                if "__init_subclass__" in arg.__dict__:
                    # __init_subclass__ is directly present on the decorated class.
                    # Synthesize a wrapper that calls this method directly.
                    original_init_subclass = arg.__init_subclass__
                    # We need slightly different behavior if __init_subclass__
                    # is a bound method (likely if it was implemented in Python).
                    # Otherwise, it likely means it's a builtin such as
                    # object's implementation of __init_subclass__.
                    if isinstance(original_init_subclass, MethodType):
                        original_init_subclass = original_init_subclass.__func__

                    @functools.wraps(original_init_subclass)
                    def __init_subclass__(*args, **kwargs):
                        warnings.warn(msg, category=category, stacklevel=stacklevel + 1)
                        return original_init_subclass(*args, **kwargs)
                else:
                    def __init_subclass__(cls, *args, **kwargs):
                        warnings.warn(msg, category=category, stacklevel=stacklevel + 1)
                        return super(arg, cls).__init_subclass__(*args, **kwargs)

                arg.__init_subclass__ = classmethod(__init_subclass__)

                arg.__deprecated__ = __new__.__deprecated__ = msg
                __init_subclass__.__deprecated__ = msg
                return arg
            elif callable(arg):
                import functools
                import inspect

                @functools.wraps(arg)
                def wrapper(*args, **kwargs):
                    warnings.warn(msg, category=category, stacklevel=stacklevel + 1)
                    return arg(*args, **kwargs)

                if inspect.iscoroutinefunction(arg):
                    # Breakpoint: https://github.com/python/cpython/pull/99247
                    if sys.version_info >= (3, 12):
                        wrapper = inspect.markcoroutinefunction(wrapper)
                    else:
                        import asyncio.coroutines

                        wrapper._is_coroutine = asyncio.coroutines._is_coroutine

                arg.__deprecated__ = wrapper.__deprecated__ = msg
                return wrapper
            else:
                raise TypeError(
                    "@deprecated decorator with non-None category must be applied to "
                    f"a class or callable, not {arg!r}"
                )

# Breakpoint: https://github.com/python/cpython/pull/23702
if sys.version_info < (3, 10):
    def _is_param_expr(arg):
        return arg is ... or isinstance(
            arg, (tuple, list, ParamSpec, _ConcatenateGenericAlias)
        )
else:
    def _is_param_expr(arg):
        return arg is ... or isinstance(
            arg,
            (
                tuple,
                list,
                ParamSpec,
                _ConcatenateGenericAlias,
                typing._ConcatenateGenericAlias,
            ),
        )


# We have to do some monkey patching to deal with the dual nature of
# Unpack/TypeVarTuple:
# - We want Unpack to be a kind of TypeVar so it gets accepted in
#   Generic[Unpack[Ts]]
# - We want it to *not* be treated as a TypeVar for the purposes of
#   counting generic parameters, so that when we subscript a generic,
#   the runtime doesn't try to substitute the Unpack with the subscripted type.
if not hasattr(typing, "TypeVarTuple"):
    def _check_generic(cls, parameters, elen=_marker):
        """Check correct count for parameters of a generic cls (internal helper).

        This gives a nice error message in case of count mismatch.
        """
        # If substituting a single ParamSpec with multiple arguments
        # we do not check the count
        if (inspect.isclass(cls) and issubclass(cls, typing.Generic)
            and len(cls.__parameters__) == 1
            and isinstance(cls.__parameters__[0], ParamSpec)
            and parameters
            and not _is_param_expr(parameters[0])
        ):
            # Generic modifies parameters variable, but here we cannot do this
            return

        if not elen:
            raise TypeError(f"{cls} is not a generic class")
        if elen is _marker:
            if not hasattr(cls, "__parameters__") or not cls.__parameters__:
                raise TypeError(f"{cls} is not a generic class")
            elen = len(cls.__parameters__)
        alen = len(parameters)
        if alen != elen:
            expect_val = elen
            if hasattr(cls, "__parameters__"):
                parameters = [p for p in cls.__parameters__ if not _is_unpack(p)]
                num_tv_tuples = sum(isinstance(p, TypeVarTuple) for p in parameters)
                if (num_tv_tuples > 0) and (alen >= elen - num_tv_tuples):
                    return

                # deal with TypeVarLike defaults
                # required TypeVarLikes cannot appear after a defaulted one.
                if alen < elen:
                    # since we validate TypeVarLike default in _collect_type_vars
                    # or _collect_parameters we can safely check parameters[alen]
                    if (
                        getattr(parameters[alen], '__default__', NoDefault)
                        is not NoDefault
                    ):
                        return

                    num_default_tv = sum(getattr(p, '__default__', NoDefault)
                                         is not NoDefault for p in parameters)

                    elen -= num_default_tv

                    expect_val = f"at least {elen}"

            # Breakpoint: https://github.com/python/cpython/pull/27515
            things = "arguments" if sys.version_info >= (3, 10) else "parameters"
            raise TypeError(f"Too {'many' if alen > elen else 'few'} {things}"
                            f" for {cls}; actual {alen}, expected {expect_val}")
else:
    # Python 3.11+

    def _check_generic(cls, parameters, elen):
        """Check correct count for parameters of a generic cls (internal helper).

        This gives a nice error message in case of count mismatch.
        """
        if not elen:
            raise TypeError(f"{cls} is not a generic class")
        alen = len(parameters)
        if alen != elen:
            expect_val = elen
            if hasattr(cls, "__parameters__"):
                parameters = [p for p in cls.__parameters__ if not _is_unpack(p)]

                # deal with TypeVarLike defaults
                # required TypeVarLikes cannot appear after a defaulted one.
                if alen < elen:
                    # since we validate TypeVarLike default in _collect_type_vars
                    # or _collect_parameters we can safely check parameters[alen]
                    if (
                        getattr(parameters[alen], '__default__', NoDefault)
                        is not NoDefault
                    ):
                        return

                    num_default_tv = sum(getattr(p, '__default__', NoDefault)
                                         is not NoDefault for p in parameters)

                    elen -= num_default_tv

                    expect_val = f"at least {elen}"

            raise TypeError(f"Too {'many' if alen > elen else 'few'} arguments"
                            f" for {cls}; actual {alen}, expected {expect_val}")

if not _PEP_696_IMPLEMENTED:
    typing._check_generic = _check_generic


def _has_generic_or_protocol_as_origin() -> bool:
    try:
        frame = sys._getframe(2)
    # - Catch AttributeError: not all Python implementations have sys._getframe()
    # - Catch ValueError: maybe we're called from an unexpected module
    #   and the call stack isn't deep enough
    except (AttributeError, ValueError):
        return False  # err on the side of leniency
    else:
        # If we somehow get invoked from outside typing.py,
        # also err on the side of leniency
        if frame.f_globals.get("__name__") != "typing":
            return False
        origin = frame.f_locals.get("origin")
        # Cannot use "in" because origin may be an object with a buggy __eq__ that
        # throws an error.
        return origin is typing.Generic or origin is Protocol or origin is typing.Protocol


_TYPEVARTUPLE_TYPES = {TypeVarTuple, getattr(typing, "TypeVarTuple", None)}


def _is_unpacked_typevartuple(x) -> bool:
    if get_origin(x) is not Unpack:
        return False
    args = get_args(x)
    return (
        bool(args)
        and len(args) == 1
        and type(args[0]) in _TYPEVARTUPLE_TYPES
    )


# Python 3.11+ _collect_type_vars was renamed to _collect_parameters
if hasattr(typing, '_collect_type_vars'):
    def _collect_type_vars(types, typevar_types=None):
        """Collect all type variable contained in types in order of
        first appearance (lexicographic order). For example::

            _collect_type_vars((T, List[S, T])) == (T, S)
        """
        if typevar_types is None:
            typevar_types = typing.TypeVar
        tvars = []

        # A required TypeVarLike cannot appear after a TypeVarLike with a default
        # if it was a direct call to `Generic[]` or `Protocol[]`
        enforce_default_ordering = _has_generic_or_protocol_as_origin()
        default_encountered = False

        # Also, a TypeVarLike with a default cannot appear after a TypeVarTuple
        type_var_tuple_encountered = False

        for t in types:
            if _is_unpacked_typevartuple(t):
                type_var_tuple_encountered = True
            elif (
                isinstance(t, typevar_types) and not isinstance(t, _UnpackAlias)
                and t not in tvars
            ):
                if enforce_default_ordering:
                    has_default = getattr(t, '__default__', NoDefault) is not NoDefault
                    if has_default:
                        if type_var_tuple_encountered:
                            raise TypeError('Type parameter with a default'
                                            ' follows TypeVarTuple')
                        default_encountered = True
                    elif default_encountered:
                        raise TypeError(f'Type parameter {t!r} without a default'
                                        ' follows type parameter with a default')

                tvars.append(t)
            if _should_collect_from_parameters(t):
                tvars.extend([t for t in t.__parameters__ if t not in tvars])
            elif isinstance(t, tuple):
                # Collect nested type_vars
                # tuple wrapped by  _prepare_paramspec_params(cls, params)
                for x in t:
                    for collected in _collect_type_vars([x]):
                        if collected not in tvars:
                            tvars.append(collected)
        return tuple(tvars)

    typing._collect_type_vars = _collect_type_vars
else:
    def _collect_parameters(args):
        """Collect all type variables and parameter specifications in args
        in order of first appearance (lexicographic order).

        For example::

            assert _collect_parameters((T, Callable[P, T])) == (T, P)
        """
        parameters = []

        # A required TypeVarLike cannot appear after a TypeVarLike with default
        # if it was a direct call to `Generic[]` or `Protocol[]`
        enforce_default_ordering = _has_generic_or_protocol_as_origin()
        default_encountered = False

        # Also, a TypeVarLike with a default cannot appear after a TypeVarTuple
        type_var_tuple_encountered = False

        for t in args:
            if isinstance(t, type):
                # We don't want __parameters__ descriptor of a bare Python class.
                pass
            elif isinstance(t, tuple):
                # `t` might be a tuple, when `ParamSpec` is substituted with
                # `[T, int]`, or `[int, *Ts]`, etc.
                for x in t:
                    for collected in _collect_parameters([x]):
                        if collected not in parameters:
                            parameters.append(collected)
            elif hasattr(t, '__typing_subst__'):
                if t not in parameters:
                    if enforce_default_ordering:
                        has_default = (
                            getattr(t, '__default__', NoDefault) is not NoDefault
                        )

                        if type_var_tuple_encountered and has_default:
                            raise TypeError('Type parameter with a default'
                                            ' follows TypeVarTuple')

                        if has_default:
                            default_encountered = True
                        elif default_encountered:
                            raise TypeError(f'Type parameter {t!r} without a default'
                                            ' follows type parameter with a default')

                    parameters.append(t)
            else:
                if _is_unpacked_typevartuple(t):
                    type_var_tuple_encountered = True
                for x in getattr(t, '__parameters__', ()):
                    if x not in parameters:
                        parameters.append(x)

        return tuple(parameters)

    if not _PEP_696_IMPLEMENTED:
        typing._collect_parameters = _collect_parameters

# Backport typing.NamedTuple as it exists in Python 3.13.
# In 3.11, the ability to define generic `NamedTuple`s was supported.
# This was explicitly disallowed in 3.9-3.10, and only half-worked in <=3.8.
# On 3.12, we added __orig_bases__ to call-based NamedTuples
# On 3.13, we deprecated kwargs-based NamedTuples
# Breakpoint: https://github.com/python/cpython/pull/105609
if sys.version_info >= (3, 13):
    NamedTuple = typing.NamedTuple
else:
    def _make_nmtuple(name, types, module, defaults=()):
        fields = [n for n, t in types]
        annotations = {n: typing._type_check(t, f"field {n} annotation must be a type")
                       for n, t in types}
        nm_tpl = collections.namedtuple(name, fields,
                                        defaults=defaults, module=module)
        nm_tpl.__annotations__ = nm_tpl.__new__.__annotations__ = annotations
        return nm_tpl

    _prohibited_namedtuple_fields = typing._prohibited
    _special_namedtuple_fields = frozenset({'__module__', '__name__', '__annotations__'})

    class _NamedTupleMeta(type):
        def __new__(cls, typename, bases, ns):
            assert _NamedTuple in bases
            for base in bases:
                if base is not _NamedTuple and base is not typing.Generic:
                    raise TypeError(
                        'can only inherit from a NamedTuple type and Generic')
            bases = tuple(tuple if base is _NamedTuple else base for base in bases)
            if "__annotations__" in ns:
                types = ns["__annotations__"]
            elif "__annotate__" in ns:
                # TODO: Use inspect.VALUE here, and make the annotations lazily evaluated
                types = ns["__annotate__"](1)
            else:
                types = {}
            default_names = []
            for field_name in types:
                if field_name in ns:
                    default_names.append(field_name)
                elif default_names:
                    raise TypeError(f"Non-default namedtuple field {field_name} "
                                    f"cannot follow default field"
                                    f"{'s' if len(default_names) > 1 else ''} "
                                    f"{', '.join(default_names)}")
            nm_tpl = _make_nmtuple(
                typename, types.items(),
                defaults=[ns[n] for n in default_names],
                module=ns['__module__']
            )
            nm_tpl.__bases__ = bases
            if typing.Generic in bases:
                if hasattr(typing, '_generic_class_getitem'):  # 3.12+
                    nm_tpl.__class_getitem__ = classmethod(typing._generic_class_getitem)
                else:
                    class_getitem = typing.Generic.__class_getitem__.__func__
                    nm_tpl.__class_getitem__ = classmethod(class_getitem)
            # update from user namespace without overriding special namedtuple attributes
            for key, val in ns.items():
                if key in _prohibited_namedtuple_fields:
                    raise AttributeError("Cannot overwrite NamedTuple attribute " + key)
                elif key not in _special_namedtuple_fields:
                    if key not in nm_tpl._fields:
                        setattr(nm_tpl, key, ns[key])
                    try:
                        set_name = type(val).__set_name__
                    except AttributeError:
                        pass
                    else:
                        try:
                            set_name(val, nm_tpl, key)
                        except BaseException as e:
                            msg = (
                                f"Error calling __set_name__ on {type(val).__name__!r} "
                                f"instance {key!r} in {typename!r}"
                            )
                            # BaseException.add_note() existed on py311,
                            # but the __set_name__ machinery didn't start
                            # using add_note() until py312.
                            # Making sure exceptions are raised in the same way
                            # as in "normal" classes seems most important here.
                            # Breakpoint: https://github.com/python/cpython/pull/95915
                            if sys.version_info >= (3, 12):
                                e.add_note(msg)
                                raise
                            else:
                                raise RuntimeError(msg) from e

            if typing.Generic in bases:
                nm_tpl.__init_subclass__()
            return nm_tpl

    _NamedTuple = type.__new__(_NamedTupleMeta, 'NamedTuple', (), {})

    def _namedtuple_mro_entries(bases):
        assert NamedTuple in bases
        return (_NamedTuple,)

    def NamedTuple(typename, fields=_marker, /, **kwargs):
        """Typed version of namedtuple.

        Usage::

            class Employee(NamedTuple):
                name: str
                id: int

        This is equivalent to::

            Employee = collections.namedtuple('Employee', ['name', 'id'])

        The resulting class has an extra __annotations__ attribute, giving a
        dict that maps field names to types.  (The field names are also in
        the _fields attribute, which is part of the namedtuple API.)
        An alternative equivalent functional syntax is also accepted::

            Employee = NamedTuple('Employee', [('name', str), ('id', int)])
        """
        if fields is _marker:
            if kwargs:
                deprecated_thing = "Creating NamedTuple classes using keyword arguments"
                deprecation_msg = (
                    "{name} is deprecated and will be disallowed in Python {remove}. "
                    "Use the class-based or functional syntax instead."
                )
            else:
                deprecated_thing = "Failing to pass a value for the 'fields' parameter"
                example = f"`{typename} = NamedTuple({typename!r}, [])`"
                deprecation_msg = (
                    "{name} is deprecated and will be disallowed in Python {remove}. "
                    "To create a NamedTuple class with 0 fields "
                    "using the functional syntax, "
                    "pass an empty list, e.g. "
                ) + example + "."
        elif fields is None:
            if kwargs:
                raise TypeError(
                    "Cannot pass `None` as the 'fields' parameter "
                    "and also specify fields using keyword arguments"
                )
            else:
                deprecated_thing = "Passing `None` as the 'fields' parameter"
                example = f"`{typename} = NamedTuple({typename!r}, [])`"
                deprecation_msg = (
                    "{name} is deprecated and will be disallowed in Python {remove}. "
                    "To create a NamedTuple class with 0 fields "
                    "using the functional syntax, "
                    "pass an empty list, e.g. "
                ) + example + "."
        elif kwargs:
            raise TypeError("Either list of fields or keywords"
                            " can be provided to NamedTuple, not both")
        if fields is _marker or fields is None:
            warnings.warn(
                deprecation_msg.format(name=deprecated_thing, remove="3.15"),
                DeprecationWarning,
                stacklevel=2,
            )
            fields = kwargs.items()
        nt = _make_nmtuple(typename, fields, module=_caller())
        nt.__orig_bases__ = (NamedTuple,)
        return nt

    NamedTuple.__mro_entries__ = _namedtuple_mro_entries


if hasattr(collections.abc, "Buffer"):
    Buffer = collections.abc.Buffer
else:
    class Buffer(abc.ABC):  # noqa: B024
        """Base class for classes that implement the buffer protocol.

        The buffer protocol allows Python objects to expose a low-level
        memory buffer interface. Before Python 3.12, it is not possible
        to implement the buffer protocol in pure Python code, or even
        to check whether a class implements the buffer protocol. In
        Python 3.12 and higher, the ``__buffer__`` method allows access
        to the buffer protocol from Python code, and the
        ``collections.abc.Buffer`` ABC allows checking whether a class
        implements the buffer protocol.

        To indicate support for the buffer protocol in earlier versions,
        inherit from this ABC, either in a stub file or at runtime,
        or use ABC registration. This ABC provides no methods, because
        there is no Python-accessible methods shared by pre-3.12 buffer
        classes. It is useful primarily for static checks.

        """

    # As a courtesy, register the most common stdlib buffer classes.
    Buffer.register(memoryview)
    Buffer.register(bytearray)
    Buffer.register(bytes)


# Backport of types.get_original_bases, available on 3.12+ in CPython
if hasattr(_types, "get_original_bases"):
    get_original_bases = _types.get_original_bases
else:
    def get_original_bases(cls, /):
        """Return the class's "original" bases prior to modification by `__mro_entries__`.

        Examples::

            from typing import TypeVar, Generic
            from typing_extensions import NamedTuple, TypedDict

            T = TypeVar("T")
            class Foo(Generic[T]): ...
            class Bar(Foo[int], float): ...
            class Baz(list[str]): ...
            Eggs = NamedTuple("Eggs", [("a", int), ("b", str)])
            Spam = TypedDict("Spam", {"a": int, "b": str})

            assert get_original_bases(Bar) == (Foo[int], float)
            assert get_original_bases(Baz) == (list[str],)
            assert get_original_bases(Eggs) == (NamedTuple,)
            assert get_original_bases(Spam) == (TypedDict,)
            assert get_original_bases(int) == (object,)
        """
        try:
            return cls.__dict__.get("__orig_bases__", cls.__bases__)
        except AttributeError:
            raise TypeError(
                f'Expected an instance of type, not {type(cls).__name__!r}'
            ) from None


# NewType is a class on Python 3.10+, making it pickleable
# The error message for subclassing instances of NewType was improved on 3.11+
# Breakpoint: https://github.com/python/cpython/pull/30268
if sys.version_info >= (3, 11):
    NewType = typing.NewType
else:
    class NewType:
        """NewType creates simple unique types with almost zero
        runtime overhead. NewType(name, tp) is considered a subtype of tp
        by static type checkers. At runtime, NewType(name, tp) returns
        a dummy callable that simply returns its argument. Usage::
            UserId = NewType('UserId', int)
            def name_by_id(user_id: UserId) -> str:
                ...
            UserId('user')          # Fails type check
            name_by_id(42)          # Fails type check
            name_by_id(UserId(42))  # OK
            num = UserId(5) + 1     # type: int
        """

        def __call__(self, obj, /):
            return obj

        def __init__(self, name, tp):
            self.__qualname__ = name
            if '.' in name:
                name = name.rpartition('.')[-1]
            self.__name__ = name
            self.__supertype__ = tp
            def_mod = _caller()
            if def_mod != 'typing_extensions':
                self.__module__ = def_mod

        def __mro_entries__(self, bases):
            # We defined __mro_entries__ to get a better error message
            # if a user attempts to subclass a NewType instance. bpo-46170
            supercls_name = self.__name__

            class Dummy:
                def __init_subclass__(cls):
                    subcls_name = cls.__name__
                    raise TypeError(
                        f"Cannot subclass an instance of NewType. "
                        f"Perhaps you were looking for: "
                        f"`{subcls_name} = NewType({subcls_name!r}, {supercls_name})`"
                    )

            return (Dummy,)

        def __repr__(self):
            return f'{self.__module__}.{self.__qualname__}'

        def __reduce__(self):
            return self.__qualname__

        # Breakpoint: https://github.com/python/cpython/pull/21515
        if sys.version_info >= (3, 10):
            # PEP 604 methods
            # It doesn't make sense to have these methods on Python <3.10

            def __or__(self, other):
                return typing.Union[self, other]

            def __ror__(self, other):
                return typing.Union[other, self]


# Breakpoint: https://github.com/python/cpython/pull/149172
if sys.version_info >= (3, 15):
    TypeAliasType = typing.TypeAliasType
# <=3.14
else:
    # Breakpoint: https://github.com/python/cpython/pull/103764
    if sys.version_info >= (3, 12):
        # 3.12-3.14
        def _is_unionable(obj):
            """Corresponds to is_unionable() in unionobject.c in CPython."""
            return obj is None or isinstance(obj, (
                type,
                _types.GenericAlias,
                _types.UnionType,
                typing.TypeAliasType,
                TypeAliasType,
            ))
    else:
        # <=3.11
        def _is_unionable(obj):
            """Corresponds to is_unionable() in unionobject.c in CPython."""
            return obj is None or isinstance(obj, (
                type,
                _types.GenericAlias,
                _types.UnionType,
                TypeAliasType,
            ))

    if sys.version_info < (3, 10):
        # Copied and pasted from https://github.com/python/cpython/blob/986a4e1b6fcae7fe7a1d0a26aea446107dd58dd2/Objects/genericaliasobject.c#L568-L582,
        # so that we emulate the behaviour of `types.GenericAlias`
        # on the latest versions of CPython
        _ATTRIBUTE_DELEGATION_EXCLUSIONS = frozenset({
            "__class__",
            "__bases__",
            "__origin__",
            "__args__",
            "__unpacked__",
            "__parameters__",
            "__typing_unpacked_tuple_args__",
            "__mro_entries__",
            "__reduce_ex__",
            "__reduce__",
            "__copy__",
            "__deepcopy__",
        })

        class _TypeAliasGenericAlias(typing._GenericAlias, _root=True):
            def __getattr__(self, attr):
                if attr in _ATTRIBUTE_DELEGATION_EXCLUSIONS:
                    return object.__getattr__(self, attr)
                return getattr(self.__origin__, attr)


    class TypeAliasType:
        """Create named, parameterized type aliases.

        This provides a backport of the new `type` statement in Python 3.12:

            type ListOrSet[T] = list[T] | set[T]

        is equivalent to:

            T = TypeVar("T")
            ListOrSet = TypeAliasType("ListOrSet", list[T] | set[T], type_params=(T,))

        The name ListOrSet can then be used as an alias for the type it refers to.

        The type_params argument should contain all the type parameters used
        in the value of the type alias. If the alias is not generic, this
        argument is omitted.

        Static type checkers should only support type aliases declared using
        TypeAliasType that follow these rules:

        - The first argument (the name) must be a string literal.
        - The TypeAliasType instance must be immediately assigned to a variable
          of the same name. (For example, 'X = TypeAliasType("Y", int)' is invalid,
          as is 'X, Y = TypeAliasType("X", int), TypeAliasType("Y", int)').

        """

        def __init__(self, name: str, value, *, type_params=()):
            if not isinstance(name, str):
                raise TypeError("TypeAliasType name must be a string")
            if not isinstance(type_params, tuple):
                raise TypeError("type_params must be a tuple")
            self.__value__ = value
            self.__type_params__ = type_params

            default_value_encountered = False
            parameters = []
            for type_param in type_params:
                if (
                    not isinstance(type_param, (TypeVar, TypeVarTuple, ParamSpec))
                    # <=3.11
                    # Unpack Backport passes isinstance(type_param, TypeVar)
                    or _is_unpack(type_param)
                ):
                    raise TypeError(f"Expected a type param, got {type_param!r}")
                has_default = (
                    getattr(type_param, '__default__', NoDefault) is not NoDefault
                )
                if default_value_encountered and not has_default:
                    raise TypeError(f"non-default type parameter '{type_param!r}'"
                                    " follows default type parameter")
                if has_default:
                    default_value_encountered = True
                if isinstance(type_param, TypeVarTuple):
                    parameters.extend(type_param)
                else:
                    parameters.append(type_param)
            self.__parameters__ = tuple(parameters)
            def_mod = _caller()
            if def_mod != 'typing_extensions':
                self.__module__ = def_mod
            # Setting this attribute closes the TypeAliasType from further modification
            self.__name__ = name

        def __setattr__(self, name: str, value: object, /) -> None:
            if hasattr(self, "__name__") and name != "__module__":
                self._raise_attribute_error(name)
            super().__setattr__(name, value)

        def __delattr__(self, name: str, /) -> Never:
            self._raise_attribute_error(name)

        def _raise_attribute_error(self, name: str) -> Never:
            # Match the Python 3.12 error messages exactly
            if name == "__name__":
                raise AttributeError("readonly attribute")
            elif name in {"__value__", "__type_params__", "__parameters__"}:
                raise AttributeError(
                    f"attribute '{name}' of 'typing.TypeAliasType' objects "
                    "is not writable"
                )
            else:
                raise AttributeError(
                    f"'typing.TypeAliasType' object has no attribute '{name}'"
                )

        def __repr__(self) -> str:
            return self.__name__

        if sys.version_info < (3, 11):
            def _check_single_param(self, param, recursion=0):
                # Allow [], [int], [int, str], [int, ...], [int, T]
                if param is ...:
                    return ...
                if param is None:
                    return None
                # Note in <= 3.9 _ConcatenateGenericAlias inherits from list
                if isinstance(param, list) and recursion == 0:
                    return [self._check_single_param(arg, recursion+1)
                            for arg in param]
                return typing._type_check(
                        param, f'Subscripting {self.__name__} requires a type.'
                    )

        def _check_parameters(self, parameters):
            if sys.version_info < (3, 11):
                return tuple(
                    self._check_single_param(item)
                    for item in parameters
                )
            return tuple(typing._type_check(
                        item, f'Subscripting {self.__name__} requires a type.'
                    )
                    for item in parameters
            )

        def __getitem__(self, parameters):
            if not self.__type_params__:
                raise TypeError("Only generic type aliases are subscriptable")
            if not isinstance(parameters, tuple):
                parameters = (parameters,)
            # Using 3.9 here will create problems with Concatenate
            if sys.version_info >= (3, 10):
                return _types.GenericAlias(self, parameters)
            type_vars = _collect_type_vars(parameters)
            parameters = self._check_parameters(parameters)
            alias = _TypeAliasGenericAlias(self, parameters)
            # alias.__parameters__ is not complete if Concatenate is present
            # as it is converted to a list from which no parameters are extracted.
            if alias.__parameters__ != type_vars:
                alias.__parameters__ = type_vars
            return alias

        def __reduce__(self):
            return self.__name__

        def __init_subclass__(cls, *args, **kwargs):
            raise TypeError(
                "type 'typing_extensions.TypeAliasType' is not an acceptable base type"
            )

        # The presence of this method convinces typing._type_check
        # that TypeAliasTypes are types.
        def __call__(self):
            raise TypeError("Type alias is not callable")

        # Breakpoint: https://github.com/python/cpython/pull/21515
        if sys.version_info >= (3, 10):
            def __or__(self, right):
                # For forward compatibility with 3.12, reject Unions
                # that are not accepted by the built-in Union.
                if not _is_unionable(right):
                    return NotImplemented
                return typing.Union[self, right]

            def __ror__(self, left):
                if not _is_unionable(left):
                    return NotImplemented
                return typing.Union[left, self]


if hasattr(typing, "is_protocol"):
    is_protocol = typing.is_protocol
    get_protocol_members = typing.get_protocol_members
else:
    def is_protocol(tp: type, /) -> bool:
        """Return True if the given type is a Protocol.

        Example::

            >>> from typing_extensions import Protocol, is_protocol
            >>> class P(Protocol):
            ...     def a(self) -> str: ...
            ...     b: int
            >>> is_protocol(P)
            True
            >>> is_protocol(int)
            False
        """
        return (
            isinstance(tp, type)
            and getattr(tp, '_is_protocol', False)
            and tp is not Protocol
            and tp is not typing.Protocol
        )

    def get_protocol_members(tp: type, /) -> typing.FrozenSet[str]:
        """Return the set of members defined in a Protocol.

        Example::

            >>> from typing_extensions import Protocol, get_protocol_members
            >>> class P(Protocol):
            ...     def a(self) -> str: ...
            ...     b: int
            >>> get_protocol_members(P) == frozenset({'a', 'b'})
            True

        Raise a TypeError for arguments that are not Protocols.
        """
        if not is_protocol(tp):
            raise TypeError(f'{tp!r} is not a Protocol')
        if hasattr(tp, '__protocol_attrs__'):
            return frozenset(tp.__protocol_attrs__)
        return frozenset(_get_protocol_attrs(tp))


if hasattr(typing, "Doc"):
    Doc = typing.Doc
else:
    class Doc:
        """Define the documentation of a type annotation using ``Annotated``, to be
         used in class attributes, function and method parameters, return values,
         and variables.

        The value should be a positional-only string literal to allow static tools
        like editors and documentation generators to use it.

        This complements docstrings.

        The string value passed is available in the attribute ``documentation``.

        Example::

            >>> from typing_extensions import Annotated, Doc
            >>> def hi(to: Annotated[str, Doc("Who to say hi to")]) -> None: ...
        """
        def __init__(self, documentation: str, /) -> None:
            self.documentation = documentation

        def __repr__(self) -> str:
            return f"Doc({self.documentation!r})"

        def __hash__(self) -> int:
            return hash(self.documentation)

        def __eq__(self, other: object) -> bool:
            if not isinstance(other, Doc):
                return NotImplemented
            return self.documentation == other.documentation


_CapsuleType = getattr(_types, "CapsuleType", None)

if _CapsuleType is None:
    try:
        import _socket
    except ImportError:
        pass
    else:
        _CAPI = getattr(_socket, "CAPI", None)
        if _CAPI is not None:
            _CapsuleType = type(_CAPI)

if _CapsuleType is not None:
    CapsuleType = _CapsuleType
    __all__.append("CapsuleType")


if sys.version_info >= (3, 14):
    from annotationlib import Format, get_annotations
else:
    # Available since Python 3.14.0a3
    # PR: https://github.com/python/cpython/pull/124415
    class Format(enum.IntEnum):
        VALUE = 1
        VALUE_WITH_FAKE_GLOBALS = 2
        FORWARDREF = 3
        STRING = 4

    # Available since Python 3.14.0a1
    # PR: https://github.com/python/cpython/pull/119891
    def get_annotations(obj, *, globals=None, locals=None, eval_str=False,
                        format=Format.VALUE):
        """Compute the annotations dict for an object.

        obj may be a callable, class, or module.
        Passing in an object of any other type raises TypeError.

        Returns a dict.  get_annotations() returns a new dict every time
        it's called; calling it twice on the same object will return two
        different but equivalent dicts.

        This is a backport of `inspect.get_annotations`, which has been
        in the standard library since Python 3.10. See the standard library
        documentation for more:

            https://docs.python.org/3/library/inspect.html#inspect.get_annotations

        This backport adds the *format* argument introduced by PEP 649. The
        three formats supported are:
        * VALUE: the annotations are returned as-is. This is the default and
          it is compatible with the behavior on previous Python versions.
        * FORWARDREF: return annotations as-is if possible, but replace any
          undefined names with ForwardRef objects. The implementation proposed by
          PEP 649 relies on language changes that cannot be backported; the
          typing-extensions implementation simply returns the same result as VALUE.
        * STRING: return annotations as strings, in a format close to the original
          source. Again, this behavior cannot be replicated directly in a backport.
          As an approximation, typing-extensions retrieves the annotations under
          VALUE semantics and then stringifies them.

        The purpose of this backport is to allow users who would like to use
        FORWARDREF or STRING semantics once PEP 649 is implemented, but who also
        want to support earlier Python versions, to simply write:

            typing_extensions.get_annotations(obj, format=Format.FORWARDREF)

        """
        format = Format(format)
        if format is Format.VALUE_WITH_FAKE_GLOBALS:
            raise ValueError(
                "The VALUE_WITH_FAKE_GLOBALS format is for internal use only"
            )

        if eval_str and format is not Format.VALUE:
            raise ValueError("eval_str=True is only supported with format=Format.VALUE")

        if isinstance(obj, type):
            # class
            obj_dict = getattr(obj, '__dict__', None)
            if obj_dict and hasattr(obj_dict, 'get'):
                ann = obj_dict.get('__annotations__', None)
                if isinstance(ann, _types.GetSetDescriptorType):
                    ann = None
            else:
                ann = None

            obj_globals = None
            module_name = getattr(obj, '__module__', None)
            if module_name:
                module = sys.modules.get(module_name, None)
                if module:
                    obj_globals = getattr(module, '__dict__', None)
            obj_locals = dict(vars(obj))
            unwrap = obj
        elif isinstance(obj, _types.ModuleType):
            # module
            ann = getattr(obj, '__annotations__', None)
            obj_globals = obj.__dict__
            obj_locals = None
            unwrap = None
        elif callable(obj):
            # this includes types.Function, types.BuiltinFunctionType,
            # types.BuiltinMethodType, functools.partial, functools.singledispatch,
            # "class funclike" from Lib/test/test_inspect... on and on it goes.
            ann = getattr(obj, '__annotations__', None)
            obj_globals = getattr(obj, '__globals__', None)
            obj_locals = None
            unwrap = obj
        elif hasattr(obj, '__annotations__'):
            ann = obj.__annotations__
            obj_globals = obj_locals = unwrap = None
        else:
            raise TypeError(f"{obj!r} is not a module, class, or callable.")

        if ann is None:
            return {}

        if not isinstance(ann, dict):
            raise ValueError(f"{obj!r}.__annotations__ is neither a dict nor None")

        if not ann:
            return {}

        if not eval_str:
            if format is Format.STRING:
                return {
                    key: value if isinstance(value, str) else typing._type_repr(value)
                    for key, value in ann.items()
                }
            return dict(ann)

        if unwrap is not None:
            while True:
                if hasattr(unwrap, '__wrapped__'):
                    unwrap = unwrap.__wrapped__
                    continue
                if isinstance(unwrap, functools.partial):
                    unwrap = unwrap.func
                    continue
                break
            if hasattr(unwrap, "__globals__"):
                obj_globals = unwrap.__globals__

        if globals is None:
            globals = obj_globals
        if locals is None:
            locals = obj_locals or {}

        # "Inject" type parameters into the local namespace
        # (unless they are shadowed by assignments *in* the local namespace),
        # as a way of emulating annotation scopes when calling `eval()`
        if type_params := getattr(obj, "__type_params__", ()):
            locals = {param.__name__: param for param in type_params} | locals

        return_value = {key:
            value if not isinstance(value, str) else eval(value, globals, locals)
            for key, value in ann.items() }
        return return_value


if hasattr(typing, "evaluate_forward_ref"):
    evaluate_forward_ref = typing.evaluate_forward_ref
else:
    # Implements annotationlib.ForwardRef.evaluate
    def _eval_with_owner(
        forward_ref, *, owner=None, globals=None, locals=None, type_params=None
    ):
        if forward_ref.__forward_evaluated__:
            return forward_ref.__forward_value__
        if getattr(forward_ref, "__cell__", None) is not None:
            try:
                value = forward_ref.__cell__.cell_contents
            except ValueError:
                pass
            else:
                forward_ref.__forward_evaluated__ = True
                forward_ref.__forward_value__ = value
                return value
        if owner is None:
            owner = getattr(forward_ref, "__owner__", None)

        if (
            globals is None
            and getattr(forward_ref, "__forward_module__", None) is not None
        ):
            globals = getattr(
                sys.modules.get(forward_ref.__forward_module__, None), "__dict__", None
            )
        if globals is None:
            globals = getattr(forward_ref, "__globals__", None)
        if globals is None:
            if isinstance(owner, type):
                module_name = getattr(owner, "__module__", None)
                if module_name:
                    module = sys.modules.get(module_name, None)
                    if module:
                        globals = getattr(module, "__dict__", None)
            elif isinstance(owner, _types.ModuleType):
                globals = getattr(owner, "__dict__", None)
            elif callable(owner):
                globals = getattr(owner, "__globals__", None)

        # If we pass None to eval() below, the globals of this module are used.
        if globals is None:
            globals = {}

        if locals is None:
            locals = {}
            if isinstance(owner, type):
                locals.update(vars(owner))

        if type_params is None and owner is not None:
            # "Inject" type parameters into the local namespace
            # (unless they are shadowed by assignments *in* the local namespace),
            # as a way of emulating annotation scopes when calling `eval()`
            type_params = getattr(owner, "__type_params__", None)

        # Type parameters exist in their own scope, which is logically
        # between the locals and the globals. We simulate this by adding
        # them to the globals.
        if type_params is not None:
            globals = dict(globals)
            for param in type_params:
                globals[param.__name__] = param

        arg = forward_ref.__forward_arg__
        if arg.isidentifier() and not keyword.iskeyword(arg):
            if arg in locals:
                value = locals[arg]
            elif arg in globals:
                value = globals[arg]
            elif hasattr(builtins, arg):
                return getattr(builtins, arg)
            else:
                raise NameError(arg)
        else:
            code = forward_ref.__forward_code__
            value = eval(code, globals, locals)
        forward_ref.__forward_evaluated__ = True
        forward_ref.__forward_value__ = value
        return value

    def evaluate_forward_ref(
        forward_ref,
        *,
        owner=None,
        globals=None,
        locals=None,
        type_params=None,
        format=None,
        _recursive_guard=frozenset(),
    ):
        """Evaluate a forward reference as a type hint.

        This is similar to calling the ForwardRef.evaluate() method,
        but unlike that method, evaluate_forward_ref() also:

        * Recursively evaluates forward references nested within the type hint.
        * Rejects certain objects that are not valid type hints.
        * Replaces type hints that evaluate to None with types.NoneType.
        * Supports the *FORWARDREF* and *STRING* formats.

        *forward_ref* must be an instance of ForwardRef. *owner*, if given,
        should be the object that holds the annotations that the forward reference
        derived from, such as a module, class object, or function. It is used to
        infer the namespaces to use for looking up names. *globals* and *locals*
        can also be explicitly given to provide the global and local namespaces.
        *type_params* is a tuple of type parameters that are in scope when
        evaluating the forward reference. This parameter must be provided (though
        it may be an empty tuple) if *owner* is not given and the forward reference
        does not already have an owner set. *format* specifies the format of the
        annotation and is a member of the annotationlib.Format enum.

        """
        if format == Format.STRING:
            return forward_ref.__forward_arg__
        if forward_ref.__forward_arg__ in _recursive_guard:
            return forward_ref

        # Evaluate the forward reference
        try:
            value = _eval_with_owner(
                forward_ref,
                owner=owner,
                globals=globals,
                locals=locals,
                type_params=type_params,
            )
        except NameError:
            if format == Format.FORWARDREF:
                return forward_ref
            else:
                raise

        if isinstance(value, str):
            value = ForwardRef(value)

        # Recursively evaluate the type
        if isinstance(value, ForwardRef):
            if getattr(value, "__forward_module__", True) is not None:
                globals = None
            return evaluate_forward_ref(
                value,
                globals=globals,
                locals=locals,
                 type_params=type_params, owner=owner,
                _recursive_guard=_recursive_guard, format=format
            )
        if sys.version_info < (3, 12, 5) and type_params:
            # Make use of type_params
            locals = dict(locals) if locals else {}
            for tvar in type_params:
                if tvar.__name__ not in locals:  # lets not overwrite something present
                    locals[tvar.__name__] = tvar
        if sys.version_info < (3, 12, 5):
            return typing._eval_type(
                value,
                globals,
                locals,
                recursive_guard=_recursive_guard | {forward_ref.__forward_arg__},
            )
        else:
            return typing._eval_type(
                value,
                globals,
                locals,
                type_params,
                recursive_guard=_recursive_guard | {forward_ref.__forward_arg__},
            )


if sys.version_info >= (3, 14, 0, "beta"):
    type_repr = annotationlib.type_repr
else:
    def type_repr(value):
        """Convert a Python value to a format suitable for use with the STRING format.

        This is intended as a helper for tools that support the STRING format but do
        not have access to the code that originally produced the annotations. It uses
        repr() for most objects.

        """
        if isinstance(value, (type, _types.FunctionType, _types.BuiltinFunctionType)):
            if value.__module__ == "builtins":
                return value.__qualname__
            return f"{value.__module__}.{value.__qualname__}"
        if value is ...:
            return "..."
        return repr(value)


# Aliases for items that are in typing in all supported versions.
# We use hasattr() checks so this library will continue to import on
# future versions of Python that may remove these names.
_typing_names = [
    "AbstractSet",
    "AnyStr",
    "BinaryIO",
    "Callable",
    "Collection",
    "Container",
    "Dict",
    "FrozenSet",
    "Hashable",
    "IO",
    "ItemsView",
    "Iterable",
    "Iterator",
    "KeysView",
    "List",
    "Mapping",
    "MappingView",
    "Match",
    "MutableMapping",
    "MutableSequence",
    "MutableSet",
    "Optional",
    "Pattern",
    "Reversible",
    "Sequence",
    "Set",
    "Sized",
    "TextIO",
    "Tuple",
    "Union",
    "ValuesView",
    "cast",
    "no_type_check",
    # This is private, but it was defined by typing_extensions for a long time
    # and some users rely on it.
    "_AnnotatedAlias",
]

# Breakpoint: https://github.com/python/cpython/pull/133602
if sys.version_info < (3, 15, 0):
    _typing_names.append("no_type_check_decorator")
    __all__.append("no_type_check_decorator")

globals().update(
    {name: getattr(typing, name) for name in _typing_names if hasattr(typing, name)}
)
# These are defined unconditionally because they are used in
# typing-extensions itself.
Generic = typing.Generic
ForwardRef = typing.ForwardRef
Annotated = typing.Annotated
