"""C08 helpers (pure Python >= 3.9, imported by harness/c08.py and by the sub-interpreter script
c08_sub.py): random `as`-target trees, program builder (layouts x items), Gallina printing,
site extraction from code objects (BEFORE_WITH -> store sequence, independent of the
implementation's skip logic), runtime leg (suspend in the body, stackscope.extract, ast oracle)."""
import ast
import dis
import json
import random
import sys

PY = sys.version_info[:2]

# ------------------------------------------------------------------ name pools (see PROLOGUE)
OBJ_NAMES = [("fast", "lo"), ("fast", "ld"), ("fast", "lf"), ("check", "lq"),
             ("deref", "co"), ("deref", "cf"), ("global", "go"), ("global", "gd"), ("global", "gf")]
INT_NAMES = [("fast", "n0"), ("global", "gn")]
STORE_NAMES = [("fast", n) for n in "abcpqrst"] + [("global", "GS0"), ("global", "GS1"),
                                                   ("deref", "CS0"), ("deref", "CS1")]
ATTRS = ["x", "y", "val", "attr", "q_1"]
CONSTS = ["0", "1", "7", "-1", "300", "'k'", '"it\'s"', "'a\"b'", "None", "True", "1.5", "b'x'",
          "(1, 2)", "1+2j", "'w' 'z'", "'\\xe9'", "..."]

PROLOGUE = [
    "global GS0, GS1",
    "lo = U(); ld = U(); lf = U(); n0 = 1; sa = ()",
    "co = U(); cf = U(); CS0 = CS1 = None",
    "_cap = lambda: (co, cf, CS0, CS1)",
    "if gTrue: lq = U()",
]


def const_repr(src):
    """text the decompiler shows for a constant: its repr, "..." for Ellipsis"""
    v = ast.literal_eval(src)
    return "..." if v is Ellipsis else repr(v)


# ------------------------------------------------------------------ random trees
def g_name(rng, pool):
    k, s = rng.choice(pool)
    return ["name", k, s]


def g_const(rng):
    return ["const", rng.choice(CONSTS)]


def g_simple(rng):
    return g_const(rng) if rng.random() < 0.5 else g_name(rng, OBJ_NAMES + INT_NAMES)


def g_obj(rng, depth, callee=False):
    """supported object-valued expression; callee=True: must not be an attribute access"""
    r = rng.random()
    if depth <= 0 or r < 0.35:
        return g_name(rng, OBJ_NAMES)
    if r < 0.55 and not callee:
        return ["attr", g_obj(rng, depth - 1), rng.choice(ATTRS)]
    if r < 0.70:
        return ["sub", g_obj(rng, depth - 1), g_index(rng, depth - 1, True)]
    if r < 0.82:
        return ["call", g_obj(rng, depth - 1, callee=True), g_args(rng, depth - 1)]
    if r < 0.94:
        return ["mcall", g_obj(rng, depth - 1), rng.choice(ATTRS), g_args(rng, depth - 1)]
    return ["slice", g_obj(rng, depth - 1), g_bound(rng), g_bound(rng)]


def g_bound(rng):
    r = rng.random()
    if r < 0.3:
        return None
    return g_simple(rng)


def g_args(rng, depth):
    return [g_index(rng, depth, True) for _ in range(rng.choice([0, 1, 1, 2, 3]))]


def g_index(rng, depth, supported):
    r = rng.random()
    if not supported and r < 0.8:
        return g_unsup(rng, depth)
    if r < 0.7 or depth <= 0:
        return g_simple(rng)
    return g_obj(rng, depth)


def g_unsup(rng, depth):
    k = rng.choice(["binop", "binop", "tup", "walrus", "kwcall", "starcall", "neg", "cmp", "lst"])
    n = g_name(rng, INT_NAMES)
    if k == "binop":
        other = rng.choice([["const", "1"], g_name(rng, INT_NAMES)])
        subs = [n, other] if rng.random() < 0.5 else [other, n]
        return ["op", 1, subs, "({0} %s {1})" % rng.choice("+-*")]
    if k == "tup":
        return ["op", 5, [n, g_simple(rng)], "({0}, {1})"]
    if k == "walrus":
        return ["walrus", "fast", rng.choice(["w0", "w1"]), g_simple(rng)]
    if k == "kwcall":
        return ["callx", 3, g_obj(rng, depth - 1, callee=True), [g_simple(rng) for _ in range(rng.choice([1, 2]))]]
    if k == "starcall":
        return ["callx", 4, g_obj(rng, depth - 1, callee=True), [["name", "fast", "sa"]]]
    if k == "neg":
        return ["op", 0, [n], "(-{0})"]
    if k == "cmp":
        return ["op", 0, [n, ["const", "1"]], "({0} < {1})"]
    return ["op", 0, [n], "[{0}]"]


def g_target(rng, depth=2, supported=True, star_ok=True):
    r = rng.random()
    if r < 0.22:
        k, s = rng.choice(STORE_NAMES)
        return ["tname", k, s]
    if r < 0.40:
        return ["tattr", g_obj(rng, depth), rng.choice(ATTRS)] if supported or rng.random() < 0.5 else \
            ["tattr", g_unsup_obj(rng, depth), rng.choice(ATTRS)]
    if r < 0.60:
        return ["tsub", g_obj(rng, depth), g_index(rng, depth, supported)]
    if r < 0.68:
        if not supported and rng.random() < 0.6:
            return ["tsub", g_obj(rng, depth), ["op", 6, [g_b2(rng), g_b2(rng), g_b2(rng)], "{0}:{1}:{2}"]]
        return ["tslice", g_obj(rng, depth), g_bound(rng), g_bound(rng)]
    if depth <= 0:
        k, s = rng.choice(STORE_NAMES)
        return ["tname", k, s]
    br = rng.choice(["tuple", "tuple", "list"])
    if r < 0.86 or not star_ok:
        n = rng.choice([0, 1, 1, 2, 2, 3, 4])
        ts = [g_target(rng, depth - 1, True) for _ in range(n)]
        if not supported and ts:
            ts[rng.randrange(len(ts))] = g_target(rng, depth - 1, False)
        return ["ttuple", ts, br]
    b = [g_target(rng, depth - 1, True) for _ in range(rng.choice([0, 1, 2]))]
    a = [g_target(rng, depth - 1, True) for _ in range(rng.choice([0, 0, 1, 2]))]
    s = g_target(rng, depth - 1, supported, star_ok=False)
    return ["tstar", b, s, a, br]


def g_b2(rng):
    return g_simple(rng) if rng.random() < 0.7 else ["const", "None"]


def g_unsup_obj(rng, depth):
    return ["callx", rng.choice([3, 4]), g_obj(rng, depth - 1, callee=True),
            [["name", "fast", "sa"]]] if rng.random() < 0.5 else ["sub", g_obj(rng, depth - 1), g_unsup(rng, depth - 1)]


def fix_callx(t):
    """callx tag 3 = keyword call f(a, x=b): every arg is a value; tag 4 = f(*sa) one arg"""
    return t


# ------------------------------------------------------------------ tree -> source
def src_e(e):
    k = e[0]
    if k == "name":
        return e[2]
    if k == "const":
        return e[1]
    if k == "attr":
        return "%s.%s" % (src_prim(e[1]), e[2])
    if k == "sub":
        return "%s[%s]" % (src_prim(e[1]), src_index(e[2]))
    if k == "slice":
        return "%s[%s:%s]" % (src_prim(e[1]), "" if e[2] is None else src_e(e[2]), "" if e[3] is None else src_e(e[3]))
    if k == "call":
        return "%s(%s)" % (src_prim(e[1]), ", ".join(src_e(a) for a in e[2]))
    if k == "mcall":
        return "%s.%s(%s)" % (src_prim(e[1]), e[2], ", ".join(src_e(a) for a in e[3]))
    if k == "op":
        return e[3].format(*[src_e(s) for s in e[2]])
    if k == "walrus":
        return "(%s := %s)" % (e[2], src_e(e[3]))
    if k == "callx":
        if e[1] == 3:
            args = [src_e(a) for a in e[3]]
            args[-1] = "kw=" + args[-1]
            return "%s(%s)" % (src_prim(e[2]), ", ".join(args))
        return "%s(*%s)" % (src_prim(e[2]), src_e(e[3][0]))
    raise ValueError(k)


def src_index(e):
    return src_e(e)


def src_prim(e):
    s = src_e(e)
    if e[0] == "const":
        return "(%s)" % s
    return s


def src_t(t, ml=False):
    """ml: spread a bracketed target over several lines"""
    k = t[0]
    if k == "tname":
        return t[2]
    if k == "tattr":
        return "%s.%s" % (src_prim(t[1]), t[2])
    if k == "tsub":
        return "%s[%s%s]" % (src_prim(t[1]), "\n          " if ml else "", src_e(t[2]))
    if k == "tslice":
        return "%s[%s:%s]" % (src_prim(t[1]), "" if t[2] is None else src_e(t[2]), "" if t[3] is None else src_e(t[3]))
    sep = ",\n          " if ml else ", "
    if k == "ttuple":
        parts = [src_t(x) for x in t[1]]
        br = t[2]
    else:
        parts = [src_t(x) for x in t[1]] + ["*" + src_t(t[2])] + [src_t(x) for x in t[3]]
        br = t[4]
    if br == "list":
        return "[" + sep.join(parts) + "]"
    return "(" + sep.join(parts) + ("," if len(parts) == 1 else "") + ")"


def shape(t):
    """source of a value that can be assigned to target t"""
    k = t[0]
    if k == "ttuple":
        return "[" + ", ".join(shape(x) for x in t[1]) + "]"
    if k == "tstar":
        s = t[2]
        mid = [shape(x) for x in s[1]] if s[0] == "ttuple" else ["0", "0"]
        return "[" + ", ".join([shape(x) for x in t[1]] + mid + [shape(x) for x in t[3]]) + "]"
    return "0"


# ------------------------------------------------------------------ tree -> Gallina
def enc(s):
    """ASCII-printable, per-character (so it commutes with concatenation)"""
    out = []
    for ch in s:
        o = ord(ch)
        if 32 <= o < 127 and ch != "\\":
            out.append(ch)
        else:
            out.append("\\u%04x;" % o)
    return "".join(out)


def cstr(s):
    return '"' + enc(s).replace('"', '""') + '"'


KIND = {"fast": "KFast", "global": "KGlobal", "deref": "KDeref", "name": "KName", "check": "KFastCheck"}


def clist(xs):
    return "[" + "; ".join(xs) + "]"


def coq_e(e):
    k = e[0]
    if k == "name":
        return "(EName %s %s)" % (KIND[e[1]], cstr(e[2]))
    if k == "const":
        return "(EConst %s)" % cstr(const_repr(e[1]))
    if k == "attr":
        return "(EAttr %s %s)" % (coq_e(e[1]), cstr(e[2]))
    if k == "sub":
        return "(ESubscr %s %s)" % (coq_e(e[1]), coq_e(e[2]))
    if k == "slice":
        return "(ESlice %s %s %s)" % (coq_e(e[1]), coq_b(e[2]), coq_b(e[3]))
    if k == "call":
        return "(ECall %s %s)" % (coq_e(e[1]), clist(coq_e(a) for a in e[2]))
    if k == "mcall":
        return "(EMCall %s %s %s)" % (coq_e(e[1]), cstr(e[2]), clist(coq_e(a) for a in e[3]))
    if k == "op":
        return "(EOp %d %s)" % (e[1], clist(coq_b(s) for s in e[2]))
    if k == "walrus":
        return "(EWalrus %s %s %s)" % (KIND[e[1]], cstr(e[2]), coq_e(e[3]))
    if k == "callx":
        return "(ECallX %d %s %s)" % (e[1], coq_e(e[2]), clist(coq_e(a) for a in e[3]))
    raise ValueError(k)


def coq_b(e):
    return '(EConst "None")' if e is None else coq_e(e)


def coq_t(t):
    k = t[0]
    if k == "tname":
        return "(TName %s %s)" % (KIND[t[1]], cstr(t[2]))
    if k == "tattr":
        return "(TAttr %s %s)" % (coq_e(t[1]), cstr(t[2]))
    if k == "tsub":
        return "(TSubscr %s %s)" % (coq_e(t[1]), coq_e(t[2]))
    if k == "tslice":
        return "(TSlice %s %s %s)" % (coq_e(t[1]), coq_b(t[2]), coq_b(t[3]))
    if k == "ttuple":
        return "(TTuple %s)" % clist(coq_t(x) for x in t[1])
    if k == "tstar":
        return "(TStar %s %s %s)" % (clist(coq_t(x) for x in t[1]), coq_t(t[2]), clist(coq_t(x) for x in t[3]))
    raise ValueError(k)


def coq_opt_t(t):
    return "None" if t is None else "(Some %s)" % coq_t(t)


def coq_dres(v):
    if v is None:
        return "DNone"
    if v == "<missing>":
        return "DFuel"
    return "(DSome %s)" % cstr(v)


def supported_e(e, slices=True):
    if e is None:
        return True
    k = e[0]
    if k in ("name", "const"):
        return True
    if k == "attr":
        return supported_e(e[1], slices)
    if k == "sub":
        return supported_e(e[1], slices) and supported_e(e[2], slices)
    if k == "slice":
        return slices and all(supported_e(x, slices) for x in e[1:4])
    if k == "call":
        return supported_e(e[1], slices) and all(supported_e(a, slices) for a in e[2])
    if k == "mcall":
        return supported_e(e[1], slices) and all(supported_e(a, slices) for a in e[3])
    return False


def supported_t(t, slices=True):
    k = t[0]
    if k == "tname":
        return True
    if k == "tattr":
        return supported_e(t[1], slices)
    if k == "tsub":
        return supported_e(t[1], slices) and supported_e(t[2], slices)
    if k == "tslice":
        return slices and all(supported_e(x, slices) for x in t[1:4])
    if k == "ttuple":
        return all(supported_t(x, slices) for x in t[1])
    return all(supported_t(x, slices) for x in t[1] + [t[2]] + t[3])


def is_nontrivial(t):
    return t is not None and t[0] != "tname"


# ------------------------------------------------------------------ instructions -> Gallina
LOADS = {"LOAD_GLOBAL": "KGlobal", "LOAD_FAST": "KFast", "LOAD_NAME": "KName", "LOAD_DEREF": "KDeref",
         "LOAD_FAST_CHECK": "KFastCheck"}
STORES = {"STORE_GLOBAL": "KGlobal", "STORE_FAST": "KFast", "STORE_NAME": "KName", "STORE_DEREF": "KDeref"}
OTHER_TAG = {"BINARY_OP": 1, "COPY": 2, "KW_NAMES": 3, "CALL_FUNCTION_EX": 4, "BUILD_TUPLE": 5, "BUILD_SLICE": 6}
NOPS = {"PUSH_NULL": "NPushNull", "PRECALL": "NPrecall", "CACHE": "NCache"}


def coq_insn(i):
    op = i.opname
    if op == "LOAD_GLOBAL" and PY >= (3, 11) and i.arg & 1:
        return "ILoad KGlobalNull %s" % cstr(str(i.argval))
    if op in LOADS:
        return "ILoad %s %s" % (LOADS[op], cstr(str(i.argval)))
    if op in STORES:
        return "IStoreName %s %s" % (STORES[op], cstr(str(i.argval)))
    if op == "LOAD_ATTR":
        meth = PY >= (3, 12) and bool(i.arg & 1)
        return "ILoadAttr %s %s" % ("true" if meth else "false", cstr(str(i.argval)))
    if op in ("LOAD_METHOD", "LOOKUP_METHOD"):
        return "ILoadAttr true %s" % cstr(str(i.argval))
    if op == "STORE_ATTR":
        return "IStoreAttr %s" % cstr(str(i.argval))
    if op == "LOAD_CONST":
        return "ILoadConst %s" % cstr("..." if i.argval is Ellipsis else i.argrepr)
    if op == "BINARY_SUBSCR":
        return "IBinarySubscr"
    if op == "STORE_SUBSCR":
        return "IStoreSubscr"
    if op == "BINARY_SLICE":
        return "IBinarySlice %s" % ("true" if i.arg == 3 else "false")
    if op == "STORE_SLICE":
        return "IStoreSlice %s" % ("true" if i.arg == 3 else "false")
    if op == "UNPACK_SEQUENCE":
        return "IUnpackSeq %d" % i.argval
    if op == "UNPACK_EX":
        return "IUnpackEx %d %d" % (i.argval & 0xFF, i.argval >> 8)
    if op in ("CALL_FUNCTION", "CALL_METHOD", "CALL"):
        return "ICall %d" % i.argval
    if op == "DUP_TOP":
        return "IDupTop"
    if op == "POP_TOP":
        return "IPopTop"
    if op in NOPS:
        return "INop %s" % NOPS[op]
    if op == "EXTENDED_ARG":
        return "IExtArg"
    return "IOther %d" % OTHER_TAG.get(op, 0)


WINDOW = 48


# ------------------------------------------------------------------ sites of a code object
def store_start(insns, j):
    """index of the first instruction of the store sequence of the with-item whose
    BEFORE_WITH / BEFORE_ASYNC_WITH / SETUP_WITH / SETUP_ASYNC_WITH is insns[j]; located from the
    instruction shapes, independently of analyze_with_blocks' skip count"""
    op = insns[j].opname
    if op in ("BEFORE_WITH", "SETUP_WITH"):
        return j + 1
    if op == "SETUP_ASYNC_WITH":
        return j + 1
    # BEFORE_ASYNC_WITH: the awaited __aenter__ ends at END_SEND (3.12) or at the instruction after
    # JUMP_BACKWARD_NO_INTERRUPT (3.11)
    k = j + 1
    if PY >= (3, 12):
        while insns[k].opname != "END_SEND":
            k += 1
        return k + 1
    while insns[k].opname != "JUMP_BACKWARD_NO_INTERRUPT":
        k += 1
    k += 1
    if insns[k].opname == "NOP":
        k += 1
    return k


def exc_table(code):
    if PY < (3, 11):
        return {}
    return {e.start: e.target for e in dis._parse_exception_table(code)}


class _Rec(list):
    """records the highest index the implementation read"""
    hi = -1

    def __getitem__(self, i):
        if isinstance(i, int) and i > self.hi:
            self.hi = i
        return list.__getitem__(self, i)


def sites_of(code, ll):
    """[(j, is_async, k, insns, obs_describe, awb_context|None)] for one code object"""
    raw = code.co_code
    if PY >= (3, 11):
        need = (dis.opmap["BEFORE_WITH"], dis.opmap["BEFORE_ASYNC_WITH"])
    else:
        need = (dis.opmap["SETUP_WITH"], dis.opmap["SETUP_ASYNC_WITH"])
    if not any(raw[x] in need for x in range(0, len(raw), 2)):
        return []
    insns = list(dis.Bytecode(code))
    table = exc_table(code)
    try:
        awb = ll.analyze_with_blocks(code)
    except Exception:  # fail closed: every site of this code object reports a missing analysis
        awb = {}
    out = []
    for j, ins in enumerate(insns):
        if ins.opname in (("BEFORE_WITH", "BEFORE_ASYNC_WITH") if PY >= (3, 11) else ("SETUP_WITH", "SETUP_ASYNC_WITH")):
            k = store_start(insns, j)
            rec = _Rec(insns)
            obs = ll.describe_assignment_target(rec, k)
            if PY >= (3, 11):
                handler = table.get(insns[k].offset)
            else:
                handler = ins.argval
            ctx = awb.get(handler) if handler is not None else None
            out.append(dict(j=j, k=k, is_async="ASYNC" in ins.opname, insns=insns, obs=obs, ctx=ctx,
                            consumed=max(0, rec.hi - k + 1)))
    return out


def walk_codes(code):
    yield code
    for c in code.co_consts:
        if hasattr(c, "co_code"):
            for x in walk_codes(c):
                yield x


def with_index(tree):
    """{position of context_expr: (With node, item index, innermost enclosing class name|None)}"""
    idx = {}

    def walk(node, cls):
        if isinstance(node, ast.ClassDef):
            cls = node.name
        if isinstance(node, (ast.With, ast.AsyncWith)):
            for n, item in enumerate(node.items):
                e = item.context_expr
                idx[(e.lineno, e.col_offset, e.end_lineno, e.end_col_offset)] = (node, n, cls)
        for ch in ast.iter_child_nodes(node):
            walk(ch, cls)

    import sys as _s
    lim = _s.getrecursionlimit()
    _s.setrecursionlimit(max(lim, 10000))
    try:
        walk(tree, None)
    finally:
        _s.setrecursionlimit(lim)
    return idx


def mangle(name, cls):
    """private-name mangling done by the compiler inside a class body"""
    if cls is None or not name.startswith("__") or name.endswith("__") or "." in name:
        return name
    c = cls.lstrip("_")
    if not c:
        return name
    return "_" + c + name


class _Mangle(ast.NodeTransformer):
    def __init__(self, cls):
        self.cls = cls

    def visit_Name(self, node):
        return ast.copy_location(ast.Name(id=mangle(node.id, self.cls), ctx=node.ctx), node)

    def visit_Attribute(self, node):
        self.generic_visit(node)
        node.attr = mangle(node.attr, self.cls)
        return node


def site_item(site, index):
    """the ast (With node, item) of a site through the source position of the instruction that
    produced the manager (3.11+)"""
    p = getattr(site["insns"][site["j"] - 1], "positions", None)  # 3.11+
    if p is None:
        return None
    return index.get((p.lineno, p.col_offset, p.end_lineno, p.end_col_offset))


# ------------------------------------------------------------------ ast comparison
class _Norm(ast.NodeTransformer):
    """erase what the compiler erases: List vs Tuple in store position, omitted slice bound vs None,
    expression contexts"""

    def visit_List(self, node):
        self.generic_visit(node)
        if isinstance(node.ctx, ast.Store):
            return ast.Tuple(elts=node.elts, ctx=ast.Load())
        return node

    def visit_Slice(self, node):
        self.generic_visit(node)
        for f in ("lower", "upper"):
            v = getattr(node, f)
            if isinstance(v, ast.Constant) and v.value is None:
                setattr(node, f, None)
        return node


def norm_dump(node):
    node = _Norm().visit(node)
    for n in ast.walk(node):
        if hasattr(n, "ctx"):
            n.ctx = ast.Load()
    return ast.dump(node)


def as_target_ast(text):
    """parse a varname string as an assignment target"""
    return ast.parse("with _ as %s: pass" % text).body[0].items[0].optional_vars


def same_target(varname, target_node, cls=None):
    try:
        got = as_target_ast(varname)
    except SyntaxError:
        return False
    import copy
    want = copy.deepcopy(target_node)
    if cls is not None:
        want = _Mangle(cls).visit(want)
    return norm_dump(got) == norm_dump(want)


# ------------------------------------------------------------------ ast -> tree (stdlib targets)
class NoTree(Exception):
    pass


def kind_of(name, code):
    if name in code.co_cellvars or name in code.co_freevars:
        return "deref"
    if code.co_flags & 1:  # CO_OPTIMIZED
        return "fast" if name in code.co_varnames else "global"
    return "name"


_CLS = [None]


def tree_e(n, code):
    if isinstance(n, ast.Name):
        return ["name", kind_of(mangle(n.id, _CLS[0]), code), mangle(n.id, _CLS[0])]
    if isinstance(n, ast.Constant) and not isinstance(n.value, (tuple, frozenset)):
        return ["const_r", "..." if n.value is Ellipsis else repr(n.value)]
    if isinstance(n, ast.Attribute):
        return ["attr", tree_e(n.value, code), mangle(n.attr, _CLS[0])]
    if isinstance(n, ast.Subscript):
        if isinstance(n.slice, ast.Slice):
            if n.slice.step is not None:
                raise NoTree()
            return ["slice", tree_e(n.value, code), tree_b(n.slice.lower, code), tree_b(n.slice.upper, code)]
        return ["sub", tree_e(n.value, code), tree_e(n.slice, code)]
    if isinstance(n, ast.Call) and not n.keywords and not any(isinstance(a, ast.Starred) for a in n.args):
        if isinstance(n.func, ast.Attribute):
            return ["mcall", tree_e(n.func.value, code), mangle(n.func.attr, _CLS[0]), [tree_e(a, code) for a in n.args]]
        return ["call", tree_e(n.func, code), [tree_e(a, code) for a in n.args]]
    raise NoTree()


def tree_b(n, code):
    return None if n is None else tree_e(n, code)


def tree_t(n, code):
    if isinstance(n, ast.Name):
        return ["tname", kind_of(mangle(n.id, _CLS[0]), code), mangle(n.id, _CLS[0])]
    if isinstance(n, ast.Attribute):
        return ["tattr", tree_e(n.value, code), mangle(n.attr, _CLS[0])]
    if isinstance(n, ast.Subscript):
        if isinstance(n.slice, ast.Slice):
            if n.slice.step is not None:
                raise NoTree()
            return ["tslice", tree_e(n.value, code), tree_b(n.slice.lower, code), tree_b(n.slice.upper, code)]
        return ["tsub", tree_e(n.value, code), tree_e(n.slice, code)]
    if isinstance(n, (ast.Tuple, ast.List)):
        br = "tuple" if isinstance(n, ast.Tuple) else "list"
        stars = [i for i, e in enumerate(n.elts) if isinstance(e, ast.Starred)]
        if not stars:
            return ["ttuple", [tree_t(e, code) for e in n.elts], br]
        s = stars[0]
        return ["tstar", [tree_t(e, code) for e in n.elts[:s]], tree_t(n.elts[s].value, code),
                [tree_t(e, code) for e in n.elts[s + 1:]], br]
    raise NoTree()


# `const_r` nodes (repr already known) are handled by patching the printers
_old_coq_e = coq_e


def coq_e(e):  # noqa: F811
    if e[0] == "const_r":
        return "(EConst %s)" % cstr(e[1])
    return _old_coq_e(e)


_old_supported_e = supported_e


def supported_e(e, slices=True):  # noqa: F811
    if e is not None and e[0] == "const_r":
        return True
    return _old_supported_e(e, slices)


# ------------------------------------------------------------------ programs
LAYOUTS = ["single", "single", "backslash", "paren", "paren1", "exprml", "targetml", "kwnl"]
WRAPS = [None, None, None, "try", "finally", "for", "if", "while", "tryexc"]


def gen_program(rng, is_async=None, depth=None, p_unsup=0.25, tdepth=2):
    if is_async is None:
        is_async = rng.random() < 0.4
    depth = depth or rng.choice([1, 2, 2, 3, 4])
    ident = [0]
    levels = []
    for _ in range(depth):
        items = []
        for _ in range(rng.choice([1, 1, 2, 3])):
            ident[0] += 1
            r = rng.random()
            if r < 0.15:
                t = None
            else:
                t = g_target(rng, tdepth, supported=rng.random() >= p_unsup)
            items.append({"id": ident[0], "t": t, "bound": rng.random() < 0.25})
        levels.append({"async": bool(is_async and rng.random() < 0.5), "layout": rng.choice(LAYOUTS),
                       "wrap": rng.choice(WRAPS), "items": items, "pre": rng.choice([0, 0, 1, 2]),
                       "sibling": rng.random() < 0.2})
    return {"async": bool(is_async), "levels": levels}


def item_src(it, ml_expr=False, ml_target=False):
    sh = shape(it["t"]) if it["t"] is not None else "0"
    if it["bound"]:
        e = "m%d" % it["id"]
    elif ml_expr:
        e = "M(\n          %d,\n          %s\n      )" % (it["id"], sh)
    else:
        e = "M(%d, %s)" % (it["id"], sh)
    if it["t"] is None:
        return e
    return "%s as %s" % (e, src_t(it["t"], ml=ml_target))


def build_source(spec):
    lines = []
    ind = "    "
    lines.append(("async def g():" if spec["async"] else "def g():"))
    if spec.get("bigconsts"):
        # docstring + >256 constants before the first use of None: LOAD_CONST None needs EXTENDED_ARG
        lines.append(ind + '"""doc"""')
        for n in range(300):
            lines.append(ind + "n0 = %d" % (1000 + n))
    for p in PROLOGUE:
        lines.append(ind + p)
    for lv in spec["levels"]:
        for it in lv["items"]:
            if it["bound"]:
                sh = shape(it["t"]) if it["t"] is not None else "0"
                lines.append(ind + "m%d = M(%d, %s)" % (it["id"], it["id"], sh))
    bound_ids = [it["id"] for lv in spec["levels"] for it in lv["items"] if it["bound"]]
    if bound_ids:
        lines.append(ind + "hold = [%s]" % ", ".join("m%d" % i for i in bound_ids))
    base = ind
    if spec.get("route") in ("break", "continue"):
        lines.append(ind + "for _r in (0,):")  # a loop for the break / continue exit route
        base = ind + ind
    cur = base
    sib = 900
    for lv in spec["levels"]:
        for n in range(lv["pre"]):
            lines.append(cur + ("# filler" if n % 2 else "n0 = n0 + 0"))
        kw = "async with" if lv["async"] else "with"
        if lv["sibling"]:
            sib += 1
            lines.append(cur + "%s M(%d, 0) as sib: pass" % (kw, sib))
        w = lv["wrap"]
        if w == "try":
            lines.append(cur + "try:")
            cur += ind
        elif w == "finally":
            lines.append(cur + "try:")
            lines.append(cur + ind + "pass")
            lines.append(cur + "finally:")
            cur += ind
        elif w == "tryexc":
            lines.append(cur + "try:")
            lines.append(cur + ind + "raise KeyError")
            lines.append(cur + "except KeyError:")
            cur += ind
        elif w == "for":
            lines.append(cur + "for _i in (0,):")
            cur += ind
        elif w == "while":
            lines.append(cur + "while gTrue:")
            cur += ind
        elif w == "if":
            lines.append(cur + "if gTrue:")
            cur += ind
        lay = lv["layout"]
        its = lv["items"]
        if lay == "single":
            lines.append(cur + "%s %s:" % (kw, ", ".join(item_src(i) for i in its)))
        elif lay == "backslash":
            lines.append(cur + "%s %s:" % (kw, (", \\\n" + cur + "      ").join(item_src(i) for i in its)))
        elif lay == "paren":
            lines.append(cur + "%s (" % kw)
            for i in its:
                lines.append(cur + ind + item_src(i) + ",")
            lines.append(cur + "):")
        elif lay == "paren1":
            lines.append(cur + "%s (%s):" % (kw, ", ".join(item_src(i) for i in its)))
        elif lay == "exprml":
            lines.append(cur + "%s %s:" % (kw, ", ".join(item_src(i, ml_expr=True) for i in its)))
        elif lay == "targetml":
            lines.append(cur + "%s %s:" % (kw, ", ".join(item_src(i, ml_target=True) for i in its)))
        elif lay == "kwnl":
            lines.append(cur + "%s \\\n%s      %s:" % (kw, cur, ", ".join(item_src(i) for i in its)))
        cur += ind
        if w == "try":
            pass
    lines.append(cur + ("await S()" if spec["async"] else "yield 1"))
    # second suspension: the locals that held managers are cleared (odd ids) or the manager is
    # re-bound under another name (even ids)
    for n, i in enumerate(bound_ids):
        lines.append(cur + "m%d = None" % i)
        if i % 2 == 0:
            lines.append(cur + "al%d = hold[%d]" % (i, n))
    lines.append(cur + "n0 = n0 + 0")
    lines.append(cur + ("await S()" if spec["async"] else "yield 2"))
    if spec.get("route") in ("return", "break", "continue"):
        lines.append(cur + spec["route"])  # how the with statements are left (default: falling off the end)
    # close the try: wrappers (need a finally clause), innermost first
    text = "\n".join(lines).split("\n")
    # compute closers: walk levels again to know indentation of each `try:` of kind "try"
    closers = []
    cur = base
    for lv in spec["levels"]:
        if lv["wrap"] == "try":
            closers.append(cur)
        if lv["wrap"] is not None:
            cur += ind
        cur += ind
    for c in reversed(closers):
        text.append(c + "finally:")
        text.append(c + ind + "n0 = n0 + 0")
    return "\n".join(text) + "\n"


ENV_SRC = '''
import sys
PROBE = None
AEXIT_SUSPEND = False
EXITING = []
class U:
    def __init__(self):
        object.__setattr__(self, "_d", {})
    def __getattr__(self, n):
        if n.startswith("__"):
            raise AttributeError(n)
        return self._d.setdefault(("a", n), U())
    def __setattr__(self, n, v):
        self._d[("set", n)] = v
    def __getitem__(self, k):
        return self._d.setdefault("item", U())
    def __setitem__(self, k, v):
        self._d["item_set"] = v
    def __call__(self, *a, **k):
        return self._d.setdefault("call", U())
class M:
    def __init__(self, i, val=0):
        self.i = i
        self.val = val
    def __enter__(self):
        return self.val
    def __exit__(self, *a):
        if PROBE is not None:
            PROBE(sys._getframe(1), sys._getframe(0))
        return False
    async def __aenter__(self):
        return self.val
    async def __aexit__(self, *a):
        if PROBE is not None:
            PROBE(sys._getframe(1), sys._getframe(0))
        if AEXIT_SUSPEND:
            EXITING.append(self.i)
            await S()
        return False
class S:
    def __await__(self):
        yield 42
go = U(); gd = U(); gf = U(); gn = 2; gTrue = True; GS0 = GS1 = None
'''


def make_env():
    ns = {}
    exec(compile(ENV_SRC, "<c08env>", "exec"), ns)
    return ns


def expected_items(spec, tree):
    """{id: (with lineno, is_async, target node|None)} from the ast of the generated source;
    sibling (already exited) statements have ids > 900"""
    out = {}
    for node in ast.walk(tree):
        if isinstance(node, (ast.With, ast.AsyncWith)):
            for item in node.items:
                e = item.context_expr
                if isinstance(e, ast.Name):
                    i = int(e.id[1:])
                else:
                    i = e.args[0].value
                out[i] = (node.lineno, isinstance(node, ast.AsyncWith), item.optional_vars)
    return out


# ------------------------------------------------------------------ site observations
_STASH = {}


def _ll():
    from stackscope import lowlevel as ll
    return ll


def site_obs(site, node_item, code, tree_hint=None):
    ins = site["insns"]
    k = site["k"]
    window = []
    for i in ins[k:k + min(600, max(WINDOW, site.get("consumed", 0) + 4))]:
        if i.opname == "LOAD_CONST" and len(i.argrepr) > 300:
            break  # a huge constant (never part of a target in practice); the window ends before it
        window.append(coq_insn(i))
    ctx = site["ctx"]
    obs = {"code": window, "obs": site["obs"], "awb": ctx.varname if ctx is not None else "<missing>",
           "start_line": ctx.start_line if ctx is not None else None, "awb_async": bool(ctx.is_async) if ctx is not None else None,
           "is_async": site["is_async"], "matched": node_item is not None, "ver": "V312" if PY >= (3, 12) else "V311"}
    if node_item is not None:
        node, n, cls = node_item
        _CLS[0] = cls
        t = node.items[n].optional_vars
        obs["with_line"] = node.lineno
        obs["with_async"] = isinstance(node, ast.AsyncWith)
        obs["target_src"] = None if t is None else ast.unparse(t)
        obs["ast_ok"] = None if (t is None or site["obs"] is None) else same_target(site["obs"], t, cls)
        if tree_hint is not None:
            obs["tree"] = tree_hint[0]
        else:
            try:
                obs["tree"] = None if t is None else tree_t(t, code)
                obs["has_tree"] = True
            except NoTree:
                obs["has_tree"] = False
    return obs


def gen_sites(spec):
    key = json.dumps(spec, sort_keys=True)
    if key in _STASH:
        return _STASH[key]
    ll = _ll()
    src = build_source(spec)
    tree = ast.parse(src)
    index = with_index(tree)
    code = compile(src, "<c08prog>", "exec")
    gcode = [c for c in code.co_consts if hasattr(c, "co_code") and c.co_name == "g"][0]
    by_id = {it["id"]: it for lv in spec["levels"] for it in lv["items"]}
    res = []
    for site in sites_of(gcode, ll):
        ni = site_item(site, index)
        hint = None
        if ni is not None:
            e = ni[0].items[ni[1]].context_expr
            i = int(e.id[1:]) if isinstance(e, ast.Name) else e.args[0].value
            hint = [by_id[i]["t"]] if i in by_id else [["tname", "fast", "sib"]]
        o = site_obs(site, ni, gcode, hint)
        o["has_tree"] = hint is not None
        o["item_id"] = i if ni is not None else None
        res.append(o)
    _STASH[key] = res
    return res



def _ctx_key(c):
    return (id(c.obj), c.varname, c.start_line, bool(c.is_async), bool(c.is_exiting))


def _check_ctx(c, it, exp, flocals, tag, problems, stats, slices_ok):
    """one reported Context against its own with-item in the ast and the locals bound right now"""
    lineno, is_async, tnode = exp[it["id"]]
    if c.start_line != lineno:
        problems.append("%s: start_line %r but the with keyword is on line %d" % (tag, c.start_line, lineno))
    if bool(c.is_async) != is_async:
        problems.append("%s: is_async %r" % (tag, c.is_async))
    v = c.varname
    sup = tnode is not None and supported_t(it["t"], slices_ok)
    if tnode is not None and v is not None and same_target(v, tnode):
        stats["rendered"] += 1
        return
    if sup:
        problems.append("%s: supported target %r reported as varname %r" % (tag, src_t(it["t"]), v))
        return
    # no reconstructible target: None, or the name of a local CURRENTLY bound to the manager
    if v is None:
        stats["no_target" if tnode is None else "none_unsupported"] += 1
    elif v in flocals and flocals[v] is c.obj:
        stats["fallback_named"] += 1
    else:
        problems.append("%s: varname %r is neither the target %r nor a local currently bound to the manager" % (
            tag, v, None if it["t"] is None else src_t(it["t"])))


def runtime_check(spec, src=None, filename="<c08prog>", details=None):
    """run the generated function to its two suspension points inside the innermost body (between
    them the locals holding managers are cleared / the managers re-bound under other names); at
    each one extract twice (results must be equal) and compare every context with the ast and with
    the locals bound at that moment. Returns (n_contexts_checked, [problem strings], stats)"""
    import warnings
    import stackscope
    src = src or build_source(spec)
    tree = ast.parse(src)
    exp = expected_items(spec, tree)
    ns = make_env()
    exec(compile(src, filename, "exec"), ns)
    obj = ns["g"]()
    problems = []
    stats = {"fallback_named": 0, "none_unsupported": 0, "rendered": 0, "no_target": 0}
    want = [it for lv in spec["levels"] for it in lv["items"]]
    slices_ok = PY >= (3, 12)
    total = 0
    with warnings.catch_warnings(record=True) as wlist:
        warnings.simplefilter("always")
        try:
            for phase in (1, 2):
                if spec["async"]:
                    assert obj.send(None) == 42
                    frame = obj.cr_frame
                else:
                    assert next(obj) == phase
                    frame = obj.gi_frame
                ctxs = list(stackscope.extract(obj, with_contexts=True).frames[0].contexts)
                again = list(stackscope.extract(obj, with_contexts=True).frames[0].contexts)
                flocals = dict(frame.f_locals)
                if [_ctx_key(c) for c in ctxs] != [_ctx_key(c) for c in again]:
                    problems.append("suspension %d: two inspections of the same suspended frame differ: %r vs %r" % (
                        phase, [c.varname for c in ctxs], [c.varname for c in again]))
                total += len(ctxs)
                got_ids = [getattr(c.obj, "i", None) for c in ctxs]
                if got_ids != [it["id"] for it in want]:
                    problems.append("suspension %d: active contexts %r, expected managers %r" % (phase, got_ids, [it["id"] for it in want]))
                    break
                if details is not None:
                    # locals in f_locals order with object identities numbered by first occurrence
                    ids = {}
                    loc = [(n, ids.setdefault(id(val), len(ids))) for n, val in flocals.items()]
                    for c, it in zip(ctxs, want):
                        details.append({"item_id": it["id"], "phase": phase, "locals": loc,
                                        "obj": ids.setdefault(id(c.obj), len(ids)), "varname": c.varname})
                for c, it in zip(ctxs, want):
                    _check_ctx(c, it, exp, flocals, "suspension %d item %d" % (phase, it["id"]), problems, stats, slices_ok)
        finally:
            obj.close()
    for w in wlist:
        problems.append("warning during extraction: %s" % (w.message,))
    return total, problems, stats


# ------------------------------------------------------------------ rebinding scenarios (locals fallback)
REBIND_ORDERS = [[0, 1], [0, 2], [1, 0], [2, 0, 1], [0, 0], [0, 1, 2, 0]]


def rebind_scenarios():
    return [{"target": t, "async": a, "order": o} for t in ("none", "unsup") for a in (False, True) for o in REBIND_ORDERS]


def rebind_source(scn):
    kw = "async with" if scn["async"] else "with"
    susp = (lambda n: "await S()") if scn["async"] else (lambda n: "yield %d" % n)
    tgt = "" if scn["target"] == "none" else " as lo[n0 + 1]"
    return "\n".join([
        ("async def w(mode):" if scn["async"] else "def w(mode):"),
        "    lo = U(); n0 = 1",
        "    mgr = M(1); hold = [mgr]; other = None",
        "    if mode == 1: mgr = None",
        "    elif mode == 2: other = mgr; mgr = None",
        "    %s hold[0]%s:" % (kw, tgt),
        "        " + susp(1),
        "        mgr = None; other = None",
        "        " + susp(2),
        "        other = hold[0]",
        "        " + susp(3),
        "        mgr = hold[0]; other = None",
        "    " + susp(4), ""])


def rebind_check(scn):
    """Several instances of ONE function (one code object) whose manager has no reconstructible
    target, started with different local bindings of the manager (mode 0: local `mgr`; 1: no local;
    2: local `other`), stepped round-robin through three suspensions that rebind the locals, and
    finally through the exit (inspected from inside __exit__: the exiting entry). Every inspection
    is done twice. Returns (records, problems); a record is one reported context:
    {label, locals [(name, identity)], obj identity, varname, exiting}."""
    import warnings
    from stackscope import lowlevel as ll
    ns = make_env()
    exec(compile(rebind_source(scn), "<c08rebind>", "exec"), ns)
    records, problems = [], []
    with_line = 6

    def record(label, ctxs, again, flocals, exiting):
        if [_ctx_key(c) for c in ctxs] != [_ctx_key(c) for c in again]:
            problems.append("%s: two inspections differ: %r vs %r" % (label, [c.varname for c in ctxs], [c.varname for c in again]))
        if len(ctxs) != 1:
            problems.append("%s: %d contexts reported, expected 1" % (label, len(ctxs)))
            return
        c = ctxs[0]
        if bool(c.is_exiting) != exiting:
            problems.append("%s: is_exiting %r" % (label, c.is_exiting))
        if c.start_line != with_line:
            problems.append("%s: start_line %r, the with keyword is on line %d" % (label, c.start_line, with_line))
        if getattr(c.obj, "i", None) != 1:
            problems.append("%s: obj %r is not the manager" % (label, c.obj))
        ids = {}
        loc = [(n, ids.setdefault(id(v), len(ids))) for n, v in flocals.items()]
        records.append({"label": label, "locals": loc, "obj": ids.setdefault(id(c.obj), len(ids)),
                        "varname": c.varname, "exiting": exiting})
        if c.varname is not None and not (c.varname in flocals and flocals[c.varname] is c.obj):
            problems.append("%s: varname %r does not name a local currently bound to the manager (locals bound to it: %r)" % (
                label, c.varname, [n for n, v in flocals.items() if v is c.obj]))

    insts = [(n, mode, ns["w"](mode)) for n, mode in enumerate(scn["order"])]

    def step(o):
        return o.send(None) if scn["async"] else next(o)

    def frame_of(o):
        return o.cr_frame if scn["async"] else o.gi_frame

    with warnings.catch_warnings(record=True) as wlist:
        warnings.simplefilter("always")
        try:
            for phase in (1, 2, 3):
                for n, mode, o in insts:
                    step(o)
                    fr = frame_of(o)
                    a = ll.contexts_active_in_frame(fr, o)
                    b = ll.contexts_active_in_frame(fr, o)
                    record("instance %d (mode %d) suspension %d" % (n, mode, phase), a, b, dict(fr.f_locals), False)
            for n, mode, o in insts:
                def probe(fr, inner, n=n, mode=mode):
                    a = ll.contexts_active_in_frame(fr, None, inner)
                    b = ll.contexts_active_in_frame(fr, None, inner)
                    record("instance %d (mode %d) exiting" % (n, mode), a, b, dict(fr.f_locals), True)
                ns["PROBE"] = probe
                try:
                    step(o)
                finally:
                    ns["PROBE"] = None
        finally:
            for n, mode, o in insts:
                o.close()
    for w in wlist:
        problems.append("warning during inspection: %s" % (w.message,))
    want = 4 * len(insts)
    if len(records) != want and not problems:
        problems.append("%d inspections recorded, expected %d" % (len(records), want))
    return records, problems


# ------------------------------------------------------------------ the exiting entry
ROUTES = ["fall", "return", "break", "continue"]


def gen_exit_program(rng, n):
    """nested (2-4 deep) with statements left by falling off / return / break / continue"""
    spec = gen_program(rng, depth=rng.choice([2, 2, 3, 3, 4]), p_unsup=0.2)
    spec["route"] = ROUTES[n % 4]
    spec["no_sites"] = True
    for lv in spec["levels"]:
        if lv["wrap"] == "while":  # `continue` would re-enter the statements for ever
            lv["wrap"] = "for"
    return spec


def exit_check(spec, src=None):
    """Drive the program past its two suspensions and let every with statement exit normally by the
    spec's route. Each exit is inspected AT THE EXITING MOMENT: (a) from inside __exit__ / __aexit__
    (running frame, contexts_active_in_frame(frame, None, next_inner)), (b) for async managers also
    with the coroutine suspended inside __aexit__ (stackscope.extract). Expected: the contexts still
    entered (outer items, earlier items of the same statement) in order, then ONE exiting entry whose
    obj / start_line / varname / is_async are those of its own with-item in the ast.
    Returns (n_inspections, problems)."""
    import warnings
    import stackscope
    from stackscope import lowlevel as ll
    src = src or build_source(spec)
    exp = expected_items(spec, ast.parse(src))
    ns = make_env()
    exec(compile(src, "<c08exit>", "exec"), ns)
    obj = ns["g"]()
    want = [it for lv in spec["levels"] for it in lv["items"]]
    pos = {it["id"]: k for k, it in enumerate(want)}
    problems = []
    stats = {"fallback_named": 0, "none_unsupported": 0, "rendered": 0, "no_target": 0}
    slices_ok = PY >= (3, 12)
    count = [0]

    def judge(ctxs, flocals, exiting_id, how):
        count[0] += 1
        k = pos.get(exiting_id)
        tag0 = "%s, manager %r exiting (route %s)" % (how, exiting_id, spec.get("route", "fall"))
        if k is None:
            problems.append("%s: unexpected manager" % tag0)
            return
        ids = [getattr(c.obj, "i", None) for c in ctxs]
        if ids != [it["id"] for it in want[:k + 1]]:
            problems.append("%s: contexts %r, expected managers %r" % (tag0, ids, [it["id"] for it in want[:k + 1]]))
            return
        flags = [bool(c.is_exiting) for c in ctxs]
        if flags != [False] * k + [True]:
            problems.append("%s: is_exiting flags %r" % (tag0, flags))
        for c, it in zip(ctxs, want[:k + 1]):
            role = "exiting entry" if it["id"] == exiting_id else "active item %d" % it["id"]
            _check_ctx(c, it, exp, flocals, "%s: %s" % (tag0, role), problems, stats, slices_ok)

    def probe(fr, inner):
        me = inner.f_locals.get("self")
        a = ll.contexts_active_in_frame(fr, None, inner)
        b = ll.contexts_active_in_frame(fr, None, inner)
        if [_ctx_key(c) for c in a] != [_ctx_key(c) for c in b]:
            problems.append("two inspections from inside the exit of %r differ" % (getattr(me, "i", None),))
        judge(a, dict(fr.f_locals), getattr(me, "i", None), "probe from inside __%sexit__" % ("a" if inner.f_code.co_name == "__aexit__" else ""))

    with warnings.catch_warnings(record=True) as wlist:
        warnings.simplefilter("always")
        try:
            if spec["async"]:
                assert obj.send(None) == 42 and obj.send(None) == 42
            else:
                assert next(obj) == 1 and next(obj) == 2
            ns["PROBE"] = probe
            ns["AEXIT_SUSPEND"] = True
            for _ in range(len(want) + 2):
                try:
                    got = obj.send(None) if spec["async"] else next(obj)
                except StopIteration:
                    break
                if not (spec["async"] and got == 42 and ns["EXITING"]):
                    problems.append("unexpected suspension %r after the second one" % (got,))
                    break
                stack = stackscope.extract(obj, with_contexts=True)
                judge(list(stack.frames[0].contexts), dict(obj.cr_frame.f_locals), ns["EXITING"][-1], "suspended inside __aexit__")
            else:
                problems.append("the program did not finish")
        finally:
            ns["PROBE"] = None
            ns["AEXIT_SUSPEND"] = False
            obj.close()
    for w in wlist:
        problems.append("warning during inspection: %s" % (w.message,))
    n_async = sum(1 for lv in spec["levels"] if lv["async"] for _ in lv["items"])
    if not problems and count[0] != len(want) + n_async:
        problems.append("%d exit inspections, expected %d" % (count[0], len(want) + n_async))
    return count[0], problems
