import sys, contextlib, warnings
import stackscope
from stackscope import lowlevel as ll
warnings.simplefilter("always")
class M:
    def __init__(self, n=0): self.n=n
    def __enter__(self): return [self, [1,2]]
    def __exit__(self,*a): pass
class O: pass
def g():
    f = lambda i: o
    o = O(); o.x = O(); d = {}; k="z"; o.x.f2 = lambda *a: o; lst=[0,1,2,3]
    with (
        M(1) as a,
        M(2) as (b, *c),
    ):
        with M(3) as f(1).attr, M(4) as o.x.y, M(5) as d["k"], M(6) as lst[2], \
             M(7) as [p, q]:
            with M(8): 
                with M(9) as lst[1:2], M(10) as d[k], M(11) as d[lst[0]], M(12) as (o.x.z, d["w"]), M(13) as o.x.f2(k, 2).q:
                    yield
gi = g(); next(gi)
for c in ll.contexts_active_in_frame(gi.gi_frame):
    print(c.obj.n, repr(c.varname), c.start_line - g.__code__.co_firstlineno)
