import sys, dis, types, os, glob, warnings, bisect, collections
sys.path.insert(0, "/tmp/probe")
from am312 import analyse, iter_codes, Conflict, lookup
from stackscope import _lowlevel as ll
warnings.simplefilter("ignore")

def chain(co, lasti):
    handlers = list(ll._parse_exception_table(co))
    out = []
    current = lasti
    for _ in range(1000):
        idx = bisect.bisect_left(handlers, (current + 1, 0))
        if idx == 0: break
        start, end, target, depth, *_ = handlers[idx - 1]
        if start <= current <= end:
            out.append((target, depth)); current = target
        else: break
    out.reverse()
    return out

def model_analysis(co, lasti, stack, running, wbi):
    """what stackscope computes, given abstract stack tags; returns list of (site, exiting)"""
    blocks = chain(co, lasti)
    if running:
        hd = 0
        for start, end, _, depth, _ in ll._parse_exception_table(co):
            if start <= lasti <= end: hd = depth; break
        stack = stack[:hd]
    res = []
    for (h, lvl) in blocks:
        if h in wbi:
            if lvl - 1 >= len(stack): res.append(("OOB", h)); continue
            v = stack[lvl - 1]
            res.append((v[1] if isinstance(v, tuple) and v[0] == "X" else ("BAD", v), False, wbi[h].is_async))
    ex = ll.currently_exiting_context(types.SimpleNamespace(f_code=co, f_lasti=lasti))
    if ex is not None:
        res.append((("H", ex.cleanup_offset), True, ex.is_async))
    return res

root = os.path.dirname(os.__file__)
files = glob.glob(root + "/*.py") + glob.glob(root + "/*/*.py")
stats = collections.Counter(); bad = []
for fn in sorted(files):
    if "/test/" in fn or "lib2to3/tests" in fn or "/idlelib/" in fn: continue
    try: top = compile(open(fn, encoding="utf-8").read(), fn, "exec")
    except Exception: continue
    for co in iter_codes(top):
        if not any(i.opname in ("BEFORE_WITH", "BEFORE_ASYNC_WITH") for i in dis.get_instructions(co)): continue
        state, info, tab, by_off = analyse(co)
        wbi = ll.analyze_with_blocks(co)
        site_handler = {}
        for hpc, hev in info["events"].items():
            if hev[0] == "exitcall" and by_off[hpc].opname == "WITH_EXCEPT_START": site_handler[hev[1]] = hpc - 2
        for pc, ev in info["events"].items():
            kind = ev[0]
            if kind == "suspend": st, tr, running, lasti = ev[1], ev[2], False, pc
            elif kind == "call": st, tr, running, lasti = ev[1], ev[2], True, pc
            elif kind == "exitcall": st, tr, running, lasti = ev[2], ev[3], True, pc
            exp = [((("H", site_handler.get(s)) if p == "exiting" else s), p == "exiting", a) for (s, p, a) in tr if p in ("active", "exiting")]
            got = model_analysis(co, lasti, list(st), running, wbi)
            stats[kind] += 1
            if got != exp:
                stats["bad_" + kind] += 1
                bad.append((fn.replace(root, ""), co.co_name, pc, by_off[pc].opname, kind, got, exp))
        # running inside awaited enter/exit: lasti at SEND (3.11) / SEND's CACHE (3.12)
        for pc, ins in by_off.items():
            if ins.opname == "SEND" and pc in state:
                st, tr = state[pc]
                if any(p in ("entering", "exiting") for (_, p, _) in tr):
                    exp = [((("H", site_handler.get(s)) if p == "exiting" else s), p == "exiting", a) for (s, p, a) in tr if p in ("active", "exiting")]
                    got = model_analysis(co, pc + 2, list(st), True, wbi)
                    stats["sendrun"] += 1
                    if got != exp:
                        stats["bad_sendrun"] += 1
                        bad.append((fn.replace(root, ""), co.co_name, pc, "SEND+cache", "sendrun", got, exp))
print(dict(stats))
seen = collections.Counter()
for b in bad:
    k = (b[4], str(b[5])[:20] )
    seen[b[4]] += 1
    if seen[b[4]] <= 6: print(b)
