import dis
def f(a, b, g):
    with a:
        with b:
            return g()
dis.dis(f)
