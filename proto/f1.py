import sys, warnings, dis, types
import stackscope
from stackscope import lowlevel as ll

class M:
    def __init__(self, n): self.n=n
    def __repr__(self): return f"M({self.n})"
    async def __aenter__(self):
        show("aenter")
        return self
    async def __aexit__(self, *a):
        show("aexit")
    def __enter__(self):
        show("enter"); return self
    def __exit__(self, *a):
        show("exit")

def show(tag):
    f = sys._getframe(2)
    st = stackscope.extract_since(f)
    fr = st.frames[0]
    print(tag, fr.pyframe.f_code.co_name, "lasti", fr.pyframe.f_lasti, dis.opname[fr.pyframe.f_code.co_code[fr.pyframe.f_lasti]], [(c.obj, c.varname, c.is_exiting) for c in fr.contexts], st.error)

async def f():
    async with M(1) as a:
        with M(2) as b:
            pass

co = f()
try:
    co.send(None)
except StopIteration:
    pass
