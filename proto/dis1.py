import dis
class M: pass
async def f_try(c):
    async with M(2) as b:
        try:
            if c: raise KeyError
        except KeyError:
            pass
dis.dis(f_try)
