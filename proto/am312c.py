import sys
sys.path.insert(0, "/tmp/probe")
import fixproto
from stackscope import _lowlevel as ll
ll.currently_exiting_context = fixproto.patched
exec(open("/tmp/probe/am312b.py").read())
