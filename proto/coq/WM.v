(* scratch: skeleton of the certificate-soundness argument for the with-machine (reduced instruction set) *)
From Coq Require Import List Arith Bool Lia.
Import ListNotations.

Section Machine.
Variable I : Type.                      (* instance ids: unit (abstract) or nat (concrete) *)

Inductive val := VO | VX (site : nat) (i : I).
Record went := { w_site : nat; w_inst : I }.

Inductive instr :=
  | IBeforeWith                          (* pops mgr, pushes VX site, pushes enter result *)
  | ICallExit (n : nat)                  (* CALL n whose callee slot must be a VX: exit returns, pushes result *)
  | IGeneric (pops pushes : nat) (raises : bool)
  | IJump (tgt : nat)
  | ICond (tgt : nat)
  | IReturn.

Record hent := { h_start : nat; h_end : nat; h_target : nat; h_depth : nat }.
Record code := { instrs : list instr; table : list hent }.

Definition lookup (c : code) (pc : nat) : option hent :=
  find (fun h => (h_start h <=? pc) && (pc <=? h_end h)) (table c).

Record state := { pc : nat; stack : list val; truth : list went }.   (* stack: bottom first *)

Definition exc_edge (c : code) (p : nat) (st : list val) (tr : list went) : list state :=
  match lookup c p with
  | Some h => if h_depth h <=? length st
              then [{| pc := h_target h; stack := firstn (h_depth h) st ++ [VO]; truth := tr |}]
              else []
  | None => []
  end.

Definition remove_site (s : nat) (tr : list went) := filter (fun w => negb (w_site w =? s)) tr.

(* one transfer function, polymorphic in I; [fresh] supplies the instance for a new manager *)
Definition trans (c : code) (fresh : I) (s : state) : list state :=
  let p := pc s in let st := stack s in let tr := truth s in
  match nth_error (instrs c) p with
  | None => []
  | Some ins =>
    match ins with
    | IBeforeWith =>
        match rev st with
        | _ :: r => let st' := rev r in
            {| pc := S p; stack := st' ++ [VX p fresh; VO]; truth := tr ++ [{| w_site := p; w_inst := fresh |}] |}
            :: exc_edge c p st' tr
        | [] => []
        end
    | ICallExit n =>
        match nth_error (rev st) (S n) with
        | Some (VX site _) =>
            {| pc := S p; stack := firstn (length st - (n + 2)) st ++ [VO]; truth := remove_site site tr |}
            :: exc_edge c p st (remove_site site tr)
        | _ => []
        end
    | IGeneric a b r =>
        if a <=? length st then
          {| pc := S p; stack := firstn (length st - a) st ++ repeat VO b; truth := tr |}
          :: (if r then exc_edge c p st tr else [])
        else []
    | IJump t => [{| pc := t; stack := st; truth := tr |}]
    | ICond t => match rev st with
                 | _ :: r => [{| pc := S p; stack := rev r; truth := tr |}; {| pc := t; stack := rev r; truth := tr |}]
                 | [] => [] end
    | IReturn => []
    end
  end.
End Machine.

Arguments VO {I}. Arguments VX {I}. Arguments pc {I}. Arguments stack {I}. Arguments truth {I}.
Arguments trans {I}. Arguments Build_state {I}. Arguments w_site {I}. Arguments Build_went {I}.

(* erasure of instances *)
Definition ev (v : val nat) : val unit := match v with VO => VO | VX s _ => VX s tt end.
Definition ew (w : went nat) : went unit := {| w_site := w_site w; w_inst := tt |}.
Definition es (s : state nat) : state unit :=
  {| pc := pc s; stack := map ev (stack s); truth := map ew (truth s) |}.

(* decidable equality on abstract states *)
Definition val_eqb (a b : val unit) := match a, b with VO, VO => true | VX s _, VX t _ => s =? t | _, _ => false end.
Fixpoint list_eqb {A} (eq : A -> A -> bool) (a b : list A) :=
  match a, b with [], [] => true | x :: a', y :: b' => eq x y && list_eqb eq a' b' | _, _ => false end.
Definition st_eqb (a b : state unit) :=
  (pc a =? pc b) && list_eqb val_eqb (stack a) (stack b)
  && list_eqb (fun x y => w_site x =? w_site y) (truth a) (truth b).

Lemma val_eqb_eq a b : val_eqb a b = true -> a = b.
Proof. destruct a, b; simpl; try discriminate; auto. intros H. apply Nat.eqb_eq in H. subst. destruct i, i0. reflexivity. Qed.
Lemma list_eqb_eq {A} (eq : A -> A -> bool) (H : forall x y, eq x y = true -> x = y) a b :
  list_eqb eq a b = true -> a = b.
Proof. revert b; induction a as [|x a IH]; destruct b; simpl; try discriminate; auto.
  intros E. apply andb_true_iff in E as [E1 E2]. f_equal; auto. Qed.
Lemma st_eqb_eq a b : st_eqb a b = true -> a = b.
Proof. unfold st_eqb. intros E. apply andb_true_iff in E as [E E3]. apply andb_true_iff in E as [E1 E2].
  apply Nat.eqb_eq in E1. apply list_eqb_eq in E2; [|apply val_eqb_eq].
  apply list_eqb_eq in E3. 2:{ intros [s []] [t []]; simpl; intros H; apply Nat.eqb_eq in H; subst; reflexivity. }
  destruct a, b; simpl in *; subst; reflexivity. Qed.

(* certificate: abstract state per pc; check: every abstract successor equals the certificate at its pc *)
Definition cert := list (option (state unit)).
Definition cert_at (ct : cert) (p : nat) : option (state unit) := match nth_error ct p with Some o => o | None => None end.
Definition ok_succ (ct : cert) (s' : state unit) : bool :=
  match cert_at ct (pc s') with Some a => st_eqb a s' | None => false end.
Definition check_pc (c : code) (ct : cert) (p : nat) : bool :=
  match cert_at ct p with
  | None => true
  | Some a => (pc a =? p) && forallb (ok_succ ct) (trans c tt a)
  end.
Definition check (c : code) (ct : cert) : bool :=
  forallb (check_pc c ct) (seq 0 (length (instrs c)))
  && match cert_at ct 0 with Some a => st_eqb a {| pc := 0; stack := []; truth := [] |} | None => false end.

(* commutation: erasing a concrete successor gives an abstract successor of the erased state *)
Lemma map_firstn {A B} (f : A -> B) n l : map f (firstn n l) = firstn n (map f l).
Proof. revert l; induction n; destruct l; simpl; auto. f_equal; auto. Qed.
Lemma map_repeat {A B} (f : A -> B) x n : map f (repeat x n) = repeat (f x) n.
Proof. induction n; simpl; auto. f_equal; auto. Qed.
Lemma ew_remove s tr : map ew (remove_site nat s tr) = remove_site unit s (map ew tr).
Proof. unfold remove_site. induction tr as [|w tr IH]; simpl; auto. destruct (negb (w_site w =? s)); simpl; rewrite IH; auto. Qed.

Lemma exc_commute c p st tr :
  map es (exc_edge nat c p st tr) = exc_edge unit c p (map ev st) (map ew tr).
Proof. unfold exc_edge. destruct (lookup c p); auto. rewrite map_length.
  destruct (h_depth h <=? length st); simpl; auto. unfold es; simpl. rewrite map_app, map_firstn. reflexivity. Qed.

Lemma trans_commute c fresh s : map es (trans c fresh s) = trans c tt (es s).
Proof.
  unfold trans. destruct s as [p st tr]. cbn [es pc stack truth].
  destruct (nth_error (instrs c) p) as [ins|]; auto.
  destruct ins.
  - rewrite <- map_rev. destruct (rev st) as [|v r]; cbn [map]; auto.
    rewrite exc_commute. unfold es; cbn [pc stack truth map]. rewrite !map_app, !map_rev. reflexivity.
  - rewrite <- map_rev, nth_error_map. destruct (nth_error (rev st) (S n)) as [[|site i]|]; cbn [option_map ev map]; auto.
    rewrite exc_commute, ew_remove. unfold es; cbn [pc stack truth map]. rewrite map_app, map_firstn, map_length, ew_remove. reflexivity.
  - rewrite map_length. destruct (pops <=? length st); cbn [map]; auto.
    unfold es at 1; cbn [pc stack truth]. rewrite map_app, map_firstn, map_repeat. cbn [ev]. f_equal.
    destruct raises; cbn [map]; auto. apply exc_commute.
  - reflexivity.
  - rewrite <- map_rev. destruct (rev st); cbn [map]; auto. unfold es; cbn [pc stack truth]. rewrite !map_rev. reflexivity.
  - reflexivity.
Qed.

(* reachability of the concrete machine, with arbitrary fresh instances *)
Inductive reach (c : code) : state nat -> Prop :=
  | r0 : reach c {| pc := 0; stack := []; truth := [] |}
  | rS s fresh s' : reach c s -> In s' (trans c fresh s) -> reach c s'.

Theorem cert_sound c ct : check c ct = true ->
  forall s, reach c s -> cert_at ct (pc s) = Some (es s).
Proof.
  intros Hc s Hr. unfold check in Hc. apply andb_true_iff in Hc as [Hall H0].
  induction Hr as [|s fresh s' Hr IH Hin].
  - simpl. destruct (cert_at ct 0); try discriminate. apply st_eqb_eq in H0. subst. reflexivity.
  - assert (Hp : pc s < length (instrs c)).
    { unfold trans in Hin. destruct (nth_error (instrs c) (pc s)) eqn:E; [|contradiction].
      apply nth_error_Some. congruence. }
    rewrite forallb_forall in Hall. specialize (Hall (pc s)). rewrite in_seq in Hall.
    assert (Hk : check_pc c ct (pc s) = true) by (apply Hall; lia).
    unfold check_pc in Hk. rewrite IH in Hk. apply andb_true_iff in Hk as [_ Hk].
    rewrite forallb_forall in Hk.
    assert (Hin' : In (es s') (trans c tt (es s))).
    { rewrite <- trans_commute with (fresh := fresh). apply in_map. exact Hin. }
    specialize (Hk _ Hin'). unfold ok_succ in Hk. change (pc (es s')) with (pc s') in Hk.
    destruct (cert_at ct (pc s')); try discriminate. apply st_eqb_eq in Hk. congruence.
Qed.
Print Assumptions cert_sound.
