From Coq Require Import List Arith ZArith Lia Bool.
Import ListNotations.
Inductive item := F (f:nat) | O (o:nat).
Definition dq := list (item * nat).
Fixpoint dropge (d:nat) (q:dq) : dq :=
  match q with
  | (i,d')::r => if d <=? d' then dropge d r else q
  | [] => []
  end.
Lemma dropge_idem d q : dropge d (dropge d q) = dropge d q.
Proof. induction q as [|[i d'] r IH]; simpl; auto. destruct (d <=? d') eqn:E; auto. simpl. rewrite E. reflexivity. Qed.
Eval vm_compute in dropge 2 [(F 1,3);(O 2,2);(F 3,1);(F 4,5)].
Print Assumptions dropge_idem.
