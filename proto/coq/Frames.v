(* scratch prototype: model of stackscope._extract.extract_iter (frames/leaf/errors only) *)
From Coq Require Import List Arith Bool Lia.
Import ListNotations.

Inductive item := IFrame (f : nat) | IObj (o : nat).
Inductive ritem := RItem (i : item) | RNext.               (* element of an elaborate_frame result *)
Inductive ures :=
  | UNone | UOne (i : item) | USeq (l : list (option item))
  | UIter (l : list item) (raises : bool) | URaise.
Inductive eres := ENone | ESeq (l : list ritem) | EOne (r : ritem) | ERaise.
Inductive err := EUnwrap (o : nat) | EIter (o : nat) | ELoop (o : nat) | EElab (f : nat).
Inductive leaf := LNone | LOne (i : item) | LMany (l : list item).
Inductive outcome := Ok (frames : list (nat * bool)) (lf : leaf) (errs : list err)
                   | Raised (frames : list (nat * bool)) | OutOfFuel.

Record cfg := { unwrap : nat -> ures; elab : nat -> eres }.

Definition item_eqb (a b : item) : bool :=
  match a, b with
  | IFrame x, IFrame y => x =? y | IObj x, IObj y => x =? y | _, _ => false end.

Definition qe := (item * nat)%type.

Fixpoint somes {A} (l : list (option A)) : list A :=
  match l with [] => [] | Some x :: r => x :: somes r | None :: r => somes r end.

Definition limit := 100.

(* inner "unwrap until nothing is left to unwrap" loop (the isinstance test on a tuple is always False) *)
Fixpoint flatten (fuel cnt : nat) (c : cfg) (tu : list qe) (te_rev : list qe) (errs_rev : list err)
  : option (list qe * list err) :=
  match fuel with
  | 0 => None
  | S fuel' =>
    match tu with
    | [] => Some (rev te_rev, errs_rev)
    | (IFrame f, d) :: tu' => flatten fuel' 0 c tu' ((IFrame f, d) :: te_rev) errs_rev
    | (IObj o, d) :: tu' =>
      let leafit e := flatten fuel' 0 c tu' ((IObj o, d) :: te_rev) e in
      let push l es := flatten fuel' (S cnt) c (map (fun i => (i, S d)) l ++ tu') te_rev es in
      match unwrap c o with
      | URaise => leafit (EUnwrap o :: errs_rev)
      | r =>
        if limit <? S cnt then leafit (ELoop o :: errs_rev)
        else match r with
             | UNone | URaise => leafit errs_rev
             | UOne i => push [i] errs_rev
             | USeq l => push (somes l) errs_rev
             | UIter l b => push l (if b then EIter o :: errs_rev else errs_rev)
             end
      end
    end
  end.

Fixpoint dropge (d : nat) (q : list qe) : list qe :=
  match q with (i, d') :: r => if d <=? d' then dropge d r else q | [] => [] end.

Definition is_insert (l : list ritem) : bool :=
  match rev l with RNext :: _ => true | _ => false end.

Definition concrete (next : option item) (l : list ritem) : list item :=
  flat_map (fun r => match r with RItem i => [i] | RNext => match next with Some n => [n] | None => [] end end) l.
(* NB: a None in the hook's result is kept by extract_iter and unwrapped to a leaf None...: handled below *)

Fixpoint run (fuel : nat) (c : cfg) (tu : list qe) (errs_rev : list err) (out_rev : list (nat * bool)) : outcome :=
  match fuel with
  | 0 => OutOfFuel
  | S fuel' =>
    match flatten (S fuel') 0 c tu [] errs_rev with
    | None => OutOfFuel
    | Some (te, errs_rev) =>
      match te with
      | [] => Ok (rev out_rev) LNone (rev errs_rev)
      | (IObj o, _) :: rest =>
        Ok (rev out_rev) (match rest with [] => LOne (IObj o) | _ => LMany (map fst te) end) (rev errs_rev)
      | (IFrame f, d) :: rest =>
        let next := match rest with (i, _) :: _ => Some i | [] => None end in
        let '(r, errs_rev, unhide) :=
          match elab c f with ERaise => (ESeq [], EElab f :: errs_rev, true) | r => (r, errs_rev, false) end in
        let out_rev := (f, unhide) :: out_rev in
        match r with
        | ENone => run fuel' c rest errs_rev out_rev
        | _ =>
          let l := match r with ESeq l => l | EOne x => [x] | _ => [] end in
          if is_insert l then
            match rest with
            | [] => Raised (rev out_rev)               (* popleft on an empty deque: IndexError escapes *)
            | _ :: rest' => run fuel' c (map (fun i => (i, d)) (concrete next l) ++ rest') errs_rev out_rev
            end
          else run fuel' c (map (fun i => (i, d)) (concrete next l) ++ dropge d rest) errs_rev out_rev
        end
      end
    end
  end.

Definition extract (c : cfg) (root : item) : outcome := run 2000 c [(root, 0)] [] [].

(* finite-table configurations for generated cases *)
Fixpoint lookup {A} (d : A) (l : list (nat * A)) (k : nat) : A :=
  match l with [] => d | (k', v) :: r => if k =? k' then v else lookup d r k end.
Definition mkcfg (u : list (nat * ures)) (e : list (nat * eres)) : cfg :=
  {| unwrap := lookup UNone u; elab := lookup ENone e |}.

(* boolean equality on outcomes, for in-Coq comparison against the implementation's observed result *)
Definition err_eqb (a b : err) := match a, b with
  | EUnwrap x, EUnwrap y | EIter x, EIter y | ELoop x, ELoop y | EElab x, EElab y => x =? y | _, _ => false end.
Fixpoint list_eqb {A} (eq : A -> A -> bool) (a b : list A) : bool :=
  match a, b with [], [] => true | x :: a', y :: b' => eq x y && list_eqb eq a' b' | _, _ => false end.
Definition leaf_eqb (a b : leaf) := match a, b with
  | LNone, LNone => true | LOne x, LOne y => item_eqb x y | LMany x, LMany y => list_eqb item_eqb x y | _, _ => false end.
Definition fr_eqb (a b : nat * bool) := (fst a =? fst b) && Bool.eqb (snd a) (snd b).
Definition outcome_eqb (a b : outcome) := match a, b with
  | Ok f l e, Ok f' l' e' => list_eqb fr_eqb f f' && leaf_eqb l l' && list_eqb err_eqb e e'
  | Raised f, Raised f' => true
  | OutOfFuel, OutOfFuel => true | _, _ => false end.

Fixpoint mismatches (n : nat) (cases : list (cfg * item * outcome)) : list nat :=
  match cases with
  | [] => []
  | (c, r, o) :: rest => (if outcome_eqb (extract c r) o then [] else [n]) ++ mismatches (S n) rest
  end.
