import dis
class M: pass
async def f_ifret(c):
    async with M(2) as b:
        if c:
            return 5
dis.dis(f_ifret)
