"""Prototype of a predecessor-based resolution for currently_exiting_context (3.11+)."""
import dis, sys, types
from stackscope import _lowlevel as ll
op = dis.opmap
_orig = ll.currently_exiting_context

def resolve_exit_site(co, first_load):
    """first_load: offset of the first of the three LOAD_CONST None before the __exit__ call"""
    code = co.co_code
    table = list(ll._parse_exception_table(co))
    def with_handler_covering(pos):
        seen = set()
        while pos not in seen:
            seen.add(pos)
            for start, end, target, *_ in table:
                if start <= pos <= end:
                    if code[target] == op["PUSH_EXC_INFO"] and code[target + 2] == op["WITH_EXCEPT_START"]:
                        return target
                    pos = target
                    break
            else:
                return None
        return None
    # predecessor map
    preds = {}
    insns = list(dis.get_instructions(co, show_caches=False))
    nofall = {"RETURN_VALUE", "RETURN_CONST", "RAISE_VARARGS", "RERAISE", "JUMP_FORWARD", "JUMP_BACKWARD", "JUMP_BACKWARD_NO_INTERRUPT"}
    for i, ins in enumerate(insns):
        if ins.opcode in dis.hasjrel or ins.opcode in dis.hasjabs:
            preds.setdefault(ins.argval, []).append(ins.offset)
        if ins.opname not in nofall and i + 1 < len(insns):
            preds.setdefault(insns[i + 1].offset, []).append(ins.offset)
    byoff = {i.offset: i for i in insns}
    todo = [first_load]; seen = set()
    while todo:
        pos = todo.pop()
        for p in preds.get(pos, ()):
            if p in seen: continue
            seen.add(p)
            if byoff[p].opname in ("SWAP", "NOP"):
                todo.append(p); continue
            t = with_handler_covering(p)
            if t is not None:
                return t
    return None

def patched(frame):
    """Same as original but for 3.11+ normal-exit sites use resolve_exit_site"""
    import warnings
    code = frame.f_code.co_code
    offs = frame.f_lasti
    if offs < 0: return None
    # F1 fix: lasti may rest on an inline cache entry
    while offs >= 2 and code[offs] == op["CACHE"]:
        offs -= 2
    fr2 = types.SimpleNamespace(f_code=frame.f_code, f_lasti=offs)
    with warnings.catch_warnings():
        warnings.simplefilter("ignore")
        res = _orig(fr2)
    # Determine whether this is a normal-exit site: re-derive first_load as in the original
    o = offs
    is_async = False
    if code[o] == op["YIELD_VALUE"] and o >= 2:
        o -= 2
        while code[o] == op["CACHE"] and o >= 2: o -= 2
        is_async = True
    if code[o] == op["SEND"]:
        o -= 2; is_async = True
    elif is_async:
        return None
    if is_async:
        if code[o] != op["LOAD_CONST"]: return res
        o -= 2
        while o and code[o] == op["EXTENDED_ARG"]: o -= 2
        if code[o] != op["GET_AWAITABLE"] or code[o+1] != 2: return None
        o -= 2
    if code[o] == op["WITH_EXCEPT_START"]:
        return res
    while o and code[o] == op["CACHE"]: o -= 2
    if code[o:o+2] != bytes([op["CALL"], 2]): return None
    o -= 2
    if sys.version_info < (3, 12):
        while o > 4 and code[o] == op["CACHE"]: o -= 2
        if code[o] != op["PRECALL"]: return None
        o -= 2
    for _ in range(3):
        if code[o] != op["LOAD_CONST"] or frame.f_code.co_consts[code[o+1]] is not None:
            return res  # EXTENDED_ARG cases etc: fall back to original
        o -= 2
    first_load = o + 2
    t = resolve_exit_site(frame.f_code, first_load)
    if t is None: return None
    return ll.ExitingContext(is_async=is_async, cleanup_offset=t)
