import sys, types, warnings
import stackscope
from stackscope import lowlevel as ll
ll.set_trickery_enabled(False)
@types.coroutine
def trap(v): return (yield v)
class M:
    def __init__(s, n): s.n=n
    def __repr__(s): return f"M{s.n}"
    async def __aenter__(s): await trap(("enter", s.n)); return s
    async def __aexit__(s, *a): await trap(("exit", s.n))
class S:
    def __init__(s, n): s.n=n
    def __repr__(s): return f"S{s.n}"
    def __enter__(s): return s
    def __exit__(s, *a): pass
async def f(c):
    with S(0):
        async with M(1) as a:
            with S(2):
                async with M(3):
                    await trap("body")
                    if c: raise KeyError
for c in (False, True):
    co = f(c)
    try:
        while True:
            v = co.send(None)
            cs = ll.contexts_active_in_frame(co.cr_frame, co)
            print(c, v, [(x.obj, x.is_async, x.is_exiting) for x in cs])
    except (StopIteration, KeyError): pass
