import sys, types
import stackscope
from stackscope import extract, elaborate_frame, unwrap_stackitem, PRUNE

print("--- F4 glue history")
log=[]
def mk(name):
    m = types.ModuleType(name)
    m._stackscope_install_glue_ = lambda: log.append(name)
    return m
extract(None)
sys.modules['zz_a'] = mk('zz_a'); extract(None); print(log)
del sys.modules['zz_a']; sys.modules['zz_b'] = mk('zz_b'); extract(None); print("after remove a add b:", log)
sys.modules['zz_c'] = mk('zz_c'); extract(None); print("after add c:", log)

print("--- F7")
# root -> (A, G, H); A -> (F,)  F@2 inserts (X, G); G prunes; H should be removed
def fF(): return sys._getframe(0)
def fG(): return sys._getframe(0)
def fH(): return sys._getframe(0)
def fX(): return sys._getframe(0)
F,G,H,X = fF(), fG(), fH(), fX()
class Root: pass
class A: pass
@unwrap_stackitem.register(Root)
def _(r): return (A(), G, H)
@unwrap_stackitem.register(A)
def _(a): return (F,)
ins = [True]
@elaborate_frame.register(fF)
def _(frame, nxt): return (X, nxt) if ins[0] else None
@elaborate_frame.register(fG)
def _(frame, nxt): return PRUNE
s = extract(Root()); print("with insert:", [f.funcname for f in s.frames], s.leaf, s.error)
ins[0]=False
s = extract(Root()); print("no insert:", [f.funcname for f in s.frames], s.leaf, s.error)
