"""scratch prototype: run real stackscope.extract on synthetic hook tables, emit cases.v"""
import random, sys, types, time
import stackscope
from stackscope import extract, unwrap_stackitem, elaborate_frame, yields_frames

NF, NO = 5, 5   # frame ids 0..NF-1, object ids 0..NO-1


class Boom(Exception):
    def __init__(self, kind, ident):
        self.kind, self.ident = kind, ident


def make_case(rng):
    # random tables
    def ritem(lo=-1):
        # acyclic: only items of strictly higher rank than `lo` (rank = index, shared by frames and objects)
        cands = [("F", i) for i in range(lo + 1, NF)] + [("O", i) for i in range(lo + 1, NO)]
        return rng.choice(cands)
    unwrap = {}
    for o in range(NO):
        k = rng.random()
        if o == NO - 1:
            unwrap[o] = ("one", ("O", o)) if k < 0.3 else ("none",)   # linear self-loop: the 100-step guard
            continue
        if k < 0.2: unwrap[o] = ("none",)
        elif k < 0.4: unwrap[o] = ("one", ritem(o))
        elif k < 0.8: unwrap[o] = ("seq", [None if rng.random() < 0.1 else ritem(o) for _ in range(rng.randrange(0, 4))])
        elif k < 0.92: unwrap[o] = ("iter", [ritem(o) for _ in range(rng.randrange(0, 3))], rng.random() < 0.5)
        else: unwrap[o] = ("raise",)
    elab = {}
    for f in range(NF):
        k = rng.random()
        if f == NF - 1: elab[f] = ("none",) if k < 0.6 else ("seq", [] if k < 0.8 else [("N",)]); continue
        if k < 0.45: elab[f] = ("none",)
        elif k < 0.55: elab[f] = ("seq", [])
        elif k < 0.7: elab[f] = ("seq", [("I", ritem(f)) for _ in range(rng.randrange(1, 3))])
        elif k < 0.85: elab[f] = ("seq", [("I", ritem(f)) for _ in range(rng.randrange(0, 2))] + [("N",)])
        elif k < 0.93: elab[f] = ("one", ("I", ritem(f)))
        else: elab[f] = ("raise",)
    return unwrap, elab, ritem()


def run_impl(case):
    unwrap, elab, root = case
    # fresh frames (distinct code objects) and fresh object classes per case
    frames, codes = [], []
    for f in range(NF):
        ns = {}
        exec(f"import sys\ndef frame_{f}():\n    __tracebackhide__ = True\n    return sys._getframe(0)\n", ns)
        fr = ns[f"frame_{f}"]()
        frames.append(fr); codes.append(ns[f"frame_{f}"])
    classes = [type(f"Obj{o}", (), {"__repr__": lambda self, o=o: f"<O{o}>"}) for o in range(NO)]
    objs = [cls() for cls in classes]

    def conv(it):
        return frames[it[1]] if it[0] == "F" else objs[it[1]]

    for o in range(NO):
        spec = unwrap[o]
        if spec[0] == "none":
            continue
        if spec[0] == "one":
            unwrap_stackitem.register(classes[o], lambda x, s=spec: conv(s[1]))
        elif spec[0] == "seq":
            unwrap_stackitem.register(classes[o], lambda x, s=spec: tuple(None if i is None else conv(i) for i in s[1]))
        elif spec[0] == "iter":
            def gen(x, s=spec, o=o):
                for i in s[1]:
                    yield conv(i)
                if s[2]:
                    raise Boom("iter", o)
            unwrap_stackitem.register(classes[o], yields_frames(gen))
        elif spec[0] == "raise":
            def bad(x, o=o):
                raise Boom("unwrap", o)
            unwrap_stackitem.register(classes[o], bad)
    for f in range(NF):
        spec = elab[f]
        if spec[0] == "none":
            continue
        def hook(frame, nxt, s=spec, f=f):
            if s[0] == "raise":
                raise Boom("elab", f)
            if s[0] == "one":
                return conv(s[1][1])
            return tuple(nxt if r[0] == "N" else conv(r[1]) for r in s[1])
        elaborate_frame.register(codes[f], hook)

    fid = {id(fr): i for i, fr in enumerate(frames)}
    oid = {id(ob): i for i, ob in enumerate(objs)}

    def back(x):
        if isinstance(x, stackscope.Frame): x = x.pyframe
        if id(x) in fid: return ("F", fid[id(x)])
        return ("O", oid[id(x)])
    try:
        st = extract(conv(root), with_contexts=False)
    except IndexError:
        return ("raised",)
    fr = [(fid[id(f.pyframe)], not f.hide) for f in st.frames]   # hide was forced True by __tracebackhide__ unless un-hidden
    if st.leaf is None: lf = ("none",)
    elif isinstance(st.leaf, list): lf = ("many", [back(x) for x in st.leaf])
    else: lf = ("one", back(st.leaf))
    errs = []
    if st.error is not None:
        es = st.error.exceptions if hasattr(st.error, "exceptions") else [st.error]
        for e in es:
            if isinstance(e, Boom): errs.append((e.kind, e.ident))
            elif isinstance(e, RuntimeError) and "more than 100 times" in str(e):
                errs.append(("loop", int(str(e).split(">")[0].split("<O")[1])))
            else: errs.append(("other", repr(e)))
    return ("ok", fr, lf, errs)


def coq_item(it): return f"(IFrame {it[1]})" if it[0] == "F" else f"(IObj {it[1]})"
def coq_list(xs): return "[" + "; ".join(xs) + "]"
def coq_bool(b): return "true" if b else "false"

def coq_case(case, res):
    unwrap, elab, root = case
    us = []
    for o, s in unwrap.items():
        if s[0] == "none": v = "UNone"
        elif s[0] == "one": v = f"UOne {coq_item(s[1])}"
        elif s[0] == "seq": v = "USeq " + coq_list(["None" if i is None else f"Some {coq_item(i)}" for i in s[1]])
        elif s[0] == "iter": v = f"UIter {coq_list([coq_item(i) for i in s[1]])} {coq_bool(s[2])}"
        else: v = "URaise"
        us.append(f"({o}, {v})")
    es = []
    def rit(r): return "RNext" if r[0] == "N" else f"RItem {coq_item(r[1])}"
    for f, s in elab.items():
        if s[0] == "none": v = "ENone"
        elif s[0] == "seq": v = "ESeq " + coq_list([rit(r) for r in s[1]])
        elif s[0] == "one": v = f"EOne ({rit(s[1])})"
        else: v = "ERaise"
        es.append(f"({f}, {v})")
    if res[0] == "raised": out = "Raised []"
    else:
        _, fr, lf, errs = res
        frs = coq_list([f"({f}, {coq_bool(u)})" for f, u in fr])
        if lf[0] == "none": l = "LNone"
        elif lf[0] == "one": l = f"(LOne {coq_item(lf[1])})"
        else: l = "(LMany " + coq_list([coq_item(i) for i in lf[1]]) + ")"
        km = {"unwrap": "EUnwrap", "iter": "EIter", "loop": "ELoop", "elab": "EElab"}
        er = coq_list([f"{km[k]} {i}" for k, i in errs])
        out = f"Ok {frs} {l} {er}"
    return f"(mkcfg {coq_list(us)} {coq_list(es)}, {coq_item(root)}, {out})"


if __name__ == "__main__":
    n = int(sys.argv[1]); seed = int(sys.argv[2])
    rng = random.Random(seed)
    t0 = time.time()
    rows = []; kinds = {}
    for _ in range(n):
        case = make_case(rng)
        res = run_impl(case)
        kinds[res[0]] = kinds.get(res[0], 0) + 1
        rows.append(coq_case(case, res))
    with open("/tmp/probe/coq/cases.v", "w") as fh:
        fh.write("Require Import Frames.\nFrom Coq Require Import List. Import ListNotations.\n")
        fh.write("Definition cases : list (cfg * item * outcome) := [\n" + ";\n".join(rows) + "].\n")
        fh.write("Eval vm_compute in (mismatches 0 cases).\n")
    print("impl time", time.time() - t0, kinds)
