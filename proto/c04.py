import sys, itertools
import stackscope
from stackscope import extract, StackSlice, extract_since, extract_until
import greenlet

def true_stack():
    # frames of this thread through greenlet parents, outermost first, starting from caller
    fr = sys._getframe(1)
    out=[]
    g = greenlet.getcurrent()
    while g is not None:
        while fr is not None:
            out.append(fr); fr = fr.f_back
        g = g.parent
        if g is not None: fr = g.gr_frame
    return out[::-1]

bad = []
def leaf():
    ts = true_stack()  # ends with leaf frame
    n = len(ts)
    cnt=0
    for oi in [None]+list(range(n)):
        for ii in [None]+list(range(n)):
            for lim in [None]+list(range(1,n+2)):
                outer = None if oi is None else ts[oi]
                inner = None if ii is None else ts[ii]
                st = extract(StackSlice(outer=outer, inner=inner, limit=lim), with_contexts=False)
                got = [f.pyframe for f in st.frames]
                lo = 0 if oi is None else oi
                hi = n-1 if ii is None else ii
                exp = ts[lo:hi+1] if lo<=hi else None
                if exp is not None and lim is not None and len(exp)>lim:
                    if inner is None and outer is not None: exp = exp[:lim]
                    else: exp = exp[-lim:]
                cnt+=1
                if exp is None:
                    continue
                if got != exp or st.error is not None:
                    bad.append((oi,ii,lim,[f.f_code.co_name for f in got],[f.f_code.co_name for f in exp], st.error))
    return cnt

def rec(k, f):
    if k==0: return f()
    return rec(k-1, f)

print("plain", rec(3, leaf), len(bad)); print(bad[:5]); bad.clear()
def in_glet():
    g = greenlet.greenlet(lambda: rec(2, leaf))
    return g.switch()
print("glet", rec(2, in_glet), len(bad)); 
for b in bad[:10]: print(b)
bad.clear()
def in_glet2():
    def mid():
        g2 = greenlet.greenlet(lambda: rec(1, leaf))
        return rec(1, g2.switch)
    g = greenlet.greenlet(mid)
    return g.switch()
print("glet2", rec(1, in_glet2), len(bad)); 
for b in bad[:10]: print(b)
