"""Scratch prototype (design phase only): abstract with-machine for CPython 3.12 bytecode.

Forward dataflow over a code object computing, per instruction offset, the abstract value
stack (tags) and the abstract "truth" (which with-sites are entering/active/exiting).
"""
import dis, sys, types, collections

assert sys.version_info[:2] == (3, 12)
OP = dis.opmap


def pops_pushes(ins):
    """(pops, pushes) on the fall-through edge for generic instructions."""
    n = ins.opname
    a = ins.arg or 0
    T = {
        "NOP": (0, 0), "RESUME": (0, 0), "CACHE": (0, 0), "EXTENDED_ARG": (0, 0),
        "POP_TOP": (1, 0), "PUSH_NULL": (0, 1), "END_FOR": (2, 0),
        "UNARY_NEGATIVE": (1, 1), "UNARY_NOT": (1, 1), "UNARY_INVERT": (1, 1),
        "BINARY_OP": (2, 1), "BINARY_SUBSCR": (2, 1), "BINARY_SLICE": (3, 1),
        "STORE_SLICE": (4, 0), "STORE_SUBSCR": (3, 0), "DELETE_SUBSCR": (2, 0),
        "GET_LEN": (1, 2), "MATCH_MAPPING": (1, 2), "MATCH_SEQUENCE": (1, 2), "MATCH_KEYS": (2, 3),
        "MATCH_CLASS": (3, 1),
        "GET_ITER": (1, 1), "GET_YIELD_FROM_ITER": (1, 1), "GET_AITER": (1, 1), "GET_ANEXT": (1, 2),
        "LOAD_BUILD_CLASS": (0, 1), "LOAD_ASSERTION_ERROR": (0, 1), "LOAD_LOCALS": (0, 1),
        "STORE_NAME": (1, 0), "DELETE_NAME": (0, 0), "STORE_ATTR": (2, 0), "DELETE_ATTR": (1, 0),
        "STORE_GLOBAL": (1, 0), "DELETE_GLOBAL": (0, 0), "STORE_FAST": (1, 0), "DELETE_FAST": (0, 0),
        "STORE_DEREF": (1, 0), "DELETE_DEREF": (0, 0),
        "LOAD_CONST": (0, 1), "LOAD_NAME": (0, 1), "LOAD_FAST": (0, 1), "LOAD_FAST_CHECK": (0, 1),
        "LOAD_FAST_AND_CLEAR": (0, 1), "LOAD_DEREF": (0, 1), "LOAD_CLOSURE": (0, 1),
        "LOAD_FROM_DICT_OR_DEREF": (1, 1), "LOAD_FROM_DICT_OR_GLOBALS": (1, 1),
        "MAKE_CELL": (0, 0), "COPY_FREE_VARS": (0, 0), "SETUP_ANNOTATIONS": (0, 0),
        "IMPORT_NAME": (2, 1), "IMPORT_FROM": (1, 2),
        "COMPARE_OP": (2, 1), "IS_OP": (2, 1), "CONTAINS_OP": (2, 1),
        "CHECK_EXC_MATCH": (2, 2), "CHECK_EG_MATCH": (2, 2),
        "LIST_APPEND": (1, 0), "SET_ADD": (1, 0), "MAP_ADD": (2, 0),
        "LIST_EXTEND": (1, 0), "SET_UPDATE": (1, 0), "DICT_UPDATE": (1, 0), "DICT_MERGE": (1, 0),
        "FORMAT_VALUE": ((2 if (a & 4) else 1), 1),
        "CALL_INTRINSIC_1": (1, 1), "CALL_INTRINSIC_2": (2, 1),
        "KW_NAMES": (0, 0), "RETURN_GENERATOR": (0, 1),
        "END_ASYNC_FOR": (2, 0),
    }
    if n in T:
        return T[n]
    if n == "LOAD_GLOBAL":
        return (0, 2 if (a & 1) else 1)
    if n == "LOAD_ATTR":
        return (1, 2 if (a & 1) else 1)
    if n == "LOAD_SUPER_ATTR":
        return (3, 2 if (a & 1) else 1)
    if n in ("BUILD_TUPLE", "BUILD_LIST", "BUILD_SET", "BUILD_STRING"):
        return (a, 1)
    if n == "BUILD_MAP":
        return (2 * a, 1)
    if n == "BUILD_CONST_KEY_MAP":
        return (a + 1, 1)
    if n == "BUILD_SLICE":
        return (a, 1)
    if n == "UNPACK_SEQUENCE":
        return (1, a)
    if n == "UNPACK_EX":
        return (1, (a & 0xFF) + (a >> 8) + 1)
    if n == "CALL_FUNCTION_EX":
        return (3 + (1 if a & 1 else 0), 1)
    if n == "MAKE_FUNCTION":
        return (1 + bin(a & 0xF).count("1"), 1)
    if n == "RAISE_VARARGS":
        return (a, 0)
    raise KeyError(n)


NO_FALLTHROUGH = {"RETURN_VALUE", "RETURN_CONST", "RAISE_VARARGS", "RERAISE", "JUMP_FORWARD",
                  "JUMP_BACKWARD", "JUMP_BACKWARD_NO_INTERRUPT", "INTERPRETER_EXIT"}
CANNOT_RAISE = {"NOP", "CACHE", "EXTENDED_ARG", "JUMP_FORWARD", "JUMP_BACKWARD_NO_INTERRUPT", "POP_TOP",
                "LOAD_CONST", "LOAD_FAST", "PUSH_NULL", "STORE_FAST", "MAKE_CELL", "COPY_FREE_VARS", "LOAD_CLOSURE",
                "RETURN_GENERATOR", "KW_NAMES", "LOAD_FAST_AND_CLEAR", "END_FOR", "UNARY_NOT_", "IS_OP"}


def parse_table(code):
    return list(dis._parse_exception_table(code))  # independent of stackscope


def lookup(tab, pc):
    for e in tab:
        if e.start <= pc < e.end:
            return e
    return None


class Conflict(Exception):
    pass


def analyse(code):
    """Returns dict pc -> (stack tuple, truth tuple) at instruction entry, plus 'during' notes."""
    instrs = [i for i in dis.get_instructions(code, show_caches=True)]
    by_off = {i.offset: i for i in instrs}
    offs = [i.offset for i in instrs]
    nxt = {offs[k]: offs[k + 1] for k in range(len(offs) - 1)}
    tab = parse_table(code)
    state = {}
    work = collections.deque()
    info = {"events": {}}

    def flow(pc, st, tr, frm):
        key = (tuple(st), tuple(tr))
        if pc in state:
            if state[pc] != key:
                raise Conflict(f"{code.co_name}@{code.co_filename}:{code.co_firstlineno} pc={pc} from {frm}: {state[pc]} vs {key}")
            return
        state[pc] = key
        work.append(pc)

    def exc_edge(pc, st, tr, drop_phases=(), keep=False):
        e = lookup(tab, pc)
        if e is None:
            return
        tr2 = tuple(t for t in tr if keep or t[1] == "active")
        st2 = list(st[: e.depth])
        if len(st) < e.depth:
            raise Conflict(f"{code.co_name} pc={pc}: stack {len(st)} shallower than handler depth {e.depth}")
        if e.lasti:
            st2.append("L")
        st2.append("E")
        flow(e.target, st2, tr2, ("exc", pc))

    flow(0, (), (), "entry")
    while work:
        pc = work.popleft()
        ins = by_off[pc]
        st, tr = state[pc]
        st = list(st)
        tr = list(tr)
        n = ins.opname
        a = ins.arg or 0
        nx = nxt.get(pc)

        def setphase(site, ph):
            return [(s, (ph if s == site else p), asy) for (s, p, asy) in tr]

        def remove(site):
            return [(s, p, asy) for (s, p, asy) in tr if s != site]

        if n in ("BEFORE_WITH", "BEFORE_ASYNC_WITH"):
            asy = n == "BEFORE_ASYNC_WITH"
            st.pop()
            # enter raised: not added
            exc_edge(pc, st + ["O"], tr)  # conservative: stack before pop irrelevant below depth
            if asy:
                flow(nx, st + [("X", pc), ("EA", pc)], tr + [(pc, "entering", True)], pc)
            else:
                flow(nx, st + [("X", pc), "O"], tr + [(pc, "active", False)], pc)
            continue
        if n == "GET_AWAITABLE":
            exc_edge(pc, st, tr, ("entering", "exiting"))
            flow(nx, st, tr, pc)  # keeps tag
            continue
        if n == "SEND":
            recv = st[-2]
            # raising: the awaited thing raised
            exc_edge(pc, st, tr, ("entering", "exiting") if isinstance(recv, tuple) else ())
            # yielded: [recv, yielded]
            flow(nx, st[:-1] + ["O"], tr, pc)
            # completed: jump with [recv, result]; event
            tr2 = tr
            if isinstance(recv, tuple) and recv[0] == "EA":
                tr2 = setphase(recv[1], "active")
            elif isinstance(recv, tuple) and recv[0] == "XA":
                tr2 = remove(recv[1])
            flow(ins.argval, st[:-1] + ["O"], tr2, pc)
            continue
        if n == "END_SEND":
            flow(nx, st[:-2] + [st[-1]], tr, pc)
            continue
        if n == "YIELD_VALUE":
            st.pop()
            info["events"][pc] = ("suspend", tuple(st), tuple(tr))
            exc_edge(pc, st + ["O"], tr, keep=True)  # throw() into suspended frame: None pushed first
            flow(nx, st + ["O"], tr, pc)
            continue
        if n == "CLEANUP_THROW":
            recv = st[-3]
            drop = ("entering", "exiting") if isinstance(recv, tuple) else ()
            exc_edge(pc, st, tr, drop)
            tr2 = tr
            if isinstance(recv, tuple) and recv[0] == "EA":
                tr2 = setphase(recv[1], "active")
            elif isinstance(recv, tuple) and recv[0] == "XA":
                tr2 = remove(recv[1])
            flow(nx, st[:-3] + [recv, "O"], tr2, pc)
            continue
        if n == "CALL":
            callee = st[-(a + 2)]
            if isinstance(callee, tuple) and callee[0] == "X":
                site = callee[1]
                asy = [t for t in tr if t[0] == site][0][2]
                info["events"][pc] = ("exitcall", site, tuple(st), tuple(setphase(site, "exiting")))
                exc_edge(pc, st, remove(site))
                if asy:
                    flow(nx, st[: -(a + 2)] + [("XA", site)], setphase(site, "exiting"), pc)
                else:
                    flow(nx, st[: -(a + 2)] + ["O"], remove(site), pc)
            else:
                info["events"][pc] = ("call", tuple(st), tuple(tr))
                exc_edge(pc, st, tr)
                flow(nx, st[: -(a + 2)] + ["O"], tr, pc)
            continue
        if n == "WITH_EXCEPT_START":
            callee = st[-4]
            assert isinstance(callee, tuple) and callee[0] == "X", (code.co_name, pc, st)
            site = callee[1]
            asy = [t for t in tr if t[0] == site][0][2]
            info["events"][pc] = ("exitcall", site, tuple(st), tuple(setphase(site, "exiting")))
            exc_edge(pc, st, remove(site))
            if asy:
                flow(nx, st + [("XA", site)], setphase(site, "exiting"), pc)
            else:
                flow(nx, st + ["O"], remove(site), pc)
            continue
        if n == "SWAP":
            st[-1], st[-a] = st[-a], st[-1]
            flow(nx, st, tr, pc)
            continue
        if n == "COPY":
            flow(nx, st + [st[-a]], tr, pc)
            continue
        if n == "PUSH_EXC_INFO":
            flow(nx, st[:-1] + ["E", st[-1]], tr, pc)
            continue
        if n == "POP_EXCEPT":
            flow(nx, st[:-1], tr, pc)
            continue
        if n == "RERAISE":
            exc_edge(pc, st, tr)
            continue
        if n in ("RETURN_VALUE", "RETURN_CONST", "INTERPRETER_EXIT"):
            continue
        if n in ("POP_JUMP_IF_FALSE", "POP_JUMP_IF_TRUE", "POP_JUMP_IF_NONE", "POP_JUMP_IF_NOT_NONE"):
            if n in ("POP_JUMP_IF_FALSE", "POP_JUMP_IF_TRUE"): exc_edge(pc, st, tr)
            st.pop()
            flow(nx, st, tr, pc)
            flow(ins.argval, st, tr, pc)
            continue
        if n in ("JUMP_FORWARD", "JUMP_BACKWARD", "JUMP_BACKWARD_NO_INTERRUPT"):
            if n == "JUMP_BACKWARD":
                exc_edge(pc, st, tr)
            flow(ins.argval, st, tr, pc)
            continue
        if n == "FOR_ITER":
            exc_edge(pc, st, tr)
            flow(nx, st + ["O"], tr, pc)
            # exhausted: 3.12 jumps to END_FOR with [iter, null]
            flow(ins.argval, st + ["O"], tr, pc)
            continue
        # generic
        p, q = pops_pushes(ins)
        if n not in CANNOT_RAISE:
            exc_edge(pc, st, tr)
        if p > len(st):
            raise Conflict(f"{code.co_name} pc={pc} {n}: pops {p} > depth {len(st)}")
        popped = st[len(st) - p:] if p else []
        if any(isinstance(x, tuple) for x in popped) and n != "POP_TOP" and n != "STORE_FAST":
            raise Conflict(f"{code.co_name} pc={pc} {n}: generic instr consumes tagged {popped}")
        st = st[: len(st) - p] + ["O"] * q
        if n not in NO_FALLTHROUGH:
            flow(nx, st, tr, pc)
    return state, info, tab, by_off


def iter_codes(co):
    yield co
    for c in co.co_consts:
        if isinstance(c, types.CodeType):
            yield from iter_codes(c)


if __name__ == "__main__":
    import os, glob, warnings
    from stackscope import _lowlevel as ll
    warnings.simplefilter("ignore")
    root = os.path.dirname(os.__file__)
    files = glob.glob(root + "/*.py") + glob.glob(root + "/*/*.py")
    nfun = nwith = nconf = nsites = nbad = nunsup = 0
    bad = []
    for fn in sorted(files):
        if "/test/" in fn or "lib2to3/tests" in fn or "/idlelib/" in fn:
            continue
        try:
            src = open(fn, encoding="utf-8").read()
            top = compile(src, fn, "exec")
        except Exception:
            continue
        for co in iter_codes(top):
            if not any(i.opname in ("BEFORE_WITH", "BEFORE_ASYNC_WITH") for i in dis.get_instructions(co)):
                continue
            nfun += 1
            try:
                state, info, tab, by_off = analyse(co)
            except KeyError as e:
                nunsup += 1; print("unsupported opcode", e); continue
            except Conflict as e:
                nconf += 1; print("CONFLICT", e); continue
            wbi = ll.analyze_with_blocks(co)
            # handler target per site: find via truth: site -> handler = target of entry covering the instr after enter completes
            for pc, ev in info["events"].items():
                kind = ev[0]
                if kind == "exitcall":
                    site = ev[1]
                    nsites += 1
                    stub = types.SimpleNamespace(f_code=co, f_lasti=pc)
                    try:
                        ex = ll.currently_exiting_context(stub)
                    except Exception as e:
                        ex = e
                    # expected handler: the with-handler of `site`: find entry whose handler's WITH_EXCEPT_START calls X(site)
                    exp = None
                    for hpc, hev in info["events"].items():
                        if hev[0] == "exitcall" and hev[1] == site and by_off[hpc].opname == "WITH_EXCEPT_START":
                            exp = hpc - 2
                    got = getattr(ex, "cleanup_offset", ex)
                    if got != exp:
                        nbad += 1
                        bad.append((fn.replace(root, ""), co.co_name, co.co_firstlineno, pc, by_off[pc].opname, got, exp))
    print("functions with with:", nfun, "conflicts:", nconf, "unsupported:", nunsup, "exit-call sites:", nsites, "mis-resolved:", nbad)
    for b in bad[:60]:
        print(b)
