import sys, contextlib, pickle, asyncio, types
import stackscope
from stackscope import extract
class CM:
    def __enter__(self): return self
    def __exit__(self,*a): pass
    def other(self,*a): pass
class ACM:
    async def __aenter__(self): return self
    async def __aexit__(self,*a): pass
    async def aother(self,*a): pass
def fn(*a): pass
async def afn(*a): pass
@types.coroutine
def trap(): yield
async def main():
    async with contextlib.AsyncExitStack() as st:
        st.enter_context(CM()); st.push(CM()); st.push(fn); st.push(CM().other); st.callback(fn, 1, k=2)
        await st.enter_async_context(ACM()); st.push_async_exit(ACM()); st.push_async_exit(afn); st.push_async_exit(ACM().aother); st.push_async_callback(afn, 3)
        await trap()
co = main(); co.send(None)
s = extract(co)
for ch in s.frames[0].contexts[0].children:
    print(type(ch.obj).__name__, ch.is_async, ch.varname, "|", ch.description)
print("--- C19: hidden exiting last ctx")
fr = s.frames[0]
fr.contexts[0].is_exiting = True; fr.contexts[0].hide = True
print(len(s.as_stdlib_summary(show_contexts=True)), len(s.as_stdlib_summary(show_contexts=False)))
summ = s.as_stdlib_summary(show_contexts=True, show_hidden_frames=True, capture_locals=True)
p = pickle.loads(pickle.dumps(summ)); print(type(p), len(p), p == summ)
