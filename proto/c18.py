import sys, contextlib, types
import stackscope
from stackscope import Stack, Frame, Context
from contextlib import contextmanager, ExitStack

@contextmanager
def null_context():
    yield
def some_cb(*a, **kw): pass
@contextmanager
def inner_context():
    stack = ExitStack()
    with stack:
        stack.enter_context(null_context())
        stack.callback(some_cb, 10, "hi", answer=42)
        yield "inner"
@contextmanager
def outer_context():
    with inner_context() as inner:
        yield "outer"
def example():
    with outer_context():
        yield
def call_example():
    yield from example()
gen = call_example(); next(gen)
st = stackscope.extract(gen)
# add synthetic pieces: child task stacks, error, leaf
fr = st.frames[1]
ctx = fr.contexts[0]
child_stack = Stack(root="TASK", frames=[Frame(pyframe=sys._getframe(0))], leaf="LEAF", error=ValueError("boom"))
stub = Stack(root="STUB", frames=[])
ctx.children = [Context(obj=None, is_async=True, description="desc", children=[stub, child_stack]), child_stack, stub]
st.leaf = "TOPLEAF"; st.error = RuntimeError("x\ny")
print(st)
print("".join(st.format(ascii_only=True)))
