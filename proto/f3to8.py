import sys, types, contextlib
import stackscope
from stackscope import customize, extract, extract_since, elaborate_frame, unwrap_stackitem, PRUNE

print("--- F3 hide_line")
def target(): return extract_since(sys._getframe(0))
customize(target, hide_line=True)
print([ (f.funcname, f.hide_line) for f in target().frames])
@customize(hide_line=True, hide=True)
def target2(): return extract_since(sys._getframe(0))
print([ (f.funcname, f.hide, f.hide_line) for f in target2().frames])

print("--- F6 insert form on innermost frame")
def inner(): return extract_since(sys._getframe(0))
@elaborate_frame.register(inner)
def _(frame, next_inner):
    return ("leafy", next_inner)
try:
    s = inner(); print(s.frames, s.leaf, s.error)
except Exception as e:
    print("RAISED", repr(e))

print("--- F5 origin of frames inward of running coroutine")
@types.coroutine
def trap(): yield
res = {}
def probe():
    res['st'] = extract(res['co'])
async def afn():
    probe()
co = afn(); res['co'] = co
try: co.send(None)
except StopIteration: pass
for f in res['st'].frames:
    print(f.funcname, f.origin)
    if f.origin is not None:
        pass

print("--- F8 greenlet from descendant")
import greenlet
out = {}
def gchild():
    out['from_child'] = [f.funcname for f in extract(out['parent_glet']).frames]
    out['err'] = extract(out['parent_glet']).error
def gparent_body():
    c = greenlet.greenlet(gchild)
    c.switch()
def gparent():
    gparent_body()
def main_call():
    p = greenlet.greenlet(gparent); out['parent_glet'] = p
    p.switch()
main_call()
print(out)

print("--- falsy manager in ExitStack")
class Falsy:
    def __bool__(self): return False
    def __enter__(self): return self
    def __exit__(self,*a): pass
def g():
    with contextlib.ExitStack() as st:
        st.enter_context(Falsy())
        yield
gi = g(); next(gi)
s = extract(gi)
print([ (type(ch.obj).__name__, ch.description) for ch in s.frames[0].contexts[0].children])
