import sys, warnings, dis, types
import stackscope
from stackscope import lowlevel as ll
warnings.simplefilter("error")

@types.coroutine
def trap(v):
    return (yield v)

class M:
    def __init__(self, n): self.n=n
    def __repr__(self): return f"M({self.n})"
    async def __aenter__(self): return self
    async def __aexit__(self, *a):
        await trap(("exit", self.n))

async def f_try(c):
    async with M(1) as a:
        async with M(2) as b:
            try:
                if c: raise KeyError
            except KeyError:
                pass

async def f_ifret(c):
    async with M(1) as a:
        async with M(2) as b:
            if c:
                return 5

for fn in (f_try, f_ifret):
    for c in (False, True):
        co = fn(c)
        try:
            while True:
                v = co.send(None)
                try:
                    cs = ll.contexts_active_in_frame(co.cr_frame, co)
                    print(fn.__name__, c, v, [(x.obj, x.varname, x.is_exiting, x.start_line) for x in cs])
                except Exception as e:
                    print(fn.__name__, c, v, "ERR", repr(e))
        except StopIteration:
            pass
