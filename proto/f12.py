import sys
from stackscope import Stack, Frame, Context
class ML:
    def __repr__(self): return "<ML\nline2>"
st = Stack(root=None, frames=[Frame(pyframe=sys._getframe(0), contexts=[Context(obj=None, is_async=False, description="d1\nd2", children=[Stack(root=ML(), frames=[])])])], leaf=ML())
lines = st.format()
print([l for l in lines if l.count("\n") != 1 or not l.endswith("\n")])
