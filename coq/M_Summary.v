(* M_Summary.v — executable model of Stack.as_stdlib_summary / Stack._frame_summaries,
   Frame.as_stdlib_summary(_with_contexts), Context._frame_summaries and Stack.format_flat of
   stackscope/_types.py.  Definitions only.  Trees are those of M_Format.v.

   A FrameSummary is modelled by what a user can read from it: filename, lineno, name, the
   `line` property (looked up through linecache unless a line was supplied, then stripped) and
   `locals` (None | mapping).  The standard library re-reprs the supplied locals; the harness
   undoes that with ast.literal_eval, so locals are compared as the strings stackscope passed. *)
Require Import Base M_Format.
From Coq Require Import NArith String Ascii.

Record entry := { e_file : text; e_lineno : N; e_name : text; e_line : text;
                  e_locals : option (list (text * text)) }.

Definition f_file (f : frame) := let 'Frm _ _ _ x _ _ _ _ _ _ := f in x.
Definition f_func (f : frame) := let 'Frm x _ _ _ _ _ _ _ _ _ := f in x.
Definition f_lineno (f : frame) := let 'Frm _ _ _ _ x _ _ _ _ _ := f in x.
Definition f_src (f : frame) := let 'Frm _ _ _ _ _ x _ _ _ _ := f in x.
Definition f_locals (f : frame) := let 'Frm _ _ _ _ _ _ x _ _ _ := f in x.

(* Frame.as_stdlib_summary: traceback.FrameSummary(filename, lineno, funcname, locals=...);
   `locals if locals else None`: an empty mapping is reported as None *)
Definition frame_entry (cl : bool) (f : frame) : entry :=
  {| e_file := f_file f; e_lineno := f_lineno f; e_name := f_func f; e_line := f_src f;
     e_locals := if cl then (match f_locals f with [] => None | l => Some l end) else None |}.

Definition cm_key : text := a "<context manager>".

(* the FrameSummary that introduces a context (Context._frame_summaries, first yield) *)
Definition ctx_entry (parent : frame) (cl : bool) (override : option text) (c : context) : entry :=
  let 'Ctx _ _ _ _ sl ds cs _ orp _ _ _ := c in
  let info := name_and_type c in
  let eff := match sl with Some n => if N.eqb n 0 then None else Some n | None => None end in   (* start_line or ... *)
  {| e_file := f_file parent;
     e_lineno := match eff with Some n => n | None => f_lineno parent end;
     e_name := f_func parent ++ (if nonempty info then a " (" ++ info ++ a ")" else []);
     e_line := match override with
               | Some t => strip t                       (* override_line is never empty *)
               | None => match sl with
                         | None => []
                         | Some _ => match eff with Some _ => cs | None => f_src parent end
                         end
               end;
     e_locals := if cl then Some [(cm_key, if truthy ds then match ds with Some d => d | None => [] end else orp)]
                 else None |}.

Definition c_descr (c : context) := let 'Ctx _ _ _ _ _ d _ _ _ _ _ _ := c in d.
Definition c_repr (c : context) := let 'Ctx _ _ _ _ _ _ _ r _ _ _ _ := c in r.
Definition child_override (c : context) : text :=
  a "# " ++ (if truthy (c_descr c) then match c_descr c with Some d => d | None => [] end else c_repr c).

(* Stack._frame_summaries(show_contexts, show_hidden_frames, capture_locals) *)
Fixpoint sum_stack (sc sh cl : bool) (s : stack) : list entry :=
  flat_map (fun f => if f_hide f && negb sh then []
                     else if sc then sum_frame sh cl f else [frame_entry cl f]) (s_frames s)
(* Frame.as_stdlib_summary_with_contexts *)
with sum_frame (sh cl : bool) (f : frame) : list entry :=
  flat_map (sum_ctx f sh cl None) (f_ctxs f)
  ++ (if last_exiting (f_ctxs f) then [] else [frame_entry cl f])
(* Context._frame_summaries(parent, show_hidden_frames, capture_locals, override_line) *)
with sum_ctx (parent : frame) (sh cl : bool) (override : option text) (c : context) : list entry :=
  if c_hide c && negb sh then []
  else
    let 'Ctx _ _ _ _ _ _ _ _ _ inn ks _ := c in
    ctx_entry parent cl override c
    :: (match inn with Some s => sum_stack true sh cl s | None => [] end)
    ++ flat_map (fun k => match k with
                          | KCtx c' => sum_ctx parent sh cl (Some (child_override c')) c'
                          | KStk _ => []
                          end) ks.

Definition summary (sc sh cl : bool) (s : stack) : list entry := sum_stack sc sh cl s.

(* Stack.format_flat(show_contexts): [render] stands for traceback.StackSummary.format *)
Definition flat_leaf (l : option text) : list text :=
  match l with Some r => [a "  Target of innermost frame: " ++ r ++ nl] | None => [] end.
Definition flat_err (e : option (list text)) : list text :=
  err_lines text (fun t => t) (str_add false) e.

Definition format_flat (render : list entry -> list text) (sc : bool) (s : stack) : list text :=
  header_text (s_root s)
  :: (if nonempty (s_frames s) then render (summary sc false false s) else [])
  ++ flat_leaf (s_leaf s) ++ flat_err (s_err s).

(* ------------------------------------------------------------------ correspondence cases *)
Definition kv_eqb (x y : text * text) : bool := text_eqb (fst x) (fst y) && text_eqb (snd x) (snd y).
Definition entry_eqb (x y : entry) : bool :=
  text_eqb (e_file x) (e_file y) && N.eqb (e_lineno x) (e_lineno y) && text_eqb (e_name x) (e_name y)
  && text_eqb (e_line x) (e_line y) && option_eqb (list_eqb kv_eqb) (e_locals x) (e_locals y).

(* observed: Stack.as_stdlib_summary under (show_contexts, show_hidden_frames, capture_locals);
   Frame.as_stdlib_summary_with_contexts of the first frame under (show_hidden, capture_locals);
   format_flat(show_contexts) next to StackSummary.format() of the corresponding summary *)
Record scase := {
  sc_stack : stack;
  sc_sums : list (bool * bool * bool * list entry);
  sc_frame : list (bool * bool * list entry);
  sc_flat : list (bool * list text * list text)    (* show_contexts, rendering, format_flat *)
}.

Definition scase_ok (k : scase) : bool :=
  forallb (fun r => let '(sc, sh, cl, obs) := r in list_eqb entry_eqb (summary sc sh cl (sc_stack k)) obs) (sc_sums k)
  && forallb (fun r => let '(sh, cl, obs) := r in
                match s_frames (sc_stack k) with
                | f :: _ => list_eqb entry_eqb (sum_frame sh cl f) obs
                | [] => false
                end) (sc_frame k)
  && forallb (fun r => let '(sc, rend, obs) := r in
                list_eqb text_eqb (format_flat (fun _ => rend) sc (sc_stack k)) obs) (sc_flat k).

Definition smismatches (cases : list scase) : list nat := false_indices 0 (map scase_ok cases).
(* non-trivial: with contexts the summary differs from the plain frame series *)
Definition scase_nontrivial (k : scase) : bool :=
  negb (list_eqb entry_eqb (summary true true false (sc_stack k)) (summary false true false (sc_stack k))).
Definition scount_nontrivial (cases : list scase) : nat := count_true (map scase_nontrivial cases).
