(* M_ThreadLife.v — executable model of stackscope/_glue.py : unwrap_thread interleaved with
   the life cycle of the thread it is asked about (C07, "alive window").  Definitions only.

     was_alive = thread.is_alive()                               (read 1)
     <checkpoint thread:was_alive>
     inner_frame = sys._current_frames().get(thread.ident)       (read 2)
     <checkpoint thread:got_frame>
     if inner_frame is None or not thread.is_alive() or not was_alive:   (read 3)
         return []
     return StackSlice(inner=inner_frame)

   The thread T in question goes NotStarted -> Alive ident -> Finished ident (the Thread object
   keeps its ident after it has finished).  Other threads come and go; the operating system
   may give a new thread the ident of a finished one, never that of a live one.
   sys._current_frames() maps the ident of every live thread to its innermost frame. *)
Require Import Base.

Inductive tst := NotStarted | Alive (i : nat) | Finished (i : nat).

(* a frame is named by the thread that runs it (0 = T) and a serial number *)
Definition fid := (nat * nat)%type.
Definition fid_eqb (a b : fid) : bool := (fst a =? fst b) && (snd a =? snd b).

Record lworld := mkL {
  tlife : tst;
  tframe : nat;                        (* serial of T's innermost frame while it is alive *)
  others : list (nat * fid)            (* ident -> innermost frame of the other live threads *)
}.

Inductive levent :=
| EStart (i : nat)                     (* T starts and gets ident i *)
| EStep (s : nat)                      (* T calls / returns: its innermost frame is now s *)
| EFinish                              (* T finishes *)
| OStart (u i s : nat)                 (* another thread u (<> 0) starts with ident i, frame s *)
| OFinish (i : nat).                   (* the other thread with ident i finishes *)

Definition has_ident (i : nat) (l : list (nat * fid)) : bool := existsb (fun p => fst p =? i) l.

Definition t_alive (w : lworld) : bool := match tlife w with Alive _ => true | _ => false end.
Definition t_ident (w : lworld) : option nat :=
  match tlife w with NotStarted => None | Alive i => Some i | Finished i => Some i end.
Definition t_live_ident (w : lworld) (i : nat) : bool :=
  match tlife w with Alive j => i =? j | _ => false end.

(* events the operating system cannot produce are ignored *)
Definition lstep (w : lworld) (e : levent) : lworld :=
  match e with
  | EStart i =>
      match tlife w with
      | NotStarted => if has_ident i (others w) then w else mkL (Alive i) 0 (others w)
      | _ => w
      end
  | EStep s => if t_alive w then mkL (tlife w) s (others w) else w
  | EFinish => match tlife w with Alive i => mkL (Finished i) (tframe w) (others w) | _ => w end
  | OStart u i s =>
      if (u =? 0) || has_ident i (others w) || t_live_ident w i then w
      else mkL (tlife w) (tframe w) ((i, (u, s)) :: others w)
  | OFinish i => mkL (tlife w) (tframe w) (filter (fun p => negb (fst p =? i)) (others w))
  end.

Definition lsteps (w : lworld) (es : list levent) : lworld := fold_left lstep es w.

Fixpoint assoc_fid (i : nat) (l : list (nat * fid)) : option fid :=
  match l with
  | [] => None
  | (j, f) :: r => if i =? j then Some f else assoc_fid i r
  end.

(* sys._current_frames().get(thread.ident) *)
Definition current_frame_of_ident (w : lworld) (oi : option nat) : option fid :=
  match oi with
  | None => None                        (* .get(None) *)
  | Some i => if t_live_ident w i then Some (0, tframe w) else assoc_fid i (others w)
  end.

Inductive lres := REmpty | RSlice (f : fid).

(* e1: what happens before read 1; e2: between read 1 and read 2 (checkpoint thread:was_alive);
   e3: between read 2 and read 3 (checkpoint thread:got_frame).  Returns the result and the
   world in which read 2 took place (ghost). *)
Definition unwrap_thread (w : lworld) (e1 e2 e3 : list levent) : lres * lworld :=
  let w1 := lsteps w e1 in
  let was_alive := t_alive w1 in
  let w2 := lsteps w1 e2 in
  let inner := current_frame_of_ident w2 (t_ident w2) in
  let w3 := lsteps w2 e3 in
  match inner with
  | None => (REmpty, w2)
  | Some f => if negb (t_alive w3) || negb was_alive then (REmpty, w2) else (RSlice f, w2)
  end.

(* ------------------------------------------------------------------ correspondence *)
Definition lres_eqb (a b : lres) : bool :=
  match a, b with
  | REmpty, REmpty => true
  | RSlice f, RSlice g => fid_eqb f g
  | _, _ => false
  end.

Definition lcase := (lworld * list levent * list levent * list levent * lres)%type.
Definition lcase_ok (k : lcase) : bool :=
  let '(w, e1, e2, e3, r) := k in lres_eqb (fst (unwrap_thread w e1 e2 e3)) r.
Definition lmismatches (cases : list lcase) : list nat := false_indices 0 (map lcase_ok cases).
Definition lcase_nontrivial (k : lcase) : bool :=
  let '(w, e1, e2, e3, _) := k in
  negb (length e2 + length e3 =? 0)
  || match fst (unwrap_thread w e1 e2 e3) with RSlice _ => true | REmpty => false end.
Definition lcount_nontrivial (cases : list lcase) : nat := count_true (map lcase_nontrivial cases).

(* ====================================================================== searching other threads *)
(* stackscope/_glue.py : unwrap_stackslice, for a StackSlice that names only its OUTER frame (a
   generator / coroutine that is running, extract_since(frame)):
     frames = try_from(get_true_caller())                      -- the caller's own stack
     if not frames:
         for ident, inner in sys._current_frames().items():    -- every OTHER thread, in whatever order
             if ident != threading.get_ident():
                 frames = try_from(inner);  if frames: break
     if not frames:  yield outer; raise RuntimeError("Couldn't find where the above frame is running ...")
   A thread's stack is the list of its frames, innermost first (the f_back chain). *)
Definition tstack := list nat.

(* try_from: walk outward from the innermost frame until `outer` is met; the frames from `outer`
   inward, outermost first; [] if `outer` is not on this stack *)
Fixpoint try_from_acc (outer : nat) (st : tstack) (acc : list nat) : list nat :=
  match st with
  | [] => []
  | f :: r => if f =? outer then f :: acc else try_from_acc outer r (f :: acc)
  end.
Definition try_from (outer : nat) (st : tstack) : list nat := try_from_acc outer st [].

Fixpoint search_others (me outer : nat) (ths : list (nat * tstack)) : list nat :=
  match ths with
  | [] => []
  | (i, st) :: r =>
      if i =? me then search_others me outer r
      else match try_from outer st with
           | [] => search_others me outer r
           | fs => fs
           end
  end.

(* result: the frames, and whether the RuntimeError was reported *)
Definition unwrap_outer (me outer : nat) (own : tstack) (ths : list (nat * tstack)) : list nat * bool :=
  match try_from outer own with
  | [] => match search_others me outer ths with
          | [] => ([outer], true)
          | fs => (fs, false)
          end
  | fs => (fs, false)
  end.

Definition ocase := (nat * nat * tstack * list (nat * tstack) * (list nat * bool))%type.
Definition ocase_ok (k : ocase) : bool :=
  let '(me, outer, own, ths, (fs, err)) := k in
  let '(mfs, merr) := unwrap_outer me outer own ths in
  list_eqb Nat.eqb mfs fs && Bool.eqb merr err.
Definition omismatches (cases : list ocase) : list nat := false_indices 0 (map ocase_ok cases).
(* non-trivial: the frame was found on another thread's stack *)
Definition ocase_nontrivial (k : ocase) : bool :=
  let '(me, outer, own, ths, _) := k in
  match try_from outer own, search_others me outer ths with [], _ :: _ => true | _, _ => false end.
Definition ocount_nontrivial (cases : list ocase) : nat := count_true (map ocase_nontrivial cases).
