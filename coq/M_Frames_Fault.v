(* M_Frames_Fault.v — C05/C16 additions to the extract_iter model M_Frames (definitions only).

   - [src_guards]: the guard record of extract_iter as regenerated from /repo's source on every
     run (gen/SrcFacts.v: is each hook call site inside a try/except Exception that appends to
     save_errors?).  It enters ONLY through the proof obligation C05_guards_regenerated
     (src_guards = all_guards) and the theorems stated for it; the C05 case files evaluate the
     model at the proven values [all_guards], so a correspondence mismatch is always a genuine
     disagreement between the implementation and the proven model.
   - observation helpers on result trees used by the C05/C16 theorems (fault ticks reported
     anywhere in a Stack tree, frames / errors of an outcome). *)
Require Import Base M_Frames.
From SS.gen Require Import SrcFacts.

Definition src_guards : guards :=
  {| g_unwrap := SrcFacts.extract_g_unwrap; g_iter := SrcFacts.extract_g_iter;
     g_ctx := SrcFacts.extract_g_ctx; g_fill := SrcFacts.extract_g_fill;
     g_elab := SrcFacts.extract_g_elab |}.
Definition src_uguard : nat := SrcFacts.unwrap_guard.

(* fault ticks among a Stack's own errors, in list order *)
Fixpoint efaults (l : list err) : list nat :=
  match l with
  | [] => []
  | EFault t :: r => t :: efaults r
  | _ :: r => efaults r
  end.

(* every fault tick reported anywhere in the tree: own errors, then the children of the
   contexts of each frame *)
Fixpoint tree_faults (s : stack) : list nat :=
  match s with
  | Stack fr _ es =>
      efaults es ++
      (fix ff (l : list fout) : list nat :=
         match l with
         | [] => []
         | FOut _ _ _ cx :: r =>
             (fix cc (l : list cout) : list nat :=
                match l with
                | [] => []
                | COut _ ks :: r' =>
                    (fix kk (l : list stack) : list nat :=
                       match l with [] => [] | s' :: r'' => tree_faults s' ++ kk r'' end) ks
                    ++ cc r'
                end) cx ++ ff r
         end) fr
  end.

Definition stacks_faults (l : list stack) : list nat := flat_map tree_faults l.
Definition cout_faults (x : cout) : list nat := match x with COut _ ks => stacks_faults ks end.
Definition couts_faults (l : list cout) : list nat := flat_map cout_faults l.
Definition fout_faults (x : fout) : list nat := match x with FOut _ _ _ cx => couts_faults cx end.
Definition fouts_faults (l : list fout) : list nat := flat_map fout_faults l.

Definition s_frames (s : stack) : list fout := match s with Stack fr _ _ => fr end.
Definition s_errs (s : stack) : list err := match s with Stack _ _ es => es end.
Definition f_py (x : fout) : nat := match x with FOut f _ _ _ => f end.
Definition f_hide (x : fout) : bool := match x with FOut _ h _ _ => h end.
Definition f_org (x : fout) : option nat := match x with FOut _ _ o _ => o end.
Definition f_cx (x : fout) : list cout := match x with FOut _ _ _ cx => cx end.

(* the same configuration with another fault set / without faults *)
Definition with_faults (c : cfg) (fl : nat -> bool) : cfg :=
  {| unwrap := unwrap c; elab := elab c; prehide := prehide c; attr := attr c; ctxs := ctxs c;
     fill := fill c; fault := fl; with_ctx := with_ctx c; grd := grd c; uguard := uguard c |}.
Definition no_faults (c : cfg) : cfg := with_faults c (fun _ => false).

(* C05 cases: the configuration is printed with [all_guards]; the direct oracle of the
   driver reports any Raised observation, the comparison below ties the model under the
   regenerated guards to the implementation. *)
Definition fcase := ecase.
Definition fmismatches (cases : list fcase) : list nat := mismatches cases.
(* non-trivial for C05: some fault actually fired or a table error was recorded *)
Definition any_err (o : outcome) : bool :=
  match o with
  | Ok (Stack fr _ es) =>
      negb (match es with [] => true | _ => false end)
      || negb (match fouts_faults fr with [] => true | _ => false end)
  | _ => true
  end.
Definition fcount_nontrivial (cases : list fcase) : nat :=
  count_true (map (fun k : fcase => let '(c, r, _) := k in any_err (extract c r)) cases).

(* Stack.error as extract_child builds it from the list of saved errors: None if there is none,
   the exception itself if there is exactly one, an ExceptionGroup of all of them otherwise.  The
   harness observes a Stack through [errs_of] (error -> list), the inverse of this projection. *)
Inductive eshape := ENoError | ESingle (e : err) | EGroup (l : list err).
Definition error_of (l : list err) : eshape :=
  match l with [] => ENoError | [e] => ESingle e | _ => EGroup l end.
Definition errs_of (s : eshape) : list err :=
  match s with ENoError => [] | ESingle e => [e] | EGroup l => l end.
Definition s_error (s : stack) : eshape := error_of (s_errs s).

(* the child Stacks hanging below the frames of a Stack (one level) *)
Definition cout_kids (x : cout) : list stack := match x with COut _ ks => ks end.
Definition couts_kids (l : list cout) : list stack := flat_map cout_kids l.
Definition fouts_kids (l : list fout) : list stack := flat_map (fun x => couts_kids (f_cx x)) l.
Definition s_children (s : stack) : list stack := fouts_kids (s_frames s).
