(* P_Cert.v — soundness of certificate checking for the with-machine.
   Main results:
     cert_sound      check c t ct = true -> every reachable concrete state is, after erasing
                     manager instances, the certified state of its pc;
     inv_reach       in every reachable state a with-site determines its manager instance
                     (stack tags and truth agree);
     analysis_exact  check c t ct = true -> at EVERY observation of EVERY reachable state the
                     model of stackscope's analysis returns exactly the contexts the ground
                     truth demands, with the identical manager instances. *)
Require Import Base M_Bytecode M_Analysis M_WithMachine M_Cert.

(* ------------------------------------------------------------------ generic list facts *)
Lemma map_skipn {A B} (f : A -> B) n l : map f (skipn n l) = skipn n (map f l).
Proof. revert l; induction n; destruct l; simpl; auto. Qed.
Lemma map_firstn {A B} (f : A -> B) n l : map f (firstn n l) = firstn n (map f l).
Proof. revert l; induction n; destruct l; simpl; auto. f_equal; auto. Qed.
Lemma map_repeat {A B} (f : A -> B) x n : map f (repeat x n) = repeat (f x) n.
Proof. induction n; simpl; auto. f_equal; auto. Qed.
Lemma nth_error_map' {A B} (f : A -> B) l n : nth_error (map f l) n = option_map f (nth_error l n).
Proof. revert l; induction n; destruct l; simpl; auto. Qed.
Lemma hd_error_map {A B} (f : A -> B) l : hd_error (map f l) = option_map f (hd_error l).
Proof. destruct l; reflexivity. Qed.
Lemma forallb_map {A B} (f : A -> B) p l : forallb p (map f l) = forallb (fun x => p (f x)) l.
Proof. induction l; simpl; auto. rewrite IHl. reflexivity. Qed.
Lemma find_map {A B} (f : A -> B) p l : find p (map f l) = option_map f (find (fun x => p (f x)) l).
Proof. induction l as [|x l IH]; simpl; auto. destruct (p (f x)); simpl; auto. Qed.
Lemma filter_map_comm {A B} (f : A -> B) p l : filter p (map f l) = map f (filter (fun x => p (f x)) l).
Proof. induction l as [|x l IH]; simpl; auto. destruct (p (f x)); simpl; rewrite IH; auto. Qed.

(* ------------------------------------------------------------------ reflection of equality *)
Lemma val_eqb_eq a b : val_eqb a b = true -> a = b.
Proof.
  destruct a as [|s []|s []|s []], b as [|s' []|s' []|s' []]; simpl; try discriminate; auto;
    intros H; apply Nat.eqb_eq in H; subst; reflexivity.
Qed.
Lemma phase_eqb_eq a b : phase_eqb a b = true -> a = b.
Proof. destruct a, b; simpl; try discriminate; auto. Qed.
Lemma tent_eqb_eq a b : tent_eqb a b = true -> a = b.
Proof.
  destruct a as [s [] a p], b as [s' [] a' p']. unfold tent_eqb; simpl. intros H.
  apply andb_true_iff in H as [H H3]. apply andb_true_iff in H as [H1 H2].
  apply Nat.eqb_eq in H1. apply Bool.eqb_prop in H2. apply phase_eqb_eq in H3. subst. reflexivity.
Qed.
Lemma st_eqb_eq a b : st_eqb a b = true -> a = b.
Proof.
  unfold st_eqb. intros H. apply andb_true_iff in H as [H H3]. apply andb_true_iff in H as [H1 H2].
  apply Nat.eqb_eq in H1. apply list_eqb_eq in H2; [|apply val_eqb_eq].
  apply list_eqb_eq in H3; [|apply tent_eqb_eq].
  destruct a, b; simpl in *; subst; reflexivity.
Qed.

(* ------------------------------------------------------------------ erasure commutes *)
Section Commute.
Context {I J : Type} (f : I -> J).
Notation vm := (vmap f).
Notation tm := (tmap f).
Notation sm := (smap f).

Lemma is_VO_map v : is_VO (vm v) = is_VO v.
Proof. destruct v; reflexivity. Qed.
Lemma all_VO_map l : all_VO (map vm l) = all_VO l.
Proof. unfold all_VO. induction l as [|x l IH]; simpl; auto. rewrite is_VO_map, IH. reflexivity. Qed.
Lemma keep_bottom_map d st : keep_bottom d (map vm st) = map vm (keep_bottom d st).
Proof. unfold keep_bottom. rewrite map_length, map_skipn. reflexivity. Qed.
Lemma set_phase_map s ph tr : set_phase s ph (map tm tr) = map tm (set_phase s ph tr).
Proof.
  unfold set_phase. rewrite !map_map. apply map_ext. intros e. cbn [tmap t_site].
  destruct (t_site e =? s); reflexivity.
Qed.
Lemma remove_site_map s tr : remove_site s (map tm tr) = map tm (remove_site s tr).
Proof. unfold remove_site. rewrite filter_map_comm. reflexivity. Qed.
Lemma active_map tr : filter is_active (map tm tr) = map tm (filter is_active tr).
Proof. rewrite filter_map_comm. reflexivity. Qed.
Lemma event_map v tr : event (vm v) (map tm tr) = map tm (event v tr).
Proof. destruct v; cbn [event vmap]; auto using set_phase_map, remove_site_map. Qed.
Lemma find_site_map s tr : find_site s (map tm tr) = option_map tm (find_site s tr).
Proof. unfold find_site. rewrite find_map. reflexivity. Qed.

Lemma sm_mk p st tr : sm (mk p st tr) = mk p (map vm st) (map tm tr).
Proof. reflexivity. Qed.

Lemma exc_edge_map t keep p st tr :
  exc_edge t keep p (map vm st) (map tm tr) = option_map (map sm) (exc_edge t keep p st tr).
Proof.
  unfold exc_edge. destruct (lookup_h t p) as [h|]; [|reflexivity].
  rewrite map_length. destruct (h_depth h <=? length st); [|reflexivity].
  cbn [option_map map]. rewrite sm_mk. cbn [map vmap]. rewrite map_app, keep_bottom_map.
  destruct keep; [|rewrite active_map]; destruct (h_lasti h); reflexivity.
Qed.

Lemma both_map (a b : option (list (state I))) :
  both (option_map (map sm) a) (option_map (map sm) b) = option_map (map sm) (both a b).
Proof. destruct a, b; simpl; auto. rewrite map_app. reflexivity. Qed.

Lemma swap_top_map n st : swap_top n (map vm st) = option_map (map vm) (swap_top n st).
Proof.
  unfold swap_top. destruct n as [|[|k]]; try reflexivity.
  destruct st as [|top r]; [reflexivity|]. cbn [map].
  rewrite nth_error_map'. destruct (nth_error r k); [|reflexivity].
  cbn [option_map map]. rewrite map_app. cbn [map]. rewrite map_firstn, map_skipn. reflexivity.
Qed.

Lemma exit_call_map t p st rest tr s i :
  exit_call t p (map vm st) (map vm rest) (map tm tr) s (f i)
  = option_map (map sm) (exit_call t p st rest tr s i).
Proof.
  unfold exit_call. rewrite find_site_map. destruct (find_site s tr) as [e|]; [|reflexivity].
  cbn [option_map]. rewrite remove_site_map, exc_edge_map, <- both_map. f_equal.
  cbn [tmap t_async]. destruct (t_async e); cbn [option_map map]; rewrite sm_mk; cbn [map vmap];
    rewrite ?set_phase_map, ?remove_site_map; reflexivity.
Qed.

Theorem trans_commute v c t fresh s :
  trans v c t (f fresh) (sm s) = option_map (map sm) (trans v c t fresh s).
Proof.
  destruct s as [p st tr]. unfold trans. cbn [smap pc stack truth].
  destruct (length c <=? p); [reflexivity|].
  assert (Hnext : forall st', Some [mk (S p) (map vm st') (map tm tr)]
                               = option_map (map sm) (Some [mk (S p) st' tr])) by reflexivity.
  assert (Hexc := exc_edge_map t false p st tr).
  destruct (at_ c p) eqn:Hi.
  - (* ICache *) reflexivity.
  - reflexivity.
  - reflexivity.
  - (* IPrecall *) reflexivity.
  - (* IResume *) rewrite Hexc, <- both_map. reflexivity.
  - (* ILoadConst *) reflexivity.
  - (* IPop *) destruct st; reflexivity.
  - (* ISwap *) rewrite swap_top_map. destruct (swap_top n st); reflexivity.
  - (* ICopy *) destruct n as [|k]; [reflexivity|]. rewrite nth_error_map'.
    destruct (nth_error st k); reflexivity.
  - (* IBeforeWith *)
    destruct st as [|m r]; [reflexivity|]. cbn [map]. rewrite is_VO_map.
    destruct (negb (is_VO m)); [reflexivity|].
    rewrite exc_edge_map, <- both_map. f_equal.
    destruct async; cbn [option_map map]; rewrite sm_mk; cbn [map vmap]; rewrite map_app; reflexivity.
  - (* IGetAwaitable *) destruct st; [reflexivity|]. rewrite Hexc. cbn [map]. rewrite <- both_map. reflexivity.
  - (* ISend *)
    destruct st as [|x [|recv r]]; try reflexivity. rewrite Hexc. cbn [map].
    rewrite event_map, <- both_map. destruct v; reflexivity.
  - (* IEndSend *) destruct st as [|x [|w r]]; reflexivity.
  - (* ICleanupThrow *)
    destruct st as [|a [|b [|recv r]]]; try reflexivity. rewrite Hexc. cbn [map].
    rewrite event_map, <- both_map. reflexivity.
  - (* IYield *)
    destruct st as [|x r]; [reflexivity|]. cbn [map].
    change (VO :: map vm r) with (map vm (VO :: r)).
    destruct v.
    + rewrite exc_edge_map, <- !both_map. f_equal.
      destruct (at_ c (p - 1)); try reflexivity. destruct r as [|recv r']; [reflexivity|].
      cbn [map]. rewrite event_map. reflexivity.
    + rewrite exc_edge_map, <- both_map. reflexivity.
  - (* ICall *)
    rewrite nth_error_map'. destruct (nth_error st (S n)) as [[|s i|s i|s i]|]; cbn [option_map vmap]; try reflexivity.
    + rewrite <- map_firstn, all_VO_map. destruct (all_VO (firstn (S n) st)); [|reflexivity].
      rewrite Hexc, <- map_skipn, <- both_map. reflexivity.
    + rewrite <- map_firstn, all_VO_map. destruct (all_VO (firstn (S n) st)); [|reflexivity].
      rewrite <- map_skipn. apply exit_call_map.
  - (* IWithExceptStart *)
    rewrite nth_error_map'. destruct (nth_error st 3) as [[|s i|s i|s i]|]; cbn [option_map vmap]; try reflexivity.
    apply exit_call_map.
  - (* IPushExcInfo *) destruct st; reflexivity.
  - (* IPopExcept *) destruct st; reflexivity.
  - (* IReraise *) exact Hexc.
  - (* IRaise *) rewrite map_length. destruct (n <=? length st); [exact Hexc|reflexivity].
  - (* IReturn *) rewrite map_length. destruct (pops <=? length st); reflexivity.
  - (* IJump *) destruct k; try reflexivity. rewrite Hexc, <- both_map. reflexivity.
  - (* ICondJump *)
    destruct st as [|x r]; [reflexivity|]. cbn [map]. rewrite is_VO_map.
    destruct (negb (is_VO x)); [reflexivity|].
    change (VO :: map vm r) with (map vm (VO :: r)).
    destruct raises.
    + change (vm x :: map vm r) with (map vm (x :: r)). rewrite Hexc, <- both_map. reflexivity.
    + reflexivity.
  - (* IJumpOrPop *)
    destruct st as [|x r]; [reflexivity|]. cbn [map]. rewrite is_VO_map.
    destruct (negb (is_VO x)); [reflexivity|].
    change (vm x :: map vm r) with (map vm (x :: r)). rewrite Hexc, <- both_map. reflexivity.
  - (* IForIter *) rewrite Hexc, <- both_map. destruct v; [destruct st|]; reflexivity.
  - (* IGen *)
    rewrite map_length, <- map_firstn, all_VO_map.
    destruct ((pops <=? length st) && all_VO (firstn pops st)); [|reflexivity].
    destruct raises.
    + rewrite Hexc, <- both_map. cbn [option_map map]. rewrite sm_mk, map_app, map_repeat, map_skipn. reflexivity.
    + cbn [both option_map map app]. rewrite sm_mk, map_app, map_repeat, map_skipn. reflexivity.
Qed.

End Commute.

(* ------------------------------------------------------------------ reachability, soundness *)
Inductive reach (v : pyver) (c : code) (t : table) : state nat -> Prop :=
  | reach_init : reach v c t (mk 0 [] [])
  | reach_step s fresh succs s' :
      reach v c t s -> trans v c t fresh s = Some succs -> In s' succs -> reach v c t s'.

Definition erase : state nat -> astate := smap (fun _ => tt).

Lemma check_pc_of v k c t ct p : checkk v k c t ct = true -> p < length c -> check_pc v k c t ct p = true.
Proof.
  unfold checkk. intros H Hp. apply andb_true_iff in H as [H _].
  rewrite forallb_forall in H. apply H. apply in_seq. lia.
Qed.

Lemma trans_some_pc {I} v c t (fr : I) s l : trans v c t fr s = Some l -> pc s < length c.
Proof.
  unfold trans. destruct (length c <=? pc s) eqn:E; [discriminate|]. intros _.
  apply Nat.leb_gt in E. exact E.
Qed.

Theorem cert_sound v k c t ct : checkk v k c t ct = true ->
  forall s, reach v c t s -> cert_at ct (pc s) = Some (erase s).
Proof.
  intros Hc s Hr. induction Hr as [|s fresh succs s' Hr IH Ht Hin].
  - unfold checkk in Hc. apply andb_true_iff in Hc as [_ H0]. cbn [pc mk].
    destruct (cert_at ct 0); [|discriminate]. apply st_eqb_eq in H0. subst. reflexivity.
  - pose proof (check_pc_of _ _ _ _ _ _ Hc (trans_some_pc _ _ _ _ _ _ Ht)) as Hk.
    unfold check_pc in Hk. rewrite IH in Hk.
    apply andb_true_iff in Hk as [Hk _]. apply andb_true_iff in Hk as [_ Hk].
    pose proof (trans_commute (fun _ : nat => tt) v c t fresh s) as Hcm. rewrite Ht in Hcm.
    cbn [option_map] in Hcm. unfold erase in Hk. rewrite Hcm in Hk.
    rewrite forallb_forall in Hk. specialize (Hk (erase s') (in_map _ _ _ Hin)).
    unfold ok_succ in Hk. change (pc (erase s')) with (pc s') in Hk.
    destruct (cert_at ct (pc s')); [|discriminate]. apply st_eqb_eq in Hk. congruence.
Qed.

(* ------------------------------------------------------------------ observations and the analysis commute with erasure *)
Definition omap {I J} (f : I -> J) (o : observation I) : observation J :=
  let '(r, l, st, tr) := o in (r, l, map (vmap f) st, map (tmap f) tr).

Definition cmap {I J} (f : I -> J) (x : ctxv I) : ctxv J :=
  {| c_site := c_site x; c_async := c_async x; c_obj := option_map f (c_obj x);
     c_exiting := c_exiting x; c_from := c_from x |}.

Definition tres_map {I J} (f : I -> J) (r : tres I) : tres J :=
  match r with TOk l => TOk (map (cmap f) l) | TFail => TFail | TWarn => TWarn end.

Section Commute2.
Context {I J : Type} (f : I -> J).
Notation vm := (vmap f).
Notation tm := (tmap f).

Lemma run_at_map c p (st : list (val I)) (tr : list (tent I)) :
  run_at c p (map vm st) (map tm tr) = map (omap f) (run_at c p st tr).
Proof. unfold run_at. destruct (ncaches c p); reflexivity. Qed.

Lemma obs_commute c (s : state I) : obs c (smap f s) = map (omap f) (obs c s).
Proof.
  destruct s as [p st tr]. unfold obs. cbn [smap pc stack truth].
  destruct (at_ c p); try reflexivity; try apply run_at_map.
  - destruct st as [|[] r]; try reflexivity. apply (run_at_map c p (VO :: r) tr).
  - destruct st; reflexivity.
  - rewrite nth_error_map'. destruct (nth_error st (S n)) as [[]|]; cbn [option_map vmap];
      rewrite ?set_phase_map; apply run_at_map.
  - rewrite nth_error_map'. destruct (nth_error st 3) as [[]|]; cbn [option_map vmap]; try reflexivity.
    rewrite set_phase_map. apply run_at_map.
  - destruct raises; [apply run_at_map|reflexivity].
  - destruct raises; [apply run_at_map|reflexivity].
Qed.

Lemma expected_commute (tr : list (tent I)) : expected (map tm tr) = map (cmap f) (expected tr).
Proof.
  unfold expected. induction tr as [|e tr IH]; [reflexivity|]. cbn [map flat_map].
  rewrite IH, map_app. f_equal. cbn [tmap t_phase]. destruct (t_phase e); reflexivity.
Qed.

Lemma slot_map (st : list (val I)) level : slot (map vm st) level = option_map vm (slot st level).
Proof.
  destruct level; cbn [slot]. apply hd_error_map. rewrite <- map_rev. apply nth_error_map'.
Qed.

Lemma objs_of_map w (st : list (val I)) bl :
  objs_of w (map vm st) bl = option_map (map (cmap f)) (objs_of w st bl).
Proof.
  induction bl as [|[h level] bl IH]; [reflexivity|]. cbn [objs_of].
  destruct (winfo_get w h) as [[site asy]|]; [|exact IH].
  rewrite slot_map. destruct (slot st level) as [v|]; [|reflexivity]. cbn [option_map].
  rewrite IH. destruct v; cbn [self_of vmap]; try reflexivity.
  destruct (objs_of w st bl); reflexivity.
Qed.

Lemma trickery_commute v c t r l (st : list (val I)) :
  trickery v c t r l (map vm st) = tres_map f (trickery v c t r l st).
Proof.
  unfold trickery. destruct (with_info v c t) as [w|]; [|reflexivity].
  destruct (blocks t l) as [bl|]; [|reflexivity].
  replace (if r then keep_bottom (trim_depth t l) (map vm st) else map vm st)
    with (map vm (if r then keep_bottom (trim_depth t l) st else st))
    by (destruct r; [symmetry; apply keep_bottom_map|reflexivity]).
  rewrite objs_of_map. destruct (objs_of w _ bl) as [lc|]; [|reflexivity]. cbn [option_map].
  destruct (exiting v c t l); try reflexivity.
  destruct (winfo_get w handler) as [[site asy]|]; [|reflexivity].
  cbn [tres_map]. rewrite map_app. reflexivity.
Qed.
End Commute2.

(* ------------------------------------------------------------------ the instance invariant *)
Definition tag_id {I} (v : val I) : list (nat * I) :=
  match v with VO => [] | VX s i | VEA s i | VXA s i => [(s, i)] end.
Definition tags {I} (st : list (val I)) : list (nat * I) := flat_map tag_id st.
Definition tids {I} (tr : list (tent I)) : list (nat * I) := map (fun e => (t_site e, t_inst e)) tr.
Definition ids {I} (s : state I) : list (nat * I) := tags (stack s) ++ tids (truth s).

Definition Inv {I} (s : state I) : Prop :=
  forall a i j, In (a, i) (ids s) -> In (a, j) (ids s) -> i = j.

Section Ids.
Context {I : Type}.
Implicit Types (st : list (val I)) (tr : list (tent I)).

Lemma tags_app st1 st2 : tags (st1 ++ st2) = tags st1 ++ tags st2.
Proof. unfold tags. apply flat_map_app. Qed.
Lemma tags_cons v st : tags (v :: st) = tag_id v ++ tags st.
Proof. reflexivity. Qed.
Lemma tags_skipn n st : incl (tags (skipn n st)) (tags st).
Proof.
  revert st; induction n; intros st; [apply incl_refl|]. destruct st as [|v st]; [apply incl_refl|].
  cbn [skipn]. rewrite tags_cons. apply incl_appr, IHn.
Qed.
Lemma tags_firstn n st : incl (tags (firstn n st)) (tags st).
Proof.
  revert st; induction n; intros st; [intros x []|]. destruct st as [|v st]; [apply incl_refl|].
  cbn [firstn]. rewrite !tags_cons. apply incl_app; [apply incl_appl, incl_refl|apply incl_appr, IHn].
Qed.
Lemma tags_keep_bottom d st : incl (tags (keep_bottom d st)) (tags st).
Proof. apply tags_skipn. Qed.
Lemma tags_repeat_VO n : tags (repeat (@VO I) n) = [].
Proof. induction n; simpl; auto. Qed.
Lemma tags_nth st k v : nth_error st k = Some v -> incl (tag_id v) (tags st).
Proof.
  revert st; induction k; intros [|w st] H; try discriminate; cbn in H.
  - inversion H; subst. rewrite tags_cons. apply incl_appl, incl_refl.
  - rewrite tags_cons. apply incl_appr. eauto.
Qed.
Lemma tids_set_phase s ph tr : tids (set_phase s ph tr) = tids tr.
Proof.
  unfold tids, set_phase. rewrite map_map. apply map_ext. intros e.
  destruct (t_site e =? s); reflexivity.
Qed.
Lemma tids_filter p tr : incl (tids (filter p tr)) (tids tr).
Proof. unfold tids. intros x Hx. apply in_map_iff in Hx as (e & <- & He). apply filter_In in He as [He _]. apply (in_map (fun e => (t_site e, t_inst e))). exact He. Qed.
Lemma tids_remove s tr : incl (tids (remove_site s tr)) (tids tr).
Proof. apply tids_filter. Qed.
Lemma tids_event v tr : incl (tids (event v tr)) (tids tr).
Proof. destruct v; cbn [event]; try apply incl_refl. rewrite tids_set_phase. apply incl_refl. apply tids_remove. Qed.
Lemma tids_app tr1 tr2 : tids (tr1 ++ tr2) = tids tr1 ++ tids tr2.
Proof. apply map_app. Qed.

Lemma swap_top_tags n st st' : swap_top n st = Some st' -> incl (tags st') (tags st).
Proof.
  unfold swap_top. destruct n as [|[|k]]; try (intros H; inversion H; apply incl_refl).
  destruct st as [|top r]; [discriminate|]. destruct (nth_error r k) as [x|] eqn:E; [|discriminate].
  intros H; inversion H; subst; clear H.
  rewrite !tags_cons, tags_app, tags_cons. repeat apply incl_app.
  - apply incl_appr. eapply tags_nth; eauto.
  - apply incl_appr, tags_firstn.
  - apply incl_appl, incl_refl.
  - apply incl_appr. exact (tags_skipn (S k) r).
Qed.

Lemma ids_mk p st tr : ids (mk p st tr) = tags st ++ tids tr.
Proof. reflexivity. Qed.

(* a state built from pieces of (st, tr) *)
Lemma incl_ids p st' tr' st tr :
  incl (tags st') (tags st) -> incl (tids tr') (tids tr) -> incl (ids (mk p st' tr')) (tags st ++ tids tr).
Proof. intros H1 H2. rewrite ids_mk. apply incl_app; [apply incl_appl|apply incl_appr]; assumption. Qed.

Lemma exc_edge_ids t keep p st tr l s' :
  exc_edge t keep p st tr = Some l -> In s' l -> incl (ids s') (tags st ++ tids tr).
Proof.
  unfold exc_edge. destruct (lookup_h t p) as [h|]; [|intros H; inversion H; subst; intros []].
  destruct (h_depth h <=? length st); [|discriminate].
  intros H; inversion H; subst; clear H. intros [<-|[]].
  apply incl_ids.
  - rewrite tags_cons, tags_app. cbn [tag_id app].
    apply incl_app; [destruct (h_lasti h); intros x []|apply tags_keep_bottom].
  - destruct keep; [apply incl_refl|apply tids_filter].
Qed.

Lemma both_in (a b : option (list (state I))) l s' :
  both a b = Some l -> In s' l ->
  (exists la, a = Some la /\ In s' la) \/ (exists lb, b = Some lb /\ In s' lb).
Proof.
  destruct a as [la|], b as [lb|]; cbn [both]; try discriminate.
  intros H; inversion H; subst. intros Hin. apply in_app_or in Hin as [Hin|Hin]; eauto.
Qed.

Lemma exit_call_ids t p st rest tr s i l s' :
  incl (tags rest) (tags st) -> incl [(s, i)] (tags st) ->
  exit_call t p st rest tr s i = Some l -> In s' l -> incl (ids s') (tags st ++ tids tr).
Proof.
  intros Hrest Hsi. unfold exit_call. destruct (find_site s tr) as [e|]; [|discriminate].
  intros H Hin. apply both_in with (s' := s') in H; [|exact Hin].
  destruct H as [(la & Ha & Hi)|(lb & Hb & Hi)].
  - inversion Ha; subst; clear Ha. destruct Hi as [<-|[]].
    destruct (t_async e); apply incl_ids.
    + rewrite tags_cons. cbn [tag_id]. apply incl_app; assumption.
    + rewrite tids_set_phase. apply incl_refl.
    + rewrite tags_cons. exact Hrest.
    + apply tids_remove.
  - eapply incl_tran; [eapply exc_edge_ids; eauto|].
    apply incl_app; [apply incl_appl, incl_refl|apply incl_appr, tids_remove].
Qed.

Lemma trans_ids ver c t fresh (s : state I) succs s' :
  trans ver c t fresh s = Some succs -> In s' succs ->
  incl (ids s') (match at_ c (pc s) with
                 | IBeforeWith _ => (pc s, fresh) :: ids s
                 | _ => ids s
                 end).
Proof.
  destruct s as [p st tr]. unfold trans. cbn [pc stack truth].
  change (ids {| pc := p; stack := st; truth := tr |}) with (tags st ++ tids tr).
  destruct (length c <=? p); [discriminate|].
  assert (Hexc : forall l x, exc_edge t false p st tr = Some l -> In x l -> incl (ids x) (tags st ++ tids tr))
    by (intros; eapply exc_edge_ids; eauto).
  assert (Hnext : forall st' l x, incl (tags st') (tags st) -> Some [mk (S p) st' tr] = Some l -> In x l ->
                                  incl (ids x) (tags st ++ tids tr)).
  { intros st' l x Hs H Hin. inversion H; subst. destruct Hin as [<-|[]]. apply incl_ids; [exact Hs|apply incl_refl]. }
  assert (Hboth : forall a b l x,
             (forall la, a = Some la -> In x la -> incl (ids x) (tags st ++ tids tr)) ->
             (forall lb, b = Some lb -> In x lb -> incl (ids x) (tags st ++ tids tr)) ->
             both a b = Some l -> In x l -> incl (ids x) (tags st ++ tids tr)).
  { intros a b l x Ha Hb H Hin. destruct (both_in _ _ _ _ H Hin) as [(la & E & Hi)|(lb & E & Hi)]; eauto. }
  destruct (at_ c p) eqn:Hi; intros H Hin.
  - eapply Hnext; eauto using incl_refl.
  - eapply Hnext; eauto using incl_refl.
  - eapply Hnext; eauto using incl_refl.
  - (* IPrecall *) eapply Hnext; eauto using incl_refl.
  - (* IResume *) refine (Hboth _ _ _ _ _ _ H Hin); eauto. intros; eapply Hnext; eauto using incl_refl.
  - (* ILoadConst *) eapply Hnext; eauto. rewrite tags_cons. apply incl_refl.
  - (* IPop *) destruct st as [|v r]; [discriminate|]. eapply Hnext; eauto. rewrite tags_cons. apply incl_appr, incl_refl.
  - (* ISwap *) destruct (swap_top n st) eqn:E; [|discriminate]. eapply Hnext; eauto. eapply swap_top_tags; eauto.
  - (* ICopy *) destruct n as [|k]; [discriminate|]. destruct (nth_error st k) eqn:E; [|discriminate].
    eapply Hnext; eauto. rewrite tags_cons. apply incl_app; [eapply tags_nth; eauto|apply incl_refl].
  - (* IBeforeWith *)
    destruct st as [|m r]; [discriminate|]. destruct (negb (is_VO m)) eqn:Em; [discriminate|].
    assert (Hm : tag_id m = []) by (destruct m; try discriminate; reflexivity).
    rewrite tags_cons, Hm. cbn [app].
    apply both_in with (s' := s') in H; [|exact Hin].
    destruct H as [(la & Ha & Hl)|(lb & Hb & Hl)].
    + inversion Ha; subst; clear Ha. destruct Hl as [<-|[]].
      destruct async; rewrite ids_mk, !tags_cons, tids_app; cbn [tag_id tids map app t_site t_inst];
        intros x Hx; cbn in Hx |- *; rewrite !in_app_iff in Hx; cbn in Hx; rewrite in_app_iff;
        intuition.
    + apply incl_tl. eapply exc_edge_ids; eauto.
  - (* IGetAwaitable *) destruct st as [|v r]; [discriminate|]. refine (Hboth _ _ _ _ _ _ H Hin); eauto.
    intros; eapply Hnext; eauto using incl_refl.
  - (* ISend *)
    destruct st as [|v [|recv r]]; try discriminate. refine (Hboth _ _ _ _ _ _ H Hin); eauto.
    intros la E Hl. inversion E; subst; clear E.
    assert (Hst : incl (tags (VO :: recv :: r)) (tags (v :: recv :: r)))
      by (rewrite !tags_cons; cbn [tag_id app]; apply incl_appr, incl_refl).
    assert (Hst' : incl (tags (VO :: r)) (tags (v :: recv :: r)))
      by (rewrite !tags_cons; cbn [tag_id app]; apply incl_appr, incl_appr, incl_refl).
    destruct Hl as [<-|[<-|[]]]; [apply incl_ids; auto using incl_refl|].
    destruct ver; apply incl_ids; auto using tids_event.
  - (* IEndSend *)
    destruct st as [|v [|w r]]; try discriminate. eapply Hnext; eauto.
    rewrite !tags_cons. apply incl_app; [apply incl_appl, incl_refl|apply incl_appr, incl_appr, incl_refl].
  - (* ICleanupThrow *)
    destruct st as [|a [|b [|recv r]]]; try discriminate. refine (Hboth _ _ _ _ _ _ H Hin); eauto.
    intros la E Hl. inversion E; subst; clear E. destruct Hl as [<-|[]].
    apply incl_ids; [|apply tids_event].
    rewrite !tags_cons. cbn [tag_id app]. apply incl_appr, incl_appr, incl_refl.
  - (* IYield *)
    destruct st as [|v r]; [discriminate|].
    assert (Hst : incl (tags (VO :: r)) (tags (v :: r)))
      by (rewrite !tags_cons; cbn [tag_id app]; apply incl_appr, incl_refl).
    assert (Hedge : forall keep lb, exc_edge t keep p (VO :: r) tr = Some lb -> In s' lb ->
                                    incl (ids s') (tags (v :: r) ++ tids tr)).
    { intros keep lb E Hl. eapply incl_tran; [eapply exc_edge_ids; eauto|].
      apply incl_app; [apply incl_appl, Hst|apply incl_appr, incl_refl]. }
    destruct ver.
    + refine (Hboth _ _ _ _ _ _ H Hin).
      * intros la E Hl. refine (Hboth _ _ _ _ _ _ E Hl); [intros; eapply Hnext; eauto|eauto].
      * intros lb E Hl. destruct (at_ c (p - 1)); try (inversion E; subst; destruct Hl).
        destruct r as [|recv r']; [inversion E; subst; destruct Hl|].
        inversion E; subst; clear E. destruct Hl as [<-|[]].
        apply incl_ids; [|apply tids_event].
        rewrite !tags_cons. cbn [tag_id app]. apply incl_appr, incl_appr, incl_refl.
    + refine (Hboth _ _ _ _ _ _ H Hin); [intros; eapply Hnext; eauto|eauto].
  - (* ICall *)
    destruct (nth_error st (S n)) as [[|s i|s i|s i]|] eqn:E; try discriminate.
    + destruct (all_VO (firstn (S n) st)); [|discriminate]. refine (Hboth _ _ _ _ _ _ H Hin); eauto.
      intros; eapply Hnext; eauto. rewrite tags_cons. apply tags_skipn.
    + destruct (all_VO (firstn (S n) st)); [|discriminate].
      eapply exit_call_ids; eauto; [apply tags_skipn|eapply (tags_nth _ _ _ E)].
  - (* IWithExceptStart *)
    destruct (nth_error st 3) as [[|s i|s i|s i]|] eqn:E; try discriminate.
    eapply exit_call_ids; eauto; [apply incl_refl|eapply (tags_nth _ _ _ E)].
  - (* IPushExcInfo *) destruct st as [|e r]; [discriminate|]. eapply Hnext; eauto.
    rewrite !tags_cons. cbn [tag_id app]. apply incl_refl.
  - (* IPopExcept *) destruct st as [|e r]; [discriminate|]. eapply Hnext; eauto.
    rewrite tags_cons. apply incl_appr, incl_refl.
  - (* IReraise *) eauto.
  - (* IRaise *) destruct (n <=? length st); [eauto|discriminate].
  - (* IReturn *) destruct (pops <=? length st); [|discriminate]. inversion H; subst. destruct Hin.
  - (* IJump *)
    refine (Hboth _ _ _ _ _ _ H Hin); eauto.
    + intros la E Hl. inversion E; subst. destruct Hl as [<-|[]]. apply incl_ids; apply incl_refl.
    + destruct k; eauto; intros lb E Hl; inversion E; subst; destruct Hl.
  - (* ICondJump *)
    destruct st as [|v r]; [discriminate|]. destruct (negb (is_VO v)); [discriminate|].
    assert (Hst : incl (tags r) (tags (v :: r))) by (rewrite tags_cons; apply incl_appr, incl_refl).
    refine (Hboth _ _ _ _ _ _ H Hin); eauto.
    + intros la E Hl. inversion E; subst. destruct Hl as [<-|[<-|[]]]; apply incl_ids; auto using incl_refl.
    + destruct raises; eauto; intros lb E Hl; inversion E; subst; destruct Hl.
  - (* IJumpOrPop *)
    destruct st as [|v r]; [discriminate|]. destruct (negb (is_VO v)); [discriminate|].
    assert (Hst : incl (tags r) (tags (v :: r))) by (rewrite tags_cons; apply incl_appr, incl_refl).
    refine (Hboth _ _ _ _ _ _ H Hin); eauto.
    intros la E Hl. inversion E; subst. destruct Hl as [<-|[<-|[]]]; apply incl_ids; auto using incl_refl.
  - (* IForIter *)
    refine (Hboth _ _ _ _ _ _ H Hin); eauto.
    intros la E Hl. inversion E; subst.
    destruct Hl as [<-|[<-|[]]]; apply incl_ids; try apply incl_refl; try (rewrite tags_cons; apply incl_refl).
    destruct ver; [|rewrite tags_cons; apply incl_refl].
    destruct st as [|x0 st0]; [apply incl_refl|]. cbn [tl]. rewrite tags_cons. apply incl_appr, incl_refl.
  - (* IGen *)
    destruct ((pops <=? length st) && all_VO (firstn pops st)); [|discriminate].
    refine (Hboth _ _ _ _ _ _ H Hin); eauto.
    + intros; eapply Hnext; eauto. rewrite tags_app, tags_repeat_VO. apply tags_skipn.
    + destruct raises; eauto; intros lb E Hl; inversion E; subst; destruct Hl.
Qed.
End Ids.

(* ------------------------------------------------------------------ the invariant holds in every reachable state *)
Lemma map_fst_tags {I} (st : list (val I)) :
  map fst (tags st) = flat_map (fun v => match tag_site v with Some x => [x] | None => [] end) st.
Proof.
  induction st as [|v st IH]; [reflexivity|]. rewrite tags_cons, map_app. cbn [flat_map].
  rewrite IH. f_equal. destruct v; reflexivity.
Qed.

Lemma sites_of_ids {I} (s : state I) : sites_of s = map fst (ids s).
Proof.
  unfold sites_of, ids. rewrite map_app, map_fst_tags. f_equal. unfold tids. rewrite map_map. reflexivity.
Qed.

Lemma sites_of_smap {I J} (f : I -> J) (s : state I) : sites_of (smap f s) = sites_of s.
Proof.
  unfold sites_of. cbn [smap stack truth]. f_equal.
  - induction (stack s) as [|v st IH]; [reflexivity|]. cbn [map flat_map]. rewrite IH. f_equal. destruct v; reflexivity.
  - rewrite map_map. reflexivity.
Qed.

Lemma noreentry_smap {I J} (f : I -> J) c (s : state I) : noreentry c (smap f s) = noreentry c s.
Proof. unfold noreentry. change (pc (smap f s)) with (pc s). rewrite sites_of_smap. reflexivity. Qed.

Lemma Inv_incl {I} (s s' : state I) : incl (ids s') (ids s) -> Inv s -> Inv s'.
Proof. intros Hi H a i j Ha Hb. eapply H; eauto. Qed.

Lemma mem_nat_false x l : mem_nat x l = false -> ~ In x l.
Proof.
  unfold mem_nat. intros H Hin. assert (existsb (Nat.eqb x) l = true).
  { apply existsb_exists. exists x. split; [exact Hin|apply Nat.eqb_refl]. }
  congruence.
Qed.

Theorem inv_reach v k c t ct : checkk v k c t ct = true -> forall s, reach v c t s -> Inv s.
Proof.
  intros Hc s Hr. induction Hr as [|s fresh succs s' Hr IH Ht Hin].
  - intros a i j [].
  - pose proof (trans_ids _ _ _ _ _ _ _ Ht Hin) as Hincl.
    pose proof (check_pc_of _ _ _ _ _ _ Hc (trans_some_pc _ _ _ _ _ _ Ht)) as Hk.
    unfold check_pc in Hk. rewrite (cert_sound _ _ _ _ _ Hc _ Hr) in Hk.
    apply andb_true_iff in Hk as [Hk _]. apply andb_true_iff in Hk as [Hk _].
    unfold erase in Hk. rewrite noreentry_smap in Hk. unfold noreentry in Hk.
    destruct (at_ c (pc s)); try (eapply Inv_incl; eassumption).
    (* IBeforeWith *)
    apply negb_true_iff, mem_nat_false in Hk. rewrite sites_of_ids in Hk.
    intros a i j Ha Hb. apply Hincl in Ha. apply Hincl in Hb.
    destruct Ha as [Ha|Ha], Hb as [Hb|Hb].
    + congruence.
    + inversion Ha; subst. exfalso. apply Hk. apply (in_map fst) in Hb. exact Hb.
    + inversion Hb; subst. exfalso. apply Hk. apply (in_map fst) in Ha. exact Ha.
    + eapply IH; eauto.
Qed.

(* ------------------------------------------------------------------ the main theorem *)
Lemma ctxv_eqb_eq a b : ctxv_eqb a b = true -> a = b.
Proof.
  destruct a as [s1 a1 o1 e1 f1], b as [s2 a2 o2 e2 f2]. unfold ctxv_eqb. cbn.
  intros H. apply andb_true_iff in H as [Ha H5]. apply andb_true_iff in Ha as [Hb H4].
  apply andb_true_iff in Hb as [Hc H3]. apply andb_true_iff in Hc as [H1 H2].
  apply Nat.eqb_eq in H1. apply Bool.eqb_prop in H2. apply Bool.eqb_prop in H4. apply Nat.eqb_eq in H5.
  subst. f_equal. destruct o1 as [[]|], o2 as [[]|]; try discriminate; reflexivity.
Qed.

Lemma objs_of_src {I} w (st : list (val I)) bl l :
  objs_of w st bl = Some l ->
  forall x, In x l -> exists i, c_obj x = Some i /\ In (c_from x, i) (tags st).
Proof.
  revert l; induction bl as [|[h level] bl IH]; intros l H x Hx.
  - inversion H; subst. destruct Hx.
  - cbn [objs_of] in H. destruct (winfo_get w h) as [[site asy]|]; [|eauto].
    destruct (slot st level) as [v|] eqn:Es; [|discriminate].
    destruct v as [|s i|s i|s i]; cbn [self_of] in H; try discriminate.
    destruct (objs_of w st bl) as [l'|]; [|discriminate]. inversion H; subst; clear H.
    destruct Hx as [<-|Hx]; [|eauto]. exists i. split; [reflexivity|]. cbn [c_from].
    assert (Hin : In (VX s i) st).
    { destruct level; cbn [slot] in Es.
      - destruct st; [discriminate|]. inversion Es; subst. left; reflexivity.
      - apply nth_error_In in Es. apply in_rev in Es. exact Es. }
    unfold tags. apply in_flat_map. exists (VX s i). split; [exact Hin|left; reflexivity].
Qed.

Lemma trickery_src {I} v c t r l (st : list (val I)) lc :
  trickery v c t r l st = TOk lc ->
  forall x i, In x lc -> c_obj x = Some i -> In (c_from x, i) (tags st).
Proof.
  unfold trickery. destruct (with_info v c t) as [w|]; [|discriminate].
  destruct (blocks t l) as [bl|]; [|discriminate].
  destruct (objs_of w _ bl) as [lo|] eqn:Eo; [|discriminate].
  assert (Hsrc : forall x i, In x lo -> c_obj x = Some i -> In (c_from x, i) (tags st)).
  { intros x i Hx Hi. destruct (objs_of_src _ _ _ _ Eo x Hx) as (i' & Hi' & Hin).
    rewrite Hi in Hi'. inversion Hi'; subst.
    destruct r; [eapply tags_keep_bottom; eauto|exact Hin]. }
  destruct (exiting v c t l).
  - intros H; inversion H; subst. exact Hsrc.
  - destruct (winfo_get w handler) as [[site asy]|]; [|discriminate].
    intros H; inversion H; subst. intros x i Hx Hi. apply in_app_or in Hx as [Hx|[<-|[]]]; eauto.
    discriminate.
  - discriminate.
Qed.

Lemma expected_src {I} (tr : list (tent I)) y j :
  In y (expected tr) -> c_obj y = Some j -> In (c_from y, j) (tids tr).
Proof.
  unfold expected. intros Hy Hj. apply in_flat_map in Hy as (e & He & Hy).
  destruct (t_phase e); cbn in Hy; try (destruct Hy as [<-|[]]); try contradiction; cbn in Hj; try discriminate.
  inversion Hj; subst. cbn [c_from]. apply (in_map (fun e => (t_site e, t_inst e))) in He. exact He.
Qed.

Lemma run_at_in {I} c p (st : list (val I)) (tr : list (tent I)) r l st' tr' :
  In (r, l, st', tr') (run_at c p st tr) -> st' = st /\ tr' = tr.
Proof.
  unfold run_at. destruct (ncaches c p); cbn [In]; intros H.
  - destruct H as [H|[]]; inversion H; auto.
  - destruct H as [H|[H|[]]]; inversion H; auto.
Qed.

Lemma obs_ids {I} c (s : state I) r l st tr :
  In (r, l, st, tr) (obs c s) -> incl (tags st) (tags (stack s)) /\ incl (tids tr) (tids (truth s)).
Proof.
  destruct s as [p st0 tr0]. unfold obs. cbn [pc stack truth].
  destruct (at_ c p);
    repeat match goal with
           | |- In _ (match ?x with _ => _ end) -> _ => destruct x eqn:?
           end;
    intros Hq; try (destruct Hq; fail);
    try (apply run_at_in in Hq; destruct Hq as [-> ->]; rewrite ?tids_set_phase; split; apply incl_refl).
  (* IYield *)
  cbn [In] in Hq. destruct Hq as [Hq|[]]. inversion Hq; subst; clear Hq.
  split; [rewrite tags_cons; apply incl_appr, incl_refl|apply incl_refl].
Qed.

Lemma cmap_inj_under {I} (P : nat * I -> Prop)
      (HP : forall a i j, P (a, i) -> P (a, j) -> i = j) (lc le : list (ctxv I)) :
  map (cmap (fun _ => tt)) lc = map (cmap (fun _ => tt)) le ->
  (forall x i, In x lc -> c_obj x = Some i -> P (c_from x, i)) ->
  (forall y j, In y le -> c_obj y = Some j -> P (c_from y, j)) ->
  lc = le.
Proof.
  revert le; induction lc as [|x lc IH]; intros [|y le] Hm Hx Hy; try discriminate; auto.
  cbn [map] in Hm. inversion Hm as [[H1 H2 H3 H4 H5 Hrest]]. f_equal.
  - destruct x as [s1 a1 o1 e1 f1], y as [s2 a2 o2 e2 f2]. cbn in *. subst. f_equal.
    destruct o1 as [i|], o2 as [j|]; try discriminate; auto. f_equal.
    eapply HP; [apply (Hx _ i (or_introl eq_refl) eq_refl)|apply (Hy _ j (or_introl eq_refl) eq_refl)].
  - apply IH; auto; intros; [eapply Hx|eapply Hy]; eauto; right; assumption.
Qed.

Lemma obs_checked v k c t ct : checkk v k c t ct = true ->
  forall s, reach v c t s -> forall o, In o (obs c s) ->
  obs_check v k c t (omap (fun _ => tt) o) = true.
Proof.
  intros Hc s Hr o Hin.
  assert (Hp : pc s < length c).
  { destruct (Nat.lt_ge_cases (pc s) (length c)) as [|Hge]; [assumption|exfalso].
    unfold obs, at_ in Hin. rewrite nth_overflow in Hin by exact Hge. destruct Hin. }
  pose proof (check_pc_of _ _ _ _ _ _ Hc Hp) as Hk. unfold check_pc in Hk.
  rewrite (cert_sound _ _ _ _ _ Hc _ Hr) in Hk. apply andb_true_iff in Hk as [_ Hk].
  unfold erase in Hk. rewrite obs_commute, forallb_forall in Hk.
  exact (Hk _ (in_map (omap (fun _ => tt)) _ _ Hin)).
Qed.

Lemma obs_ok_exact v k c t ct : checkk v k c t ct = true ->
  forall s, reach v c t s ->
  forall r l st tr, In (r, l, st, tr) (obs c s) ->
  obs_ok v c t (omap (fun _ => tt) (r, l, st, tr)) = true ->
  trickery v c t r l st = TOk (expected tr).
Proof.
  intros Hc s Hr r l st tr Hin Hk. cbn [omap obs_ok] in Hk.
  rewrite trickery_commute, expected_commute in Hk.
  destruct (trickery v c t r l st) as [lc| |] eqn:Et; cbn [tres_map tres_ok] in Hk; try discriminate.
  apply list_eqb_eq in Hk; [|apply ctxv_eqb_eq]. f_equal.
  destruct (obs_ids _ _ _ _ _ _ Hin) as [Hst Htr].
  pose proof (inv_reach _ _ _ _ _ Hc _ Hr) as HI.
  apply (cmap_inj_under (fun x => In x (ids s)) HI); [exact Hk| |].
  - intros x i Hx Hi. unfold ids. apply in_or_app. left. apply Hst. eapply trickery_src; eauto.
  - intros y j Hy Hj. unfold ids. apply in_or_app. right. apply Htr. eapply expected_src; eauto.
Qed.

Theorem analysis_exact v k c t ct : checkk v k c t ct = true ->
  forall s, reach v c t s ->
  forall running lasti st tr, In (running, lasti, st, tr) (obs c s) ->
  (k = KSusp /\ running = false) \/ (k = KRun /\ running = true) ->
  trickery v c t running lasti st = TOk (expected tr).
Proof.
  intros Hc s Hr r l st tr Hin Hsel.
  eapply obs_ok_exact; eauto.
  pose proof (obs_checked _ _ _ _ _ Hc _ Hr _ Hin) as Hk. cbn [omap obs_check] in Hk.
  destruct Hsel as [[-> ->]|[-> ->]]; exact Hk.
Qed.
Print Assumptions analysis_exact.

(* ------------------------------------------------------------------ executable paths (for non-vacuity examples) *)
(* follow a path given as (fresh instance, index of the chosen successor) pairs *)
Fixpoint exec (v : pyver) (c : code) (t : table) (path : list (nat * nat)) (s : state nat) : option (state nat) :=
  match path with
  | [] => Some s
  | (fresh, k) :: r =>
      match trans v c t fresh s with
      | Some succs => match nth_error succs k with Some s' => exec v c t r s' | None => None end
      | None => None
      end
  end.

Lemma exec_reach v c t path : forall s s', reach v c t s -> exec v c t path s = Some s' -> reach v c t s'.
Proof.
  induction path as [|[fresh k] r IH]; intros s s' Hr H; cbn [exec] in H.
  - inversion H; subst; exact Hr.
  - destruct (trans v c t fresh s) as [succs|] eqn:Et; [|discriminate].
    destruct (nth_error succs k) as [s1|] eqn:En; [|discriminate].
    eapply IH; [|exact H]. eapply reach_step; eauto. eapply nth_error_In; eauto.
Qed.

Lemma expected_spec (tr : list (tent nat)) :
  map (fun x => (c_site x, c_async x, c_exiting x)) (expected tr)
  = map (fun e => (t_site e, t_async e, phase_eqb (t_phase e) Exiting))
        (filter (fun e => negb (phase_eqb (t_phase e) Entering)) tr)
  /\ forall x, In x (expected tr) ->
       (c_exiting x = false -> exists e, In e tr /\ t_phase e = Active /\ c_obj x = Some (t_inst e) /\ c_site x = t_site e)
       /\ (c_exiting x = true -> c_obj x = None).
Proof.
  split.
  - unfold expected. induction tr as [|e tr IH]; [reflexivity|]. cbn [flat_map filter].
    rewrite map_app, IH. destruct (t_phase e) eqn:E; cbn; rewrite ?E; reflexivity.
  - intros x Hx. unfold expected in Hx. apply in_flat_map in Hx as (e & He & Hx).
    destruct (t_phase e) eqn:E; cbn in Hx; try contradiction; destruct Hx as [<-|[]]; cbn; split;
      try discriminate; auto.
    intros _. exists e. auto.
Qed.

(* the slots read for a running frame: below the trim depth, holding the right exit method *)
Lemma objs_of_slots {I} w (st : list (val I)) bl l :
  objs_of w st bl = Some l ->
  forall x i, In x l -> c_obj x = Some i -> In (VX (c_from x) i) st.
Proof.
  revert l; induction bl as [|[h level] bl IH]; intros l H x i Hx Hi.
  - inversion H; subst. destruct Hx.
  - cbn [objs_of] in H. destruct (winfo_get w h) as [[site asy]|]; [|eauto].
    destruct (slot st level) as [v|] eqn:Es; [|discriminate].
    destruct v as [|s j|s j|s j]; cbn [self_of] in H; try discriminate.
    destruct (objs_of w st bl) as [l'|]; [|discriminate]. inversion H; subst; clear H.
    destruct Hx as [<-|Hx]; [|eauto]. cbn in Hi. inversion Hi; subst. cbn [c_from].
    destruct level; cbn [slot] in Es.
    + destruct st; [discriminate|]. inversion Es; subst. left; reflexivity.
    + apply nth_error_In in Es. apply in_rev in Es. exact Es.
Qed.

Theorem trim_safe v c t ct : checkk v KRun c t ct = true ->
  forall s, reach v c t s ->
  forall lasti st tr, In (true, lasti, st, tr) (obs c s) ->
  forall x i, In x (expected tr) -> c_obj x = Some i ->
  In (VX (c_site x) i) (keep_bottom (trim_depth t lasti) st).
Proof.
  intros Hc s Hr l st tr Hin x i Hx Hi.
  pose proof (analysis_exact _ _ _ _ _ Hc _ Hr _ _ _ _ Hin (or_intror (conj eq_refl eq_refl))) as Ha.
  assert (Hfrom : c_from x = c_site x).
  { unfold expected in Hx. apply in_flat_map in Hx as (e & _ & Hx).
    destruct (t_phase e); cbn in Hx; try contradiction; destruct Hx as [<-|[]]; reflexivity. }
  unfold trickery in Ha. destruct (with_info v c t) as [w|]; [|discriminate].
  destruct (blocks t l) as [bl|]; [|discriminate].
  destruct (objs_of w _ bl) as [lo|] eqn:Eo; [|discriminate].
  rewrite <- Hfrom. eapply objs_of_slots; [exact Eo| |exact Hi].
  destruct (exiting v c t l).
  - inversion Ha; subst. exact Hx.
  - destruct (winfo_get w handler) as [[site asy]|]; [|discriminate]. inversion Ha as [Hl].
    rewrite <- Hl in Hx. apply in_app_or in Hx as [Hx|[<-|[]]]; [exact Hx|discriminate].
  - discriminate.
Qed.
