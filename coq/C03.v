(* C03 — property theorems only (proved in P_Chain.v). *)
Require Import Base M_Frames M_Chain P_Chain.

Theorem C03_smoke : chain_extract (Link KCoro (Some 0) false (Link KGen (Some 1) false Nil)) [] true
              = Ok (ref_stack (Link KCoro (Some 0) false (Link KGen (Some 1) false Nil))).
Proof. exact smoke. Qed.
Print Assumptions C03_smoke.
