(* C03 — property theorems only (proved in P_Chain.v).
   Model: M_Chain.chain_cfg compiles a chain of generator-like objects / coroutine wrappers /
   asend-athrow awaitables / leaves into an M_Frames.cfg whose unwrap table is the built-in
   rules of stackscope._glue.glue_builtins; [extract] and [run] are M_Frames' own functions. *)
Require Import Base M_Frames M_Chain P_Chain.
From SS.gen Require Import SrcFacts.

(* For ALL well-formed chains of suspended links (coroutines / generators not running; async
   generators either parked at a yield or blocked in an await with ag_running = True), of any
   length the model's fuel covers, extract(x) is: the frames along the await links, outermost
   first / innermost last, each with hide = False and its own object as origin; the terminal
   non-frame object as leaf, None if frames tell the whole story; no error — for both values of
   with_contexts. *)
Theorem C03_frames_eq_path :
  forall ch sl wc,
    wf_susp ch = true -> is_nil ch = false -> 2 * chain_len ch + 2 <= default_fuel ->
    extract (chain_cfg ch sl wc all_guards 100) chain_root = Ok (ref_stack ch).
Proof. exact frames_eq_path. Qed.
Print Assumptions C03_frames_eq_path.

(* The same for every chain length: any fuel >= 2 * length + 2 suffices, with any containment
   guards (no hook raises on such chains) and any progress-guard constant >= 2. *)
Theorem C03_frames_eq_path_any_length :
  forall ch sl wc g ug fuel,
    wf_susp ch = true -> is_nil ch = false -> 2 <= ug -> 2 * chain_len ch + 2 <= fuel ->
    fst (run fuel false (chain_cfg ch sl wc g ug) (root_q (chain_cfg ch sl wc g ug) chain_root) [] [] [] 0)
    = Ok (ref_stack ch).
Proof. exact frames_eq_path_fuel. Qed.
Print Assumptions C03_frames_eq_path_any_length.

(* ... in particular for the guard constant and the containment guards regenerated from the
   source of extract_iter on this run *)
Theorem C03_frames_eq_path_src_constants :
  forall ch sl wc fuel,
    wf_susp ch = true -> is_nil ch = false -> 2 * chain_len ch + 2 <= fuel ->
    let c := chain_cfg ch sl wc
               {| g_unwrap := extract_g_unwrap; g_iter := extract_g_iter; g_ctx := extract_g_ctx;
                  g_fill := extract_g_fill; g_elab := extract_g_elab |} unwrap_guard in
    fst (run fuel false c (root_q c chain_root) [] [] [] 0) = Ok (ref_stack ch).
Proof.
  intros ch sl wc fuel Hwf Hnil Hfuel. apply frames_eq_path_fuel; auto.
  apply Nat.leb_le. reflexivity.
Qed.
Print Assumptions C03_frames_eq_path_src_constants.

(* an exhausted (or closed) coroutine / generator / async generator yields no frames, no leaf *)
Theorem C03_exhausted_no_frames :
  forall k sl wc, extract (chain_cfg (Link k None false Nil) sl wc all_guards 100) chain_root
                  = Ok (Stack [] LNone []).
Proof. exact exhausted_no_frames. Qed.
Print Assumptions C03_exhausted_no_frames.

(* For ALL chains (suspended or not, well-formed or not), ALL roots and ALL tables of
   contexts_active_in_frame / fill_context results (including raising ones and nested child
   extractions): if extract(x, with_contexts=True) returns a Stack, extract(x,
   with_contexts=False) returns one with the same frames (id, hide, origin) and the same leaf. *)
Theorem C03_contexts_flag_irrelevant :
  forall ch sl cx fl g root s,
    extract (chain_cfg_gen ch sl cx fl true g 100) root = Ok s ->
    exists s', extract (chain_cfg ch sl false g 100) root = Ok s' /\ strip s' = strip s.
Proof. exact contexts_flag_irrelevant. Qed.
Print Assumptions C03_contexts_flag_irrelevant.

(* hence with contexts on, whatever the context tables, frames and leaf of a suspended chain
   are still the reference path *)
Theorem C03_frames_eq_path_any_contexts :
  forall ch sl cx fl s,
    wf_susp ch = true -> is_nil ch = false -> 2 * chain_len ch + 2 <= default_fuel ->
    extract (chain_cfg_gen ch sl cx fl true all_guards 100) chain_root = Ok s ->
    strip s = strip (ref_stack ch).
Proof. exact frames_eq_path_any_contexts. Qed.
Print Assumptions C03_frames_eq_path_any_contexts.
