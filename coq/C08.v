(* C08 — property theorems only (proved in P_Targets.v).
   Model: M_Targets.v ([describe] = stackscope._lowlevel.describe_assignment_target,
   [compile_target] = the store sequence CPython 3.11/3.12 emits for an `as` target,
   [render_target] = the reference rendering, [expected] = what the property demands). *)
From Coq Require Import String.
Require Import Base M_Targets P_Targets.
Open Scope string_scope.
Open Scope list_scope.

(* For ALL supported targets, both compiler versions and ALL instruction suffixes, decompiling the
   compiled store sequence yields exactly the reference rendering (never dropped). *)
Theorem C08_decompile_compile : forall v t rest, sup_target v t = true ->
  describe (compile_target v t ++ rest) = DSome (render_target t).
Proof. exact decompile_compile. Qed.
Print Assumptions C08_decompile_compile.

(* For every with-item of the modelled grammar (no target, supported, or containing arithmetic, walrus,
   keyword/starred calls, tuple displays, stepped slices, 3.11 slices): the result is exactly the
   property's expectation: the rendering if supported, None otherwise. *)
Theorem C08_unsupported_none_or_render : forall v (t : option target) rest,
  describe (compile_item v t ++ rest) = expected v t.
Proof. exact item_expected. Qed.
Print Assumptions C08_unsupported_none_or_render.

(* never a wrong string *)
Theorem C08_never_wrong : forall v (t : option target) rest s,
  describe (compile_item v t ++ rest) = DSome s ->
  exists t', t = Some t' /\ sup_target v t' = true /\ s = render_target t'.
Proof. exact never_wrong. Qed.
Print Assumptions C08_never_wrong.

(* the explicit fuel of the model is never exhausted, on any instruction stream *)
Theorem C08_describe_total : forall ins, describe ins <> DFuel.
Proof. exact describe_total. Qed.
Print Assumptions C08_describe_total.

(* the complete varname rule incl. the locals fallback of _contexts_active_by_trickery: the final
   varname is the rendering of a supported target, or - only when nothing could be reconstructed -
   the name of a local bound to the manager object, or None *)
Theorem C08_varname_rule : forall v (t : option target) rest locals obj,
  match final_varname (describe (compile_item v t ++ rest)) locals obj with
  | None => expected v t = DNone
  | Some n =>
      (exists t', t = Some t' /\ sup_target v t' = true /\ n = render_target t') \/
      (expected v t = DNone /\ In (n, obj) locals)
  end.
Proof. exact varname_rule. Qed.
Print Assumptions C08_varname_rule.

(* what an accepted correspondence case establishes about the real observation *)
Theorem C08_case_ok_means_expected : forall v t code obs awb,
  tcase_ok (v, t, code, obs, awb) = true -> obs = expected v t /\ awb = obs.
Proof. exact tcase_ok_expected. Qed.
Print Assumptions C08_case_ok_means_expected.

(* ---- the hypotheses are met by non-trivial inputs ---- *)
(* (a, *lo.x.f2(k, 2).q, [d['k'], lst[None:2]]) *)
Definition ex_target : target :=
  TStar [TName KFast "a"]
        (TAttr (EMCall (EAttr (EName KFast "lo") "x") "f2" [EName KGlobal "k"; EConst "2"]) "q")
        [TTuple [TSubscr (EName KDeref "d") (EConst "'k'"); TSlice (EName KFast "lst") (EConst "None") (EConst "2")]].
Example ex_supported_312 : sup_target V312 ex_target = true. Proof. reflexivity. Qed.
Example ex_render : render_target ex_target = "(a, *lo.x.f2(k, 2).q, (d['k'], lst[None:2]))". Proof. reflexivity. Qed.
Example ex_describe_312 :
  describe (compile_target V312 ex_target ++ [ILoad KGlobalNull "M"; ICall 0; IOther 0]) =
  DSome "(a, *lo.x.f2(k, 2).q, (d['k'], lst[None:2]))".
Proof. vm_compute. reflexivity. Qed.
(* the same target is unsupported on 3.11 (no STORE_SLICE): None, not a wrong string *)
Example ex_describe_311 : describe (compile_target V311 ex_target ++ [IPopTop]) = DNone.
Proof. vm_compute. reflexivity. Qed.
(* finding F11 (fixed in /repo): `with cm as f(1).attr` with a local callee starts with PUSH_NULL *)
Example ex_F11_fixed :
  compile_target V312 (TAttr (ECall (EName KFast "f") [EConst "1"]) "attr") =
    [INop NPushNull; ILoad KFast "f"; ILoadConst "1"; ICall 1; IStoreAttr "attr"] /\
  describe (compile_target V312 (TAttr (ECall (EName KFast "f") [EConst "1"]) "attr")) = DSome "f(1).attr".
Proof. split; reflexivity. Qed.
(* unsupported forms: d[n + 1], d[(w := 1)], f(kw=1).y *)
Example ex_unsupported :
  map (fun t => describe (compile_target V312 t ++ [IPopTop]))
      [TSubscr (EName KFast "d") (EOp 1 [EName KFast "n"; EConst "1"]);
       TSubscr (EName KFast "d") (EWalrus KFast "w" (EConst "1"));
       TAttr (ECallX 3 (EName KGlobal "f") [EConst "1"]) "y"] = [DNone; DNone; DNone].
Proof. reflexivity. Qed.
(* finding F16 (fixed in /repo): an attribute of a numeric constant is parenthesised and the Ellipsis
   constant is rendered as "..." : `as (1).x`, `as (-1).x`, `as d[...]` read back as themselves *)
Example ex_F16_fixed :
  map (fun t => describe (compile_target V312 t ++ [IPopTop]))
      [TAttr (EConst "1") "x"; TAttr (EConst "-1") "x"; TSubscr (EName KFast "d") (EConst "...");
       TAttr (EMCall (EConst "1.5") "hex" []) "y"; TAttr (EConst "'s'") "y"] =
  [DSome "(1).x"; DSome "(-1).x"; DSome "d[...]"; DSome "(1.5).hex().y"; DSome "'s'.y"] /\
  map render_target [TAttr (EConst "1") "x"; TAttr (EConst "-1") "x"; TSubscr (EName KFast "d") (EConst "...")] =
  ["(1).x"; "(-1).x"; "d[...]"].
Proof. split; reflexivity. Qed.
(* fallback: last local bound to the manager (object 7) *)
Example ex_fallback :
  final_varname DNone [("m", 7); ("x", 3); ("alias", 7)] 7 = Some "alias" /\
  final_varname (DSome "a") [("m", 7)] 7 = Some "a".
Proof. split; reflexivity. Qed.

(* the fallback of the code (last local bound to the manager) satisfies the property-level
   acceptance test the correspondence applies to contexts of suspended frames (kind "fb") *)
Theorem C08_fallback_accepted : forall d locals obj, d <> DFuel ->
  fcase_ok (d, locals, obj, final_varname d locals obj) = true.
Proof. exact final_varname_accepted. Qed.
Print Assumptions C08_fallback_accepted.
