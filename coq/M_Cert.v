(* M_Cert.v — certificates for the with-machine and their checker.

   A certificate gives, for every code unit that can be reached, ONE abstract machine state
   (tags without manager instances + ground truth).  [check] verifies that
     - the entry state is the empty one;
     - every edge of the abstract machine (normal and exceptional) from a certified state
       lands exactly on the certified state of its target (so the certificate is an
       inductive invariant of the machine: P_Cert.cert_sound);
     - no with-site is re-entered while a value or truth entry of it is still around;
     - at every observation the machine offers in a certified state (suspended at a yield /
       await; running inside a call, inside __enter__/__exit__, inside an awaited
       __aenter__/__aexit__), the model of stackscope's analysis (M_Analysis.trickery)
       returns exactly the contexts the ground truth demands — and takes each manager from
       a slot that really holds that with statement's exit method.
   Certificates are computed by untrusted Python (harness/withmachine.py); only [check]
   matters.  Definitions only. *)
Require Import Base M_Bytecode M_Analysis M_WithMachine.

Definition astate := state unit.
Definition cert := list (option (list (val unit) * list (tent unit))).

Definition cert_at (ct : cert) (p : nat) : option astate :=
  match nth_error ct p with
  | Some (Some (st, tr)) => Some (mk p st tr)
  | _ => None
  end.

Definition val_eqb (a b : val unit) : bool :=
  match a, b with
  | VO, VO => true
  | VX s _, VX s' _ | VEA s _, VEA s' _ | VXA s _, VXA s' _ => s =? s'
  | _, _ => false
  end.

Definition tent_eqb (a b : tent unit) : bool :=
  (t_site a =? t_site b) && Bool.eqb (t_async a) (t_async b) && phase_eqb (t_phase a) (t_phase b).

Definition st_eqb (a b : astate) : bool :=
  (pc a =? pc b) && list_eqb val_eqb (stack a) (stack b) && list_eqb tent_eqb (truth a) (truth b).

Definition ctxv_eqb (a b : ctxv unit) : bool :=
  (c_site a =? c_site b) && Bool.eqb (c_async a) (c_async b)
  && option_eqb (fun _ _ => true) (c_obj a) (c_obj b)
  && Bool.eqb (c_exiting a) (c_exiting b) && (c_from a =? c_from b).

Definition tres_ok (r : tres unit) (want : list (ctxv unit)) : bool :=
  match r with TOk l => list_eqb ctxv_eqb l want | _ => false end.

Definition tag_site {I} (v : val I) : option nat :=
  match v with VO => None | VX s _ | VEA s _ | VXA s _ => Some s end.

Definition sites_of {I} (s : state I) : list nat :=
  flat_map (fun v => match tag_site v with Some x => [x] | None => [] end) (stack s)
  ++ map t_site (truth s).

Definition noreentry {I} (c : code) (s : state I) : bool :=
  match at_ c (pc s) with
  | IBeforeWith _ => negb (mem_nat (pc s) (sites_of s))
  | _ => true
  end.

Definition ok_succ (ct : cert) (s' : astate) : bool :=
  match cert_at ct (pc s') with Some a => st_eqb a s' | None => false end.

Definition obs_ok (v : pyver) (c : code) (t : table) (o : observation unit) : bool :=
  let '(running, lasti, st, tr) := o in
  tres_ok (trickery v c t running lasti st) (expected tr).

(* ---- referents mode (C20): the over-approximation demanded of a suspended frame ---- *)
Fixpoint subseqb (a b : list nat) : bool :=
  match a, b with
  | [], _ => true
  | _ :: _, [] => false
  | x :: a', y :: b' => if x =? y then subseqb a' b' else subseqb a b'
  end.
Fixpoint nodupb (l : list nat) : bool :=
  match l with [] => true | x :: r => negb (mem_nat x r) && nodupb r end.
Definition is_exiting_ph {I} (e : tent I) : bool := phase_eqb (t_phase e) Exiting.

Definition ref_ok (v : pyver) (c : code) (t : table) (o : observation unit) : bool :=
  let '(_, lasti, st, tr) := o in
  let N := map fst (exits_on_stack st) in
  subseqb (map t_site (filter is_active tr)) N
  && forallb (fun s => mem_nat s (map t_site tr)) N
  && nodupb N
  && nodupb (map t_site tr)
  && forallb (fun e : tent unit => Bool.eqb (t_async e) (site_async c (t_site e))) tr
  && match exiting v c t lasti, filter is_exiting_ph tr with
     | ESome asy _, [e] => Bool.eqb asy (t_async e)
     | ENone, [] => true
     | _, _ => false
     end.

(* which observations a check is about: suspended frames in trickery mode (C01), running
   frames (C02), suspended frames in referents mode (C20) *)
Inductive ckind := KSusp | KRun | KRef.

Definition obs_check (v : pyver) (k : ckind) (c : code) (t : table) (o : observation unit) : bool :=
  let '(running, _, _, _) := o in
  match k with
  | KSusp => running || obs_ok v c t o
  | KRun => negb running || obs_ok v c t o
  | KRef => running || ref_ok v c t o
  end.

Definition obs_sel (k : ckind) (o : observation unit) : bool :=
  let '(running, _, _, _) := o in
  match k with KSusp | KRef => negb running | KRun => running end.

Definition check_pc (v : pyver) (k : ckind) (c : code) (t : table) (ct : cert) (p : nat) : bool :=
  match cert_at ct p with
  | None => true
  | Some a =>
      noreentry c a
      && match trans v c t tt a with
         | Some succs => forallb (ok_succ ct) succs
         | None => false
         end
      && forallb (obs_check v k c t) (obs c a)
  end.

Definition checkk (v : pyver) (k : ckind) (c : code) (t : table) (ct : cert) : bool :=
  forallb (check_pc v k c t ct) (seq 0 (length c))
  && match cert_at ct 0 with Some a => st_eqb a (mk 0 [] []) | None => false end.

Definition check (v : pyver) (c : code) (t : table) (ct : cert) : bool := checkk v KSusp c t ct && checkk v KRun c t ct.

(* ---- diagnostics for the harness (not used by any theorem): which pcs fail, and why ---- *)
Definition bad_pcs (v : pyver) (c : code) (t : table) (ct : cert) : list nat :=
  filter (fun p => negb (check_pc v KSusp c t ct p && check_pc v KRun c t ct p)) (seq 0 (length c)).

Definition count_obs (k : ckind) (c : code) (ct : cert) : nat :=
  length (flat_map (fun p => match cert_at ct p with
                             | Some a => filter (fun o => obs_sel k o && negb (match snd o with [] => true | _ => false end)) (obs c a)
                             | None => [] end)
                   (seq 0 (length c))).

(* ---- case types of the generated correspondence files (harness/wm_cases.py) ---- *)
Definition cert_case := (pyver * code * table * cert)%type.
Definition cert_mismatches (k : ckind) (cases : list cert_case) : list nat :=
  false_indices 0 (map (fun x : cert_case => let '(v, c, t, ct) := x in checkk v k c t ct) cases).
Definition cert_nontrivial (k : ckind) (cases : list cert_case) : nat :=
  count_true (map (fun x : cert_case => let '(_, c, t, ct) := x in 1 <=? count_obs k c ct) cases).

(* static: what the Python functions returned at given code units *)
Definition exres_eqb (a b : exres) : bool :=
  match a, b with
  | ENone, ENone | EWarn, EWarn => true
  | ESome x h, ESome y h' => Bool.eqb x y && (h =? h')
  | _, _ => false
  end.
Definition winfo_agrees (w : option winfo) (py : option (list (nat * bool))) : bool :=
  match w, py with
  | None, None => true
  | Some w, Some l =>
      forallb (fun x : nat * bool => match winfo_get w (fst x) with
                                     | Some (_, a) => Bool.eqb a (snd x)
                                     | None => false end) l
      && forallb (fun e : nat * (nat * bool) => mem_nat (fst e) (map fst l)) w
  | _, _ => false
  end.
Definition static_case := (pyver * code * table * list (nat * exres) * option (list (nat * bool)))%type.
Definition static_ok (x : static_case) : bool :=
  let '(v, c, t, ex, wi) := x in
  forallb (fun y : nat * exres => exres_eqb (exiting v c t (fst y)) (snd y)) ex
  && winfo_agrees (with_info v c t) wi.
Definition static_mismatches (cases : list static_case) : list nat :=
  false_indices 0 (map static_ok cases).
Definition static_nontrivial (cases : list static_case) : nat :=
  count_true (map (fun x : static_case => let '(_, _, _, ex, _) := x in
                     existsb (fun y : nat * exres => negb (exres_eqb (snd y) ENone)) ex) cases).
(* diagnostics *)
Definition static_bad (x : static_case) : list (nat * exres) :=
  let '(v, c, t, ex, wi) := x in
  map (fun y : nat * exres => (fst y, exiting v c t (fst y)))
      (filter (fun y : nat * exres => negb (exres_eqb (exiting v c t (fst y)) (snd y))) ex).

(* join: the REAL _contexts_active_by_trickery run on a certified observation, with the ctypes
   reads of inspect_frame replaced by the certificate's abstract stack (bound exit methods of
   per-site dummy managers) and the real exception-table walk / trim code extracted from
   inspect_frame's source; compared with M_Analysis.trickery / blocks / trim_depth *)
Definition view := list (option nat * bool * bool).     (* (site the obj belongs to, is_async, is_exiting) *)
Definition tres_view (r : tres unit) : option (option view) :=   (* None = raised; Some None = warned *)
  match r with
  | TOk l => Some (Some (map (fun x : ctxv unit =>
                 (if c_exiting x then None else Some (c_from x), c_async x, c_exiting x)) l))
  | TWarn => Some None
  | TFail => None
  end.
Definition view_eqb (a b : view) : bool :=
  list_eqb (fun x y : option nat * bool * bool =>
              option_eqb Nat.eqb (fst (fst x)) (fst (fst y)) && Bool.eqb (snd (fst x)) (snd (fst y))
              && Bool.eqb (snd x) (snd y)) a b.
Definition join_obs := (bool * nat * list (val unit) * option (option view) * option (list (nat * nat)) * nat)%type.
Definition join_case := (pyver * code * table * list join_obs)%type.
Definition join_obs_ok (v : pyver) (c : code) (t : table) (o : join_obs) : bool :=
  let '(running, lasti, st, pyres, pyblocks, pytrim) := o in
  option_eqb (option_eqb view_eqb) (tres_view (trickery v c t running lasti st)) pyres
  && option_eqb (list_eqb (fun x y : nat * nat => (fst x =? fst y) && (snd x =? snd y))) (blocks t lasti) pyblocks
  && (trim_depth t lasti =? pytrim).
Definition join_ok (x : join_case) : bool := let '(v, c, t, l) := x in forallb (join_obs_ok v c t) l.
Definition join_mismatches (cases : list join_case) : list nat := false_indices 0 (map join_ok cases).
Definition join_nontrivial (cases : list join_case) : nat :=
  count_true (map (fun x : join_case => let '(_, _, _, l) := x in
     existsb (fun o : join_obs => let '(_, _, _, r, _, _) := o in
                match r with Some (Some (_ :: _)) => true | _ => false end) l) cases).
Definition join_bad (x : join_case) : list (nat * option (option view) * option (list (nat * nat)) * nat) :=
  let '(v, c, t, l) := x in
  map (fun o : join_obs => let '(running, lasti, st, _, _, _) := o in
         (lasti, tres_view (trickery v c t running lasti st), blocks t lasti, trim_depth t lasti))
      (filter (fun o => negb (join_obs_ok v c t o)) l).

(* live: states of real frames observed by the runtime legs (f_lasti and the ground truth logged
   by instrumented managers, with-sites identified through co_positions) must be observations
   the certified machine offers at that position: validates M_WithMachine (the CPython model)
   against the real interpreter, independently of stackscope's analysis *)
(* a sync manager inside __enter__ has no truth entry in the machine yet, while the instrumented
   managers log it as "entering": entries still entering are ignored on both sides (the property
   demands nothing of them) *)
Definition not_entering (e : tent unit) : bool := negb (phase_eqb (t_phase e) Entering).
Definition live_obs := (bool * nat * list (tent unit))%type.
Definition live_case := (code * table * cert * list live_obs)%type.
Definition live_obs_ok (c : code) (ct : cert) (o : live_obs) : bool :=
  let '(r, l, tr) := o in
  existsb (fun p =>
    match cert_at ct p with
    | Some a => existsb (fun o' : observation unit =>
                   let '(r', l', _, tr') := o' in
                   Bool.eqb r r' && (l =? l')
                   && list_eqb tent_eqb (filter not_entering tr) (filter not_entering tr')) (obs c a)
    | None => false
    end) (seq (l - 9) 10).
Definition live_ok (x : live_case) : bool := let '(c, _, ct, l) := x in forallb (live_obs_ok c ct) l.
Definition live_mismatches (cases : list live_case) : list nat := false_indices 0 (map live_ok cases).
Definition live_nontrivial (cases : list live_case) : nat :=
  count_true (map (fun x : live_case => let '(_, _, _, l) := x in
     existsb (fun o : live_obs => let '(_, _, tr) := o in match tr with [] => false | _ => true end) l) cases).
Definition live_bad (x : live_case) : list live_obs :=
  let '(c, _, ct, l) := x in filter (fun o => negb (live_obs_ok c ct o)) l.
