(* C12 — customizations bind to exactly the code that runs; every customize option works.
   Property theorems only (proved in P_Dispatch.v about the model functions of M_Dispatch.v that the
   correspondence harness/c12.py evaluates: get_code, irun/istep, register_all/dispatch,
   customize/run_hook/walk). *)
From Coq Require Import String.
Require Import Base M_Dispatch P_Dispatch.

(* for ALL towers: get_code (no names) is the function at the bottom of the tower — the code that
   runs when a partial/bound/class/static method is called, the decorated original under wraps —
   and TypeError iff there is none; the model's internal fuel always suffices *)
Theorem C12_get_code_tower : forall t,
  get_code t [] = match innermost t with Some c => GOk c | None => GErr ETypeError end.
Proof. exact get_code_tower. Qed.
Print Assumptions C12_get_code_tower.

Theorem C12_get_code_total : forall t names, get_code t names <> GErr EOutOfFuel.
Proof. exact get_code_total. Qed.
Print Assumptions C12_get_code_total.

(* for ALL towers and name paths: the result is the reference resolution (first code constant of
   that name at each level, ValueError naming the failing position otherwise) and nothing else *)
Theorem C12_nested : forall t names c, innermost t = Some c ->
  forall res, get_code t names = res <-> Resolves c names 0 res.
Proof. exact get_code_nested. Qed.
Print Assumptions C12_nested.

(* for ALL operation sequences from ANY well-formed IdentityDict: the invariant is kept and every
   observation is one that a finite map on identities allows *)
Theorem C12_identity_refines_map : forall ops d, wf k_id d ->
  wf k_id (fst (irun d ops)) /\ spec_run (abs d) ops (snd (irun d ops)) (abs (fst (irun d ops))).
Proof. exact irun_refines. Qed.
Print Assumptions C12_identity_refines_map.

Theorem C12_identity_refines_map_fresh : forall ops,
  spec_run fempty ops (snd (irun [] ops)) (abs (fst (irun [] ops))).
Proof. exact irun_refines_empty. Qed.
Print Assumptions C12_identity_refines_map_fresh.

(* an equal-but-distinct key misses (and the stored key hits) *)
Theorem C12_equal_but_distinct_misses : forall (d : kdict) k1 k2 v,
  k_cls k1 = k_cls k2 -> k_id k1 <> k_id k2 -> id_getitem k_id d k2 = None ->
  id_getitem k_id (id_setitem k_id d k1 v) k1 = Some v /\
  id_getitem k_id (id_setitem k_id d k1 v) k2 = None.
Proof. exact equal_but_distinct_misses. Qed.
Print Assumptions C12_equal_but_distinct_misses.

(* for ALL registration sequences on ANY registry: dispatch on a code identity gives the LAST
   registration whose target resolves to that very code object, else what was there before *)
Theorem C12_latest_wins : forall (H : Type) l (r : registry H) i,
  dispatch (fst (register_all r l)) i =
  match latest l i with Some h => Some h | None => dispatch r i end.
Proof. exact @latest_wins. Qed.
Print Assumptions C12_latest_wins.

(* for ALL option values, both forms, ANY prior registry, ANY target that resolves: frames running
   exactly that code object get the documented effect of every option, all other code identities
   dispatch as before *)
Theorem C12_customize : forall f (r0 : registry hook) t names o c,
  get_code t names = GOk c ->
  let r := fst (customize f r0 t names o) in
  snd (customize f r0 t names o) = ROk /\
  (forall fr next, f_code fr = code_id c ->
     documented_effect o fr next (run_hook (dispatch r (f_code fr)) fr next)) /\
  (forall i, i <> code_id c -> dispatch r i = dispatch r0 i).
Proof. exact customize_effect. Qed.
Print Assumptions C12_customize.

Theorem C12_customize_error : forall f (r0 : registry hook) t names o e,
  get_code t names = GErr e -> customize f r0 t names o = (r0, RErr e).
Proof. exact customize_error. Qed.
Print Assumptions C12_customize_error.

(* finite sweep, bound stated: 2 forms x 2^3 flags x 4 elaborate kinds = 64 combinations on a
   3-frame chain, observed through walk *)
Theorem C12_customize_sweep :
  forall f h hl p e, In f [Direct; Decorator] -> In h bools -> In hl bools -> In p bools -> In e sweep_elabs ->
  walk 1 (fst (customize f [] (TPartial (TFn (sweep_code 1))) [] (Opts h hl p e))) sweep_stack
  = sweep_expected (Opts h hl p e).
Proof. exact customize_sweep. Qed.
Print Assumptions C12_customize_sweep.

(* walk (what the correspondence observes through extract()) against its fuel-free reference *)
Theorem C12_walk_sound : forall fuel r st fs cs, walk fuel r st = WOk fs cs -> Walk r st fs cs.
Proof. exact walk_sound. Qed.
Print Assumptions C12_walk_sound.

Theorem C12_walk_complete : forall r st fs cs,
  Walk r st fs cs -> exists fuel, forall fuel', fuel <= fuel' -> walk fuel' r st = WOk fs cs.
Proof. exact walk_complete. Qed.
Print Assumptions C12_walk_complete.
