(* P_Contexts.v — reference specification of the context-hook loop and proofs relating the
   executable model M_Contexts.fill to it (property C11).

   Layout
     1. accumulator-free form [loopF] of the model loop, [loop = loopF]
     2. reference specification written from the property text: forward reachability
        [Iter] ("after k successful unwrap steps the loop is about to elaborate ck") and the
        outcome relation [Ref]; soundness, determinism, completeness
     3. consequences: result, trace (tables-only recursion), cycle/guard, outside = inside,
        the two lookup paths of generator-based managers, the ==() observation *)
Require Import Base M_Contexts.

(* ------------------------------------------------------------------ 1. loopF *)
Section Loop.
Variable cf : cfg.
Variable o : opts.

Definition elab1 (c : ctx) : ctx * list ev * bool := elab_step cf o c [].
Definition unwrap1 (c : ctx) : ures * list ev * option who := unwrap_step cf o c [].

Lemma elab_step_acc c log :
  elab_step cf o c log = (fst (fst (elab1 c)), snd (fst (elab1 c)) ++ log, snd (elab1 c)).
Proof.
  unfold elab1, elab_step. destruct (gcm _); [reflexivity|].
  destruct (hooked _); [|reflexivity]. destruct (apply_effs _ _); reflexivity.
Qed.

Lemma gen_hook_acc c f cx log :
  gen_hook cf o c f cx log =
  (fst (fst (gen_hook cf o c f cx [])), snd (fst (gen_hook cf o c f cx [])) ++ log, snd (gen_hook cf o c f cx [])).
Proof. unfold gen_hook. destruct (greg _ _); reflexivity. Qed.

Lemma unwrap_step_acc c log :
  unwrap_step cf o c log = (fst (fst (unwrap1 c)), snd (fst (unwrap1 c)) ++ log, snd (unwrap1 c)).
Proof.
  unfold unwrap1, unwrap_step. destruct (gcm _).
  - unfold gcm_unwrap. destruct (greg _ _); [|reflexivity].
    destruct (inner c) as [[|[f cx] fr]|].
    + reflexivity.
    + apply gen_hook_acc.
    + destruct (gframes _); [reflexivity|apply gen_hook_acc].
  - destruct (hooked _); reflexivity.
Qed.

Lemma elab1_len c : length (snd (fst (elab1 c))) <= 1.
Proof.
  unfold elab1, elab_step. destruct (gcm _); [simpl; lia|].
  destruct (hooked _); [|simpl; lia]. destruct (apply_effs _ _); simpl; lia.
Qed.

Lemma gen_hook_len c f cx : length (snd (fst (gen_hook cf o c f cx []))) <= 1.
Proof. unfold gen_hook. destruct (greg _ _); simpl; lia. Qed.

Lemma unwrap1_len c : length (snd (fst (unwrap1 c))) <= 1.
Proof.
  unfold unwrap1, unwrap_step. destruct (gcm _).
  - unfold gcm_unwrap. destruct (greg _ _); [|simpl; lia].
    destruct (inner c) as [[|[f cx] fr]|]; [simpl; lia|apply gen_hook_len|].
    destruct (gframes _); [simpl; lia|apply gen_hook_len].
  - destruct (hooked _); simpl; lia.
Qed.

Lemma rev_short {A} (l : list A) : length l <= 1 -> rev l = l.
Proof. destruct l as [|x [|y l]]; simpl; auto; lia. Qed.

(* a hook result URaise always comes with the exception *)
Lemma gen_hook_raise c f cx l w : gen_hook cf o c f cx [] = (URaise, l, w) -> w <> None.
Proof.
  unfold gen_hook. destruct (greg _ _) as [r|]; [|discriminate].
  destruct (gverdict _ _ _ _); intros E; inversion E; discriminate.
Qed.

Lemma unwrap1_raise c l w : unwrap1 c = (URaise, l, w) -> w <> None.
Proof.
  unfold unwrap1, unwrap_step. destruct (gcm _).
  - unfold gcm_unwrap. destruct (greg _ _); [|discriminate].
    destruct (inner c) as [[|[f cx] fr]|]; [discriminate|apply gen_hook_raise|].
    destruct (gframes _); [discriminate|apply gen_hook_raise].
  - destruct (hooked _); [|discriminate]. destruct (unwrapt _ _); intros E; inversion E; discriminate.
Qed.

(* the loop without accumulator; events in call order *)
Fixpoint loopF (n : nat) (c : ctx) : outcome * list ev :=
  match n with
  | 0 =>
      let '(r, l2, w) := unwrap1 c in
      (match w with Some w => RaisedHook w c | None => RaisedLoop c r end, l2)
  | S n' =>
      let '(c1, l1, raised) := elab1 c in
      if raised then (RaisedHook (WElab (obj c)) c1, l1) else
      let '(r, l2, w) := unwrap1 c1 in
      match w with
      | Some w => (RaisedHook w c1, l1 ++ l2)
      | None =>
          match r with
          | UTo m =>
              if eqprune (mattrs cf m) then (Done (set_hidden c1), l1 ++ l2)
              else let '(x, l) := loopF n' (replace c1 m) in (x, l1 ++ l2 ++ l)
          | UPrune => (Done (set_hidden c1), l1 ++ l2)
          | _ => (Done c1, l1 ++ l2)
          end
      end
  end.

Lemma loop_loopF n : forall c acc,
  loop n cf o c acc = (fst (loopF n c), rev (snd (loopF n c)) ++ acc).
Proof.
  induction n as [|n IH]; intros c acc; simpl.
  - rewrite unwrap_step_acc. pose proof (unwrap1_len c) as L.
    destruct (unwrap1 c) as [[r l2] w]; simpl in *. rewrite (rev_short _ L).
    destruct w; reflexivity.
  - rewrite elab_step_acc. pose proof (elab1_len c) as L1.
    destruct (elab1 c) as [[c1 l1] raised]; simpl in *.
    destruct raised; [simpl; rewrite (rev_short _ L1); reflexivity|].
    rewrite unwrap_step_acc. pose proof (unwrap1_len c1) as L2.
    pose proof (unwrap1_raise c1) as NR.
    destruct (unwrap1 c1) as [[r l2] w]; simpl in *.
    assert (R : rev (l1 ++ l2) ++ acc = l2 ++ l1 ++ acc).
    { rewrite rev_app_distr, (rev_short _ L1), (rev_short _ L2), app_assoc. reflexivity. }
    destruct w as [w|].
    + simpl. rewrite R. destruct r; reflexivity.
    + destruct r; simpl.
      * rewrite R; reflexivity.
      * rewrite R; reflexivity.
      * destruct (eqprune (mattrs cf m)); simpl; [rewrite R; reflexivity|].
        rewrite IH. destruct (loopF n (replace c1 m)) as [x l]; simpl.
        rewrite !rev_app_distr, (rev_short _ L1), (rev_short _ L2), <- !app_assoc. reflexivity.
      * exfalso. apply (NR l2 None); reflexivity.
Qed.

(* ------------------------------------------------------------------ 2. reference specification *)

(* [Iter c0 k ck log]: starting from c0, k unwrap steps succeeded (each one: elaborate the
   current manager, unwrap it to another manager that is not PRUNE-like, replace obj and
   reset inner_stack/children); the loop is about to elaborate ck; log = hook calls so far *)
Inductive Iter (c0 : ctx) : nat -> ctx -> list ev -> Prop :=
| Iter0 : Iter c0 0 c0 []
| IterS k ck log c1 l1 m l2 :
    Iter c0 k ck log -> k < guard cf ->
    elab1 ck = (c1, l1, false) ->
    unwrap1 c1 = (UTo m, l2, None) ->
    eqprune (mattrs cf m) = false ->
    Iter c0 (S k) (replace c1 m) (log ++ l1 ++ l2).

(* how fill_context ends, one rule per clause of the property *)
Inductive Ref (c0 : ctx) : outcome -> list ev -> Prop :=
| RefElabRaise k ck log c1 l1 :                       (* elaborate hook raised *)
    Iter c0 k ck log -> k < guard cf -> elab1 ck = (c1, l1, true) ->
    Ref c0 (RaisedHook (WElab (obj ck)) c1) (log ++ l1)
| RefUnwrapRaise k ck log c1 l1 r l2 w :              (* unwrap hook raised *)
    Iter c0 k ck log -> k < guard cf -> elab1 ck = (c1, l1, false) ->
    unwrap1 c1 = (r, l2, Some w) ->
    Ref c0 (RaisedHook w c1) (log ++ l1 ++ l2)
| RefNone k ck log c1 l1 l2 :                          (* None stops *)
    Iter c0 k ck log -> k < guard cf -> elab1 ck = (c1, l1, false) ->
    unwrap1 c1 = (UNone, l2, None) ->
    Ref c0 (Done c1) (log ++ l1 ++ l2)
| RefPrune k ck log c1 l1 r l2 :                       (* PRUNE hides and stops *)
    Iter c0 k ck log -> k < guard cf -> elab1 ck = (c1, l1, false) ->
    unwrap1 c1 = (r, l2, None) -> is_prune cf r = true ->
    Ref c0 (Done (set_hidden c1)) (log ++ l1 ++ l2)
| RefLoop ck log r l2 :                                (* guard exhausted: error, not a hang *)
    Iter c0 (guard cf) ck log -> unwrap1 ck = (r, l2, None) ->
    Ref c0 (RaisedLoop ck r) (log ++ l2)
| RefLoopRaise ck log r l2 w :
    Iter c0 (guard cf) ck log -> unwrap1 ck = (r, l2, Some w) ->
    Ref c0 (RaisedHook w ck) (log ++ l2).

Lemma loopF_sound n : forall c0 k ck log,
  Iter c0 k ck log -> k + n = guard cf ->
  Ref c0 (fst (loopF n ck)) (log ++ snd (loopF n ck)).
Proof.
  induction n as [|n IH]; intros c0 k ck log HI HK; simpl.
  - assert (k = guard cf) by lia; subst k.
    destruct (unwrap1 ck) as [[r l2] w] eqn:EU; simpl.
    destruct w; [eapply RefLoopRaise|eapply RefLoop]; eauto.
  - assert (LT : k < guard cf) by lia.
    destruct (elab1 ck) as [[c1 l1] raised] eqn:EE.
    destruct raised; simpl; [eapply RefElabRaise; eauto|].
    pose proof (unwrap1_raise c1) as NR.
    destruct (unwrap1 c1) as [[r l2] w] eqn:EU.
    destruct w as [w|]; simpl; [eapply RefUnwrapRaise; eauto|].
    destruct r; simpl.
    + eapply RefNone; eauto.
    + eapply RefPrune; eauto.
    + destruct (eqprune (mattrs cf m)) eqn:EP; simpl.
      * eapply RefPrune; eauto.
      * assert (HI' : Iter c0 (S k) (replace c1 m) (log ++ l1 ++ l2)) by (eapply IterS; eauto).
        specialize (IH c0 (S k) _ _ HI' ltac:(lia)).
        destruct (loopF n (replace c1 m)) as [x l]; simpl in *.
        rewrite <- !app_assoc in IH. exact IH.
    + exfalso. apply (NR l2 None); reflexivity.
Qed.

(* determinism of the reference *)
Lemma Iter_fun c0 k : forall ck log ck' log',
  Iter c0 k ck log -> Iter c0 k ck' log' -> ck = ck' /\ log = log'.
Proof.
  induction k as [|k IH]; intros ck log ck' log' H1 H2; inversion H1; inversion H2; subst; auto.
  match goal with A : Iter c0 k ?a ?la, B : Iter c0 k ?b ?lb |- _ =>
    destruct (IH _ _ _ _ A B); subst end.
  repeat match goal with A : ?x = _, B : ?x = _ |- _ => rewrite A in B; inversion B; clear B; subst end.
  auto.
Qed.

(* every shorter prefix of a reached iteration continued *)
Lemma Iter_prefix c0 k' ck' log' :
  Iter c0 k' ck' log' -> forall k, k < k' ->
  exists ck log c1 l1 m l2, Iter c0 k ck log /\ k < guard cf /\ elab1 ck = (c1, l1, false)
    /\ unwrap1 c1 = (UTo m, l2, None) /\ eqprune (mattrs cf m) = false.
Proof.
  induction 1 as [|k0 ck log c1 l1 m l2 HI IH LT EE EU EP]; intros k Hk; [lia|].
  destruct (Nat.eq_dec k k0) as [->|NE].
  - exists ck, log, c1, l1, m, l2; auto.
  - apply IH; lia.
Qed.

Lemma Iter_le c0 k ck log : Iter c0 k ck log -> k <= guard cf.
Proof. induction 1; lia. Qed.

Ltac same_iter :=
  match goal with A : Iter ?c0 ?k ?a ?la, B : Iter ?c0 ?k ?b ?lb |- _ =>
    destruct (Iter_fun _ _ _ _ _ _ A B); subst; clear B end.
Ltac same_eq :=
  repeat match goal with A : ?x = _, B : ?x = _ |- _ => rewrite A in B; inversion B; clear B; subst end.

(* a final rule at step k excludes reaching step k' > k *)
Lemma stop_excludes c0 k ck log k' ck' log' :
  Iter c0 k ck log -> Iter c0 k' ck' log' -> k < k' ->
  forall c1 l1 rs, elab1 ck = (c1, l1, rs) ->
  rs = false /\ exists m l2, unwrap1 c1 = (UTo m, l2, None) /\ eqprune (mattrs cf m) = false.
Proof.
  intros HI HI' LT c1 l1 rs EE.
  destruct (Iter_prefix _ _ _ _ HI' k LT) as (ck0 & log0 & c10 & l10 & m & l2 & HI0 & _ & EE0 & EU0 & EP0).
  destruct (Iter_fun _ _ _ _ _ _ HI HI0); subst. rewrite EE in EE0; inversion EE0; subst.
  split; auto. exists m, l2; auto.
Qed.

Lemma Ref_step c0 x l : Ref c0 x l ->
  exists k ck log, Iter c0 k ck log /\
   ((k = guard cf /\ exists r l2 w, unwrap1 ck = (r, l2, w) /\ l = log ++ l2 /\
        x = match w with Some w => RaisedHook w ck | None => RaisedLoop ck r end)
    \/ (k < guard cf /\ exists c1 l1 rs, elab1 ck = (c1, l1, rs) /\
         ((rs = true /\ x = RaisedHook (WElab (obj ck)) c1 /\ l = log ++ l1)
          \/ (rs = false /\ exists r l2 w, unwrap1 c1 = (r, l2, w) /\ l = log ++ l1 ++ l2 /\
               ((exists w', w = Some w' /\ x = RaisedHook w' c1)
                \/ (w = None /\ r = UNone /\ x = Done c1)
                \/ (w = None /\ is_prune cf r = true /\ x = Done (set_hidden c1))))))).
Proof.
  destruct 1.
  - exists k, ck, log; split; auto. right; split; auto. exists c1, l1, true; split; auto.
  - exists k, ck, log; split; auto. right; split; auto. exists c1, l1, false; split; auto.
    right; split; auto. exists r, l2, (Some w); repeat split; auto. left; eauto.
  - exists k, ck, log; split; auto. right; split; auto. exists c1, l1, false; split; auto.
    right; split; auto. exists UNone, l2, None; repeat split; auto.
  - exists k, ck, log; split; auto. right; split; auto. exists c1, l1, false; split; auto.
    right; split; auto. exists r, l2, None; repeat split; auto.
  - exists (guard cf), ck, log; split; auto. left; split; auto. exists r, l2, None; auto.
  - exists (guard cf), ck, log; split; auto. left; split; auto. exists r, l2, (Some w); auto.
Qed.

Lemma Ref_fun c0 x l x' l' : Ref c0 x l -> Ref c0 x' l' -> x = x' /\ l = l'.
Proof.
  intros R1 R2.
  destruct (Ref_step _ _ _ R1) as (k & ck & log & HI & D).
  destruct (Ref_step _ _ _ R2) as (k' & ck' & log' & HI' & D').
  assert (KK : k = k').
  { destruct (Nat.lt_trichotomy k k') as [LT|[E|LT]]; auto; exfalso.
    - destruct D as [[E _]|[_ (c1 & l1 & rs & EE & D)]].
      + pose proof (Iter_le _ _ _ _ HI'); lia.
      + destruct (stop_excludes _ _ _ _ _ _ _ HI HI' LT _ _ _ EE) as (RS & m & l2 & EU & EP).
        destruct D as [(RT & _)|(_ & r & l2' & w & EU' & _ & D)]; [congruence|].
        rewrite EU in EU'; inversion EU'; subst.
        destruct D as [(w' & W & _)|[(_ & RN & _)|(_ & PR & _)]]; try discriminate.
        simpl in PR; congruence.
    - destruct D' as [[E _]|[_ (c1 & l1 & rs & EE & D')]].
      + pose proof (Iter_le _ _ _ _ HI); lia.
      + destruct (stop_excludes _ _ _ _ _ _ _ HI' HI LT _ _ _ EE) as (RS & m & l2 & EU & EP).
        destruct D' as [(RT & _)|(_ & r & l2' & w & EU' & _ & D')]; [congruence|].
        rewrite EU in EU'; inversion EU'; subst.
        destruct D' as [(w' & W & _)|[(_ & RN & _)|(_ & PR & _)]]; try discriminate.
        simpl in PR; congruence. }
  subst k'. destruct (Iter_fun _ _ _ _ _ _ HI HI'); subst ck' log'.
  destruct D as [[E (r & l2 & w & EU & -> & ->)]|[LT (c1 & l1 & rs & EE & D)]];
  destruct D' as [[E' (r' & l2' & w' & EU' & -> & ->)]|[LT' (c1' & l1' & rs' & EE' & D')]]; try lia.
  - rewrite EU in EU'; inversion EU'; subst; auto.
  - rewrite EE in EE'; inversion EE'; subst.
    destruct D as [(RT & -> & ->)|(RF & r & l2 & w & EU & -> & D)];
    destruct D' as [(RT' & -> & ->)|(RF' & r' & l2' & w' & EU' & -> & D')]; try congruence; auto.
    rewrite EU in EU'; inversion EU'; subst. split; auto.
    destruct D as [(w1 & W & ->)|[(W & RN & ->)|(W & PR & ->)]];
    destruct D' as [(w2 & W' & ->)|[(W' & RN' & ->)|(W' & PR' & ->)]]; subst; try congruence; try discriminate.
Qed.

End Loop.

(* ------------------------------------------------------------------ fill = reference *)

Definition opts_in (o : opts) : opts := match o with Some _ => o | None => Some (true, false) end.

Lemma fill_loopF cf o c :
  fill cf o c =
  (fst (loopF cf (opts_in o) (guard cf) c), snd (loopF cf (opts_in o) (guard cf) c),
   match o with
   | Some _ => o
   | None => if restores cf || negb (is_raise (fst (loopF cf (Some (true, false)) (guard cf) c)))
             then None else Some (true, false)
   end).
Proof.
  unfold fill. destruct o as [p|]; simpl; rewrite loop_loopF; simpl;
    rewrite app_nil_r, rev_involutive; reflexivity.
Qed.

(* soundness and completeness: the model computes exactly the reference outcome and log *)
Lemma fill_ref cf o c x l :
  (fst (fill cf o c) = (x, l)) <-> Ref cf (opts_in o) c x l.
Proof.
  rewrite fill_loopF; simpl.
  pose proof (loopF_sound cf (opts_in o) (guard cf) c 0 c [] (Iter0 _ _ _) eq_refl) as S.
  simpl in S. split.
  - intros E; inversion E; subst; exact S.
  - intros R. destruct (Ref_fun _ _ _ _ _ _ _ S R); subst. reflexivity.
Qed.

(* ------------------------------------------------------------------ 3a. result *)

Lemma Iter_reset cf o c0 k ck log :
  Iter cf o c0 k ck log -> k > 0 -> inner ck = None /\ children ck = [].
Proof. destruct 1; intros; [lia|split; reflexivity]. Qed.

(* nothing but the final PRUNE touches `hide`; is_exiting is never written *)
Lemma apply_effs_keep l : forall c,
  hidden (fst (apply_effs l c)) = hidden c /\ exiting (fst (apply_effs l c)) = exiting c.
Proof.
  induction l as [|e l IH]; intros c; simpl; auto.
  destruct e; simpl; auto;
    match goal with |- context [apply_effs l ?c'] => destruct (IH c') as [A B]; rewrite A, B; auto end.
Qed.

Lemma elab1_keep cf o c :
  hidden (fst (fst (elab1 cf o c))) = hidden c /\ exiting (fst (fst (elab1 cf o c))) = exiting c.
Proof.
  unfold elab1, elab_step. destruct (gcm _).
  - unfold gcm_elab. destruct (exiting c) eqn:E; simpl; auto.
  - destruct (hooked _); simpl; auto.
    pose proof (apply_effs_keep (elabt cf (obj c)) c) as K.
    destruct (apply_effs _ _); simpl in *; auto.
Qed.

Lemma Iter_keep cf o c0 k ck log :
  Iter cf o c0 k ck log -> hidden ck = hidden c0 /\ exiting ck = exiting c0.
Proof.
  induction 1 as [|k ck log c1 l1 m l2 HI IH LT EE EU EP]; auto.
  pose proof (elab1_keep cf o ck) as K. rewrite EE in K; simpl in *.
  destruct K, IH; split; congruence.
Qed.

(* C11_result.  If fill_context returns normally with Context c', then there are a number k
   of successful unwrap steps and a context [start] from which the last elaboration ran, such
   that: start is the caller's context if k = 0 and otherwise carries the manager returned
   by the last unwrap step with inner_stack and children reset; c' is exactly what that
   last elaboration produced, with `hide` set iff the chain ended in PRUNE. *)
Lemma result_spec cf o c0 c' log o' :
  fill cf o c0 = (Done c', log, o') ->
  exists k start logk c1 l1 r l2,
    Iter cf (opts_in o) c0 k start logk
    /\ k < guard cf
    /\ (k = 0 -> start = c0)
    /\ (k > 0 -> inner start = None /\ children start = [])
    /\ elab1 cf (opts_in o) start = (c1, l1, false)
    /\ unwrap1 cf (opts_in o) c1 = (r, l2, None)
    /\ log = logk ++ l1 ++ l2
    /\ ((r = UNone /\ c' = c1) \/ (is_prune cf r = true /\ c' = set_hidden c1))
    /\ hidden c1 = hidden c0.
Proof.
  intros F. assert (R : fst (fill cf o c0) = (Done c', log)) by (rewrite F; reflexivity).
  apply fill_ref in R.
  destruct (Ref_step _ _ _ _ _ R) as (k & ck & logk & HI & D).
  destruct D as [[_ (r & l2 & w & _ & _ & X)]|[LT (c1 & l1 & rs & EE & D)]].
  { destruct w; discriminate. }
  destruct D as [(_ & X & _)|(-> & r & l2 & w & EU & -> & D)]; [discriminate|].
  assert (HK : hidden c1 = hidden c0).
  { pose proof (elab1_keep cf (opts_in o) ck) as K. rewrite EE in K; simpl in K.
    destruct (Iter_keep _ _ _ _ _ _ HI). destruct K. congruence. }
  assert (Z : k = 0 -> ck = c0) by (intros ->; inversion HI; auto).
  assert (P : k > 0 -> inner ck = None /\ children ck = []) by (intros G; eapply Iter_reset; eauto).
  destruct D as [(w' & _ & X)|[(-> & -> & X)|(-> & PR & X)]]; [discriminate| |]; inversion X; subst.
  - exists k, ck, logk, c1, l1, UNone, l2. repeat split; auto; apply P; auto.
  - exists k, ck, logk, c1, l1, r, l2. repeat split; auto; apply P; auto.
Qed.

(* the manager a re-elaboration starts from is the one the previous unwrap step returned *)
Lemma Iter_last_target cf o c0 k ck log :
  Iter cf o c0 (S k) ck log ->
  exists cprev lp, unwrap1 cf o cprev = (UTo (obj ck), lp, None) /\ eqprune (mattrs cf (obj ck)) = false.
Proof. inversion 1; subst. eexists _, _; split; eauto. Qed.

(* ------------------------------------------------------------------ 3b. trace *)

(* Expected hook-call sequence computed from the hook tables alone (no Context involved),
   for configurations whose managers are all synthetic:
     elab o0, unwrap o0', elab o1, unwrap o1', ...   (oi' = oi unless elaborate overwrote obj)
   up to the first None / PRUNE / raise, or the extra unwrap call when the guard runs out. *)
Fixpoint obj_after (l : list eff) (m : nat) : nat :=
  match l with
  | [] => m
  | ERaise :: _ => m
  | ESetObj o :: r => obj_after r o
  | _ :: r => obj_after r m
  end.
Fixpoint raises (l : list eff) : bool :=
  match l with [] => false | ERaise :: _ => true | _ :: r => raises r end.

Section Trace.
Variable cf : cfg.
Variable o : opts.

Definition t_elab (m : nat) : list ev := if hooked (mattrs cf m) then [VElab m o] else [].
Definition t_unwrap (m : nat) : list ev := if hooked (mattrs cf m) then [VUnwrap m o] else [].
Definition t_post (m : nat) : nat := if hooked (mattrs cf m) then obj_after (elabt cf m) m else m.
Definition t_raises (m : nat) : bool := if hooked (mattrs cf m) then raises (elabt cf m) else false.
Definition t_verdict (m : nat) : ures := if hooked (mattrs cf m) then unwrapt cf m else UNone.

Fixpoint trace (n : nat) (m : nat) : list ev :=
  match n with
  | 0 => t_unwrap m
  | S n' =>
      t_elab m ++
      if t_raises m then [] else
      t_unwrap (t_post m) ++
      match t_verdict (t_post m) with
      | UTo t => if eqprune (mattrs cf t) then [] else trace n' t
      | _ => []
      end
  end.

(* managers visited (start-of-iteration objects), same recursion *)
Fixpoint visited (n : nat) (m : nat) : list nat :=
  match n with
  | 0 => []
  | S n' =>
      m :: if t_raises m then [] else
      match t_verdict (t_post m) with
      | UTo t => if eqprune (mattrs cf t) then [] else visited n' t
      | _ => []
      end
  end.

Definition syn_only : Prop := forall m, gcm (mattrs cf m) = false.

Lemma apply_effs_obj l : forall c,
  obj (fst (apply_effs l c)) = obj_after l (obj c) /\ snd (apply_effs l c) = raises l.
Proof.
  induction l as [|e l IH]; intros c; simpl; auto.
  destruct e; simpl; auto;
    match goal with |- context [apply_effs l ?c'] => destruct (IH c') as [A B]; rewrite A, B; auto end.
Qed.

Lemma elab1_syn (S : syn_only) c :
  snd (fst (elab1 cf o c)) = t_elab (obj c) /\ snd (elab1 cf o c) = t_raises (obj c)
  /\ obj (fst (fst (elab1 cf o c))) = t_post (obj c).
Proof.
  unfold elab1, elab_step, t_elab, t_raises, t_post. rewrite S.
  destruct (hooked _); simpl; auto.
  pose proof (apply_effs_obj (elabt cf (obj c)) c) as [A B].
  destruct (apply_effs _ _); simpl in *; auto.
Qed.

Lemma unwrap1_syn (S : syn_only) c :
  unwrap1 cf o c = (t_verdict (obj c), t_unwrap (obj c),
                    match t_verdict (obj c) with URaise => Some (WUnwrap (obj c)) | _ => None end).
Proof.
  unfold unwrap1, unwrap_step, t_verdict, t_unwrap. rewrite S.
  destruct (hooked _); reflexivity.
Qed.

Lemma trace_spec (S : syn_only) n : forall c, snd (loopF cf o n c) = trace n (obj c).
Proof.
  induction n as [|n IH]; intros c; simpl.
  - rewrite (unwrap1_syn S). reflexivity.
  - destruct (elab1_syn S c) as (A & B & C).
    destruct (elab1 cf o c) as [[c1 l1] rs]; simpl in *. subst l1 rs. rewrite <- C.
    destruct (t_raises (obj c)); [simpl; rewrite app_nil_r; reflexivity|].
    rewrite (unwrap1_syn S c1).
    destruct (t_verdict (obj c1)) eqn:V; simpl; try rewrite app_nil_r; auto.
    destruct (eqprune (mattrs cf m)); simpl; [rewrite app_nil_r; reflexivity|].
    specialize (IH (replace c1 m)). destruct (loopF cf o n (replace c1 m)); simpl in *.
    rewrite IH; reflexivity.
Qed.

(* plain tables: every manager hooked, elaborations neither overwrite obj nor raise; then the
   trace is literally  elab o0, unwrap o0, elab o1, unwrap o1, ...  along [visited] *)
Definition plain : Prop :=
  forall m, hooked (mattrs cf m) = true /\ obj_after (elabt cf m) m = m /\ raises (elabt cf m) = false.

(* elab o0, unwrap o0, elab o1, unwrap o1, ... ; the chain follows the unwrap table *)
Fixpoint ptrace (n : nat) (m : nat) : list ev :=
  match n with
  | 0 => [VUnwrap m o]
  | S n' =>
      VElab m o :: VUnwrap m o ::
      match unwrapt cf m with
      | UTo t => if eqprune (mattrs cf t) then [] else ptrace n' t
      | _ => []
      end
  end.

Lemma trace_plain (P : plain) n : forall m, trace n m = ptrace n m.
Proof.
  induction n as [|n IH]; intros m; destruct (P m) as (H & PO & R); simpl;
    unfold t_elab, t_raises, t_post, t_verdict, t_unwrap; rewrite ?H, ?R, ?PO, ?H; simpl; auto.
  destruct (unwrapt cf m) as [| |t|]; auto.
  destruct (eqprune (mattrs cf t)); auto. rewrite IH; reflexivity.
Qed.

End Trace.

(* ------------------------------------------------------------------ 3c. guard: error, not a hang *)

(* no more than 2*guard+1 user hook calls, whatever the tables (cycles included) *)
Lemma loopF_bound cf o n : forall c, length (snd (loopF cf o n c)) <= 2 * n + 1.
Proof.
  induction n as [|n IH]; intros c; simpl.
  - pose proof (unwrap1_len cf o c) as L. destruct (unwrap1 cf o c) as [[r l2] w]; simpl in *. lia.
  - pose proof (elab1_len cf o c) as L1. destruct (elab1 cf o c) as [[c1 l1] rs]; simpl in *.
    destruct rs; simpl; [lia|].
    pose proof (unwrap1_len cf o c1) as L2. destruct (unwrap1 cf o c1) as [[r l2] w]; simpl in *.
    destruct w; simpl; [rewrite app_length; lia|].
    destruct r as [| |t|]; simpl; try (rewrite app_length; lia).
    destruct (eqprune (mattrs cf t)); simpl; [rewrite app_length; lia|].
    specialize (IH (replace c1 t)). destruct (loopF cf o n (replace c1 t)); simpl in *.
    rewrite !app_length. lia.
Qed.

Lemma fill_bound cf o c : length (snd (fst (fill cf o c))) <= 2 * guard cf + 1.
Proof. rewrite fill_loopF; simpl. apply loopF_bound. Qed.

(* the RuntimeError is raised exactly when [guard] unwrap steps succeeded *)
Lemma loop_error_iff cf o c x l :
  fst (fill cf o c) = (x, l) ->
  ((exists ck r, x = RaisedLoop ck r) <->
   (exists ck log r l2, Iter cf (opts_in o) c (guard cf) ck log /\ unwrap1 cf (opts_in o) ck = (r, l2, None))).
Proof.
  intros F. apply fill_ref in F. split.
  - intros (ck & r & ->). inversion F; subst. do 4 eexists; split; eassumption.
  - intros (ck & log & r & l2 & HI & EU).
    pose proof (RefLoop _ _ _ _ _ _ _ HI EU) as R.
    destruct (Ref_fun _ _ _ _ _ _ _ F R); subst. eauto.
Qed.

(* a table in which every manager unwraps to some manager (self-cycle, 2-cycle, any period,
   or an endless supply of managers) and no hook raises always ends in the RuntimeError *)
Definition endless (cf : cfg) : Prop :=
  forall m, gcm (mattrs cf m) = false /\ hooked (mattrs cf m) = true /\ eqprune (mattrs cf m) = false
            /\ raises (elabt cf m) = false /\ obj_after (elabt cf m) m = m
            /\ exists t, unwrapt cf m = UTo t.

Lemma endless_raises cf o (E : endless cf) n : forall c, exists ck r, fst (loopF cf o n c) = RaisedLoop ck r.
Proof.
  assert (S : syn_only cf) by (intros m; apply E).
  induction n as [|n IH]; intros c; simpl.
  - rewrite (unwrap1_syn cf o S). unfold t_verdict.
    destruct (E (obj c)) as (_ & H & _ & _ & _ & t & U). rewrite H, U. simpl. eauto.
  - destruct (elab1_syn cf o S c) as (A & B & C).
    destruct (elab1 cf o c) as [[c1 l1] rs]; simpl in *. subst rs.
    destruct (E (obj c)) as (_ & H & _ & R & PO & t & U).
    unfold t_raises, t_post in *. rewrite H in *. rewrite R. rewrite PO in C.
    rewrite (unwrap1_syn cf o S c1). unfold t_verdict. rewrite C, H, U. simpl.
    destruct (E t) as (_ & _ & EP & _). rewrite EP.
    destruct (IH (replace c1 t)) as (ck & r & X).
    destruct (loopF cf o n (replace c1 t)); simpl in *. eauto.
Qed.

Lemma endless_fill cf o c (E : endless cf) : exists ck r, fst (fst (fill cf o c)) = RaisedLoop ck r.
Proof. rewrite fill_loopF; simpl. apply endless_raises; auto. Qed.

(* ------------------------------------------------------------------ 3d. outside = inside *)

(* fill_context called with no options in force behaves exactly like a call made inside
   extract(with_contexts=True, recurse_child_tasks=False): same outcome, same Context, same
   hook calls seeing the same options; and (push restores in `finally`) the options are
   unset again afterwards, also when a hook raised or the guard fired *)
Lemma outside_inside cf c :
  restores cf = true ->
  fst (fill cf None c) = fst (fill cf (Some (true, false)) c)
  /\ snd (fill cf None c) = None
  /\ snd (fill cf (Some (true, false)) c) = Some (true, false).
Proof. intros R. rewrite !fill_loopF; simpl. rewrite R. auto. Qed.

Lemma options_kept cf o c : restores cf = true -> snd (fill cf o c) = o.
Proof. intros R. rewrite fill_loopF; simpl. destruct o; auto. rewrite R; auto. Qed.

(* every hook call sees the options in force, (True, False) if none were *)
Definition ev_opts (e : ev) : opts :=
  match e with VElab _ x | VUnwrap _ x | VGen _ _ _ _ x => x end.

Lemma elab1_opts cf o c : Forall (fun e => ev_opts e = o) (snd (fst (elab1 cf o c))).
Proof.
  unfold elab1, elab_step. destruct (gcm _); simpl; auto.
  destruct (hooked _); simpl; auto. destruct (apply_effs _ _); simpl; auto.
Qed.

Lemma unwrap1_opts cf o c : Forall (fun e => ev_opts e = o) (snd (fst (unwrap1 cf o c))).
Proof.
  assert (G : forall f cx, Forall (fun e => ev_opts e = o) (snd (fst (gen_hook cf o c f cx [])))).
  { intros f cx. unfold gen_hook. destruct (greg _ _); simpl; auto. }
  unfold unwrap1, unwrap_step. destruct (gcm _).
  - unfold gcm_unwrap. destruct (greg _ _); simpl; auto.
    destruct (inner c) as [[|[f cx] fr]|]; simpl; auto. destruct (gframes _); simpl; auto.
  - destruct (hooked _); simpl; auto.
Qed.

Lemma loopF_opts cf o n : forall c, Forall (fun e => ev_opts e = o) (snd (loopF cf o n c)).
Proof.
  induction n as [|n IH]; intros c; simpl.
  - pose proof (unwrap1_opts cf o c). destruct (unwrap1 cf o c) as [[r l2] w]; auto.
  - pose proof (elab1_opts cf o c) as L1. destruct (elab1 cf o c) as [[c1 l1] rs]; simpl in *.
    destruct rs; simpl; auto.
    pose proof (unwrap1_opts cf o c1) as L2. destruct (unwrap1 cf o c1) as [[r l2] w]; simpl in *.
    assert (L12 : Forall (fun e => ev_opts e = o) (l1 ++ l2)) by (apply Forall_app; auto).
    destruct w; simpl; auto. destruct r as [| |t|]; simpl; auto.
    destruct (eqprune (mattrs cf t)); simpl; auto.
    specialize (IH (replace c1 t)). destruct (loopF cf o n (replace c1 t)); simpl in *.
    apply Forall_app; split; auto. apply Forall_app; auto.
Qed.

Lemma fill_opts cf o c : Forall (fun e => ev_opts e = opts_in o) (snd (fst (fill cf o c))).
Proof. rewrite fill_loopF; simpl. apply loopF_opts. Qed.

(* ------------------------------------------------------------------ 3e. generator-based managers *)

(* The two lookup paths agree.  When the loop elaborates a generator-based manager m whose
   code is registered, starting from a reset (or fresh) Context, under with_contexts=True, the
   registered hook is called with the generator's outermost frame AND with the same contexts
   recorded on it -- whether the context is exiting (inner_stack stays None, the Frame comes
   from extract_outermost, which always analyses contexts) or not (the Frame is
   inner_stack.frames[0], extracted under the options in force); so the verdict, also of a hook
   that answers from frame.contexts, does not depend on the path.  A finished generator (no
   frames) gives None on both paths; an unregistered code gives None. *)
Lemma gcm_paths cf o c :
  gcm (mattrs cf (obj c)) = true -> inner c = None -> wc_of o = true ->
  let m := obj c in
  let c1 := fst (fst (elab1 cf o c)) in
  snd (elab1 cf o c) = false /\ snd (fst (elab1 cf o c)) = [] /\ obj c1 = m
  /\ inner c1 = (if exiting c then None
                 else Some (map (fun f => (f, fctx cf f)) (gframes (mattrs cf m))))
  /\ children c1 = children c
  /\ fst (fst (unwrap1 cf o c1)) =
     match greg cf (code (mattrs cf m)), gframes (mattrs cf m) with
     | Some _, f :: _ =>
         match greg cf (fcode cf f) with
         | Some r => gverdict cf (fcode cf f) (fctx cf f) r
         | None => UNone
         end
     | _, _ => UNone
     end
  /\ Forall (fun e => match e with VGen _ f _ cx _ => cx = fctx cf f | _ => True end)
            (snd (fst (unwrap1 cf o c1))).
Proof.
  intros G IN W. unfold elab1, elab_step, unwrap1, unwrap_step. rewrite G. simpl.
  unfold gcm_elab. rewrite W. destruct (exiting c) eqn:X; simpl; rewrite ?G; repeat split; auto.
  all: unfold gcm_unwrap; simpl; rewrite ?IN; destruct (greg cf (code (mattrs cf (obj c)))); auto;
    destruct (gframes (mattrs cf (obj c))) as [|f fr]; simpl; auto;
    unfold gen_hook; simpl; destruct (greg cf (fcode cf f)); simpl; auto.
Qed.

(* with with_contexts=False in force the non-exiting path hands the hook a Frame without
   contexts while the exiting path still analyses them: a hook answering from frame.contexts
   then gives different verdicts (witness below, [ex_with]) *)

(* ------------------------------------------------------------------ 3f. the ==() observation *)

(* `inner_mgr == PRUNE` is an equality test: a manager object that compares equal to the
   empty tuple is taken for PRUNE instead of replacing the outer manager. *)
Definition eq_cfg : cfg :=
  mkcfg [(0, syn_attr true false); (1, syn_attr true true)] [] [(0, UTo 1)] [] [] [] [] 100 true.
Definition fresh (m : nat) : ctx := mkctx m None [] false None false.

Lemma eqprune_refuted :
  exists cf c m c', unwrapt cf (obj c) = UTo m /\ fst (fst (fill cf None c)) = Done c'
                    /\ obj c' <> m /\ hidden c' = true.
Proof. exists eq_cfg, (fresh 0), 1, (set_hidden (fresh 0)). vm_compute. repeat split; auto; discriminate. Qed.

(* without such managers: hidden iff the chain ended in PRUNE *)
Definition no_eqprune (cf : cfg) : Prop := forall m, eqprune (mattrs cf m) = false.

Lemma hidden_iff_prune cf o c0 c' log o' :
  no_eqprune cf -> fill cf o c0 = (Done c', log, o') ->
  exists c1 r l2, unwrap1 cf (opts_in o) c1 = (r, l2, None) /\ (r = UNone \/ r = UPrune)
    /\ hidden c' = (hidden c0 || match r with UPrune => true | _ => false end).
Proof.
  intros NE F. destruct (result_spec _ _ _ _ _ _ F) as (k & st & lk & c1 & l1 & r & l2 & _ & _ & _ & _ & _ & EU & _ & D & HK).
  exists c1, r, l2. split; auto.
  destruct D as [(-> & ->)|(PR & ->)].
  - split; auto. rewrite HK. destruct (hidden c0); reflexivity.
  - destruct r as [| |t|]; simpl in PR; try discriminate.
    + split; auto. simpl. destruct (hidden c0); reflexivity.
    + rewrite NE in PR; discriminate.
Qed.

(* ------------------------------------------------------------------ 4. statements used by C11.v *)
From SS.gen Require Import SrcFacts.

Lemma fill_trace cf o c :
  syn_only cf -> snd (fst (fill cf o c)) = trace cf (opts_in o) (guard cf) (obj c).
Proof. intros S. rewrite fill_loopF; simpl. apply trace_spec; auto. Qed.

Lemma fill_trace_plain cf o c :
  syn_only cf -> plain cf -> snd (fst (fill cf o c)) = ptrace cf (opts_in o) (guard cf) (obj c).
Proof. intros S P. rewrite fill_trace; auto. apply trace_plain; auto. Qed.

Lemma fill_bound_src cf o c :
  guard cf = SrcFacts.context_guard -> length (snd (fst (fill cf o c))) <= 201.
Proof. intros G. pose proof (fill_bound cf o c) as B. rewrite G in B. exact B. Qed.

Lemma outside_inside_src cf c :
  restores cf = SrcFacts.push_restores_in_finally ->
  fst (fill cf None c) = fst (fill cf (Some (true, false)) c)
  /\ snd (fill cf None c) = None
  /\ snd (fill cf (Some (true, false)) c) = Some (true, false).
Proof. intros R. apply outside_inside. rewrite R. reflexivity. Qed.

(* ------------------------------------------------------------------ 5. examples: the hypotheses are met *)

(* plain, synthetic-only table: 0 -> 1 -> 2 -> 3 -> None, each elaboration appends to the
   description and to children *)
Definition ex_chain : cfg :=
  {| mattrs := fun _ => syn_attr true false;
     elabt := fun m => [EAppDescr m; EAppChild m];
     unwrapt := fun m => if m <? 3 then UTo (S m) else UNone;
     fcode := fun _ => 4999; fctx := fun _ => []; greg := fun _ => None; gctx0 := fun _ => false;
     guard := SrcFacts.context_guard; restores := SrcFacts.push_restores_in_finally |}.

Example ex_chain_syn : syn_only ex_chain.
Proof. intros m; reflexivity. Qed.
Example ex_chain_plain : plain ex_chain.
Proof. intros m; repeat split. Qed.
Example ex_chain_no_eqprune : no_eqprune ex_chain.
Proof. intros m; reflexivity. Qed.

(* re-elaboration after each step; children are those of the LAST elaboration only (reset),
   description is not reset and accumulates *)
Example ex_chain_run :
  fill ex_chain None (fresh 0) =
  (Done (mkctx 3 None [3] false (Some [ATag 0; ATag 1; ATag 2; ATag 3]) false),
   [VElab 0 (Some (true, false)); VUnwrap 0 (Some (true, false));
    VElab 1 (Some (true, false)); VUnwrap 1 (Some (true, false));
    VElab 2 (Some (true, false)); VUnwrap 2 (Some (true, false));
    VElab 3 (Some (true, false)); VUnwrap 3 (Some (true, false))],
   None).
Proof. vm_compute. reflexivity. Qed.

(* elaborate overwrites obj, then PRUNE: synthetic-only but not plain *)
Definition ex_setobj : cfg :=
  mkcfg [(0, syn_attr true false); (1, syn_attr true false); (2, syn_attr true false)]
        [(0, [ESetChildren [7]; ESetObj 2]); (1, [EAppChild 5])]
        [(0, URaise); (2, UTo 1); (1, UPrune)] [] [] [] []
        SrcFacts.context_guard SrcFacts.push_restores_in_finally.

Example ex_setobj_syn : syn_only ex_setobj.
Proof. intros m. do 3 (destruct m as [|m]; [reflexivity|]). reflexivity. Qed.

Example ex_setobj_run :
  fst (fill ex_setobj (Some (false, true)) (fresh 0)) =
  (Done (mkctx 1 None [5] true None false),
   [VElab 0 (Some (false, true)); VUnwrap 2 (Some (false, true));
    VElab 1 (Some (false, true)); VUnwrap 1 (Some (false, true))]).
Proof. vm_compute. reflexivity. Qed.

(* self-cycle and 2-cycle *)
Definition ex_cycle (period : nat) : cfg :=
  {| mattrs := fun _ => syn_attr true false;
     elabt := fun m => [ESetDescr m];
     unwrapt := fun m => UTo (if S m <? period then S m else 0);
     fcode := fun _ => 4999; fctx := fun _ => []; greg := fun _ => None; gctx0 := fun _ => false;
     guard := SrcFacts.context_guard; restores := SrcFacts.push_restores_in_finally |}.

Example ex_cycle_endless p : endless (ex_cycle p).
Proof. intros m; repeat split. eexists; reflexivity. Qed.

Example ex_self_cycle_run :
  let '(x, log, o') := fill (ex_cycle 1) None (fresh 0) in
  x = RaisedLoop (mkctx 0 None [] false (Some [ATag 0]) false) (UTo 0) /\ length log = 201 /\ o' = None.
Proof. vm_compute. auto. Qed.

Example ex_two_cycle_run :
  let '(x, log, o') := fill (ex_cycle 2) (Some (true, true)) (fresh 1) in
  x = RaisedLoop (mkctx 1 None [] false (Some [ATag 0]) false) (UTo 0) /\ length log = 201
  /\ o' = Some (true, true).
Proof. vm_compute. auto. Qed.

(* generator-based managers: 0 is entered (frames 0 and 500, `yield from`), registered,
   hook returns manager 1 (synthetic sink); both lookup paths *)
Definition ex_gcm : cfg :=
  mkcfg [(0, gcm_attr 7 [0; 500] false); (1, syn_attr true false)]
        [(1, [EAppDescr 1])] [(1, UNone)] [(0, 7)] [] [(7, UTo 1)] []
        SrcFacts.context_guard SrcFacts.push_restores_in_finally.

Example ex_gcm_hyp : gcm (mattrs ex_gcm (obj (fresh 0))) = true /\ inner (fresh 0) = None.
Proof. split; reflexivity. Qed.

Example ex_gcm_not_exiting :
  fst (fill ex_gcm None (fresh 0)) =
  (Done (mkctx 1 None [] false (Some [AGcmEnt 7; ATag 1]) false),
   [VGen 7 0 false [] (Some (true, false)); VElab 1 (Some (true, false)); VUnwrap 1 (Some (true, false))]).
Proof. vm_compute. reflexivity. Qed.

Example ex_gcm_exiting :
  fst (fill ex_gcm None (mkctx 0 None [] false None true)) =
  (Done (mkctx 1 None [] false (Some [AGcmEnt 7; ATag 1]) true),
   [VGen 7 0 true [] (Some (true, false)); VElab 1 (Some (true, false)); VUnwrap 1 (Some (true, false))]).
Proof. vm_compute. reflexivity. Qed.

(* a generator-based wrapper whose body is `with resource: yield` (resource = inert manager 5)
   and whose hook returns frame.contexts[0].obj, falling back to None: replaced by the
   resource on both paths when contexts are analysed ... *)
Definition ex_with : cfg :=
  mkcfg [(0, gcm_attr 7 [0] false); (5, syn_attr false false)] [] [] [(0, 7)] [(0, [5])] [(7, UNone)] [7]
        SrcFacts.context_guard SrcFacts.push_restores_in_finally.

Example ex_with_hyp : gcm (mattrs ex_with (obj (fresh 0))) = true /\ inner (fresh 0) = None
                      /\ wc_of (opts_in None) = true.
Proof. repeat split. Qed.

Example ex_with_not_exiting :
  fst (fill ex_with None (fresh 0)) =
  (Done (mkctx 5 None [] false (Some [AGcmEnt 7]) false), [VGen 7 0 false [5] (Some (true, false))]).
Proof. vm_compute. reflexivity. Qed.

Example ex_with_exiting :
  fst (fill ex_with None (mkctx 0 None [] false None true)) =
  (Done (mkctx 5 None [] false (Some [AGcmEnt 7]) true), [VGen 7 0 true [5] (Some (true, false))]).
Proof. vm_compute. reflexivity. Qed.

(* ... but not inside extract(with_contexts=False): there only the exiting path sees them *)
Lemma paths_differ_without_contexts :
  exists cf c, gcm (mattrs cf (obj c)) = true /\ inner c = None /\
    fst (fst (fill cf (Some (false, false)) c))
    <> match fst (fst (fill cf (Some (false, false)) (mkctx (obj c) None [] false None true))) with
       | Done c' => Done (mkctx (obj c') (inner c') (children c') (hidden c') (descr c') false)
       | x => x
       end
    /\ (forall c', fst (fst (fill cf (Some (false, false)) c)) = Done c' -> obj c' = obj c).
Proof.
  exists ex_with, (fresh 0). repeat split; try reflexivity.
  - vm_compute. discriminate.
  - vm_compute. intros c' E. inversion E. reflexivity.
Qed.

(* ------------------------------------------------------------------ 6. several contexts in one frame *)

(* The per-context try/except of extract_iter makes every context of a frame come out
   exactly as fill_context gives it in isolation, whatever happened to the earlier ones:
   the sequential loop with its accumulators equals the three independent projections. *)
Definition iso_ctx (cf : cfg) (o : opts) (c : ctx) : ctx := final_ctx (fst (fst (fill cf o c))).
Definition iso_err (cf : cfg) (o : opts) (c : ctx) : option ferr := err_of (fst (fst (fill cf o c))).
Definition iso_log (cf : cfg) (o : opts) (c : ctx) : list ev := snd (fst (fill cf o c)).

Lemma frame_loop_spec cf o cs : forall dr er log,
  frame_loop cf o cs dr er log =
  (rev dr ++ map (iso_ctx cf o) cs, rev er ++ somes (map (iso_err cf o) cs),
   log ++ concat (map (iso_log cf o) cs)).
Proof.
  induction cs as [|c r IH]; intros dr er log; simpl.
  - rewrite !app_nil_r. reflexivity.
  - unfold iso_ctx, iso_err, iso_log.
    destruct (fill cf o c) as [[x l] o'] eqn:F; simpl.
    rewrite IH. simpl. unfold iso_ctx, iso_err, iso_log.
    destruct (err_of x); simpl; rewrite <- !app_assoc; reflexivity.
Qed.

Lemma frame_isolated cf rc cs :
  frame_fill cf rc cs =
  (map (iso_ctx cf (Some (true, rc))) cs, somes (map (iso_err cf (Some (true, rc))) cs),
   concat (map (iso_log cf (Some (true, rc))) cs)).
Proof. unfold frame_fill. rewrite frame_loop_spec. reflexivity. Qed.

(* in particular the i-th context of the result is the isolated fill of the i-th context *)
Lemma frame_nth cf rc cs i c :
  nth_error cs i = Some c ->
  nth_error (fst (fst (frame_fill cf rc cs))) i = Some (iso_ctx cf (Some (true, rc)) c).
Proof. intros H. rewrite frame_isolated; simpl. apply map_nth_error; auto. Qed.

(* a failing first context (cycle) does not keep the second from being unwrapped and hidden *)
Definition ex_frame : cfg :=
  mkcfg [(0, syn_attr true false); (1, syn_attr true false); (2, syn_attr true false)]
        [(1, [ESetDescr 1]); (2, [EAppDescr 2])] [(0, UTo 0); (1, UTo 2); (2, UPrune)] [] [] [] []
        SrcFacts.context_guard SrcFacts.push_restores_in_finally.

Example ex_frame_run :
  let '(cs, errs, log) := frame_fill ex_frame false [fresh 0; fresh 1] in
  cs = [fresh 0; mkctx 2 None [] true (Some [ATag 1; ATag 2]) false]
  /\ errs = [FLoop 0 (UTo 0)] /\ length log = 205.
Proof. vm_compute. auto. Qed.

(* ------------------------------------------------------------------ 7. histories *)

(* the verdict on a step does not depend on the steps before it: the model has no state
   besides the tables each step carries *)
Lemma history_stateless a b : hcase_ok (a ++ b) = hcase_ok a && hcase_ok b.
Proof. unfold hcase_ok. apply forallb_app. Qed.

(* hooks registered after a manager was first filled take effect at the next fill *)
Definition ex_before : cfg :=
  mkcfg [(0, syn_attr false false); (1, syn_attr true false)] [(0, [ESetDescr 7])] [(0, UTo 1); (1, UPrune)]
        [] [] [] [] SrcFacts.context_guard SrcFacts.push_restores_in_finally.
Definition ex_after : cfg :=
  mkcfg [(0, syn_attr true false); (1, syn_attr true false)] [(0, [ESetDescr 7])] [(0, UTo 1); (1, UPrune)]
        [] [] [] [] SrcFacts.context_guard SrcFacts.push_restores_in_finally.

Example ex_late_registration :
  fst (fst (fill ex_before None (fresh 0))) = Done (fresh 0)
  /\ fst (fst (fill ex_after None (fresh 0))) = Done (mkctx 1 None [] true (Some [ATag 7]) false).
Proof. vm_compute. auto. Qed.
