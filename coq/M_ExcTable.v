(* M_ExcTable.v — model of stackscope._lowlevel._parse_varint / _parse_exception_table
   (CPython 3.11+ co_exceptiontable) and of CPython's encoder
   (Python/assemble.c: assemble_emit_exception_table_item / _entry).  Definitions only.

   Bytes are N in [0,256).  The Python code uses `b & 63`, `b & 64`, `val <<= 6`, `val |= x`;
   they are written here arithmetically (mod 64, (b / 64) mod 2, * 64, +): `val << 6` has its six
   low bits clear, so or-ing a value below 64 adds it.  The correspondence evaluates [parse_table]
   on the real co_exceptiontable bytes of every corpus code object and compares with what
   stackscope's parser returned. *)
From Coq Require Import NArith.
Require Import Base M_Bytecode.
Open Scope N_scope.

(* after the first byte: keep reading while the continuation bit (64) is set *)
Fixpoint pv_go (acc : N) (l : list N) : option (N * list N) :=
  match l with
  | [] => None                                   (* StopIteration *)
  | b :: r => let acc' := acc * 64 + b mod 64 in
              if (b / 64) mod 2 =? 1 then pv_go acc' r else Some (acc', r)
  end.
Definition parse_varint (l : list N) : option (N * list N) := pv_go 0 l.

Definition mk_hent (start size target dl : N) : hent :=
  {| h_start := N.to_nat start;
     h_end := N.to_nat (start + size) - 1;        (* inclusive; in code units *)
     h_target := N.to_nat target;
     h_depth := N.to_nat (dl / 2);
     h_lasti := (dl mod 2 =? 1) |}.

(* one entry = four varints; running out of bytes anywhere ends the table (the generator's
   `except StopIteration: return`) *)
Fixpoint parse_table (fuel : nat) (l : list N) : list hent :=
  match fuel with
  | O => []
  | S f =>
      match parse_varint l with
      | None => []
      | Some (start, l1) =>
        match parse_varint l1 with
        | None => []
        | Some (size, l2) =>
          match parse_varint l2 with
          | None => []
          | Some (target, l3) =>
            match parse_varint l3 with
            | None => []
            | Some (dl, l4) => mk_hent start size target dl :: parse_table f l4
            end
          end
        end
      end
  end.
Definition parse_exception_table (l : list N) : list hent := parse_table (S (length l)) l.

(* ---- CPython's writer ---- *)
(* assemble_emit_exception_table_item(value, msb): big-endian base-64 digits, continuation bit
   on all but the last, [msb] (128, start-of-entry marker) on the first byte written *)
Definition enc_varint (v msb : N) : list N :=
  let d4 := v / 16777216 in let d3 := (v / 262144) mod 64 in
  let d2 := (v / 4096) mod 64 in let d1 := (v / 64) mod 64 in let d0 := v mod 64 in
  if 16777216 <=? v then [d4 + 64 + msb; d3 + 64; d2 + 64; d1 + 64; d0]
  else if 262144 <=? v then [d3 + 64 + msb; d2 + 64; d1 + 64; d0]
  else if 4096 <=? v then [d2 + 64 + msb; d1 + 64; d0]
  else if 64 <=? v then [d1 + 64 + msb; d0]
  else [d0 + msb].

(* an entry as the compiler has it: start, size, target (code units), depth, lasti *)
Record raw_ent := { e_start : N; e_size : N; e_target : N; e_depth : N; e_lasti : bool }.
Definition enc_entry (e : raw_ent) : list N :=
  enc_varint (e_start e) 128 ++ enc_varint (e_size e) 0 ++ enc_varint (e_target e) 0
  ++ enc_varint (e_depth e * 2 + (if e_lasti e then 1 else 0)) 0.
Definition enc_table (es : list raw_ent) : list N := flat_map enc_entry es.

Definition ent_of_raw (e : raw_ent) : hent :=
  {| h_start := N.to_nat (e_start e); h_end := N.to_nat (e_start e + e_size e) - 1;
     h_target := N.to_nat (e_target e); h_depth := N.to_nat (e_depth e); h_lasti := e_lasti e |}.

Definition ok_ent (e : raw_ent) : Prop :=
  e_start e < 1073741824 /\ e_size e < 1073741824 /\ e_target e < 1073741824 /\ e_depth e < 536870912.

(* ---- comparison used by generated cases ---- *)
Definition hent_eqb (a b : hent) : bool :=
  (h_start a =? h_start b)%nat && (h_end a =? h_end b)%nat && (h_target a =? h_target b)%nat
  && (h_depth a =? h_depth b)%nat && Bool.eqb (h_lasti a) (h_lasti b).
Definition table_case := (list N * table)%type.      (* raw bytes, what stackscope's parser returned *)
Definition table_ok (x : table_case) : bool := list_eqb hent_eqb (parse_exception_table (fst x)) (snd x).
Definition table_mismatches (cases : list table_case) : list nat := false_indices 0 (map table_ok cases).
Definition table_nontrivial (cases : list table_case) : nat :=
  count_true (map (fun x : table_case => (2 <=? length (snd x))%nat) cases).
