(* P_GreenbackFrames.v -- composition of the greenback model with the general extract_iter model.

   M_Frames (C10) describes a hook as a static table frame -> result; the greenback hooks decide
   by looking at next_inner.  For a given scenario the next frame of every hook frame inside the
   list it was unwrapped into is known, so the decisions of M_Greenback.elab can be tabulated
   ([gb_cfg]): objects unwrap to the recorded frame lists, every frame's elaborate_frame entry is
   the M_Greenback decision for (frame, next frame in its list), its hide flag is M_Greenback.hidden.
   Running the GENERAL machine M_Frames.extract (two deques, depths, replace/prune rules, guard)
   on that table gives exactly the frames and hide flags of the specialised walk
   M_Greenback.gb_extract.  This is proved by evaluation for every scenario up to the stated bound
   (a for-all-n proof would need an invariant of M_Frames.run over its fuelled double loop; the
   for-all-n statements C15_greenback_n_* are about gb_extract). *)
Require Import Base M_Frames M_Greenback.

Definition fcode (k : fk) : nat :=
  match k with
  | FShimCoro => 0 | FShim => 1 | FTramp => 2 | FSend => 3 | FTarget => 4 | FLeaf => 5
  | FNested => 6 | FProbe => 7 | FWait => 8 | FWTR => 9 | FSwitch => 10 | FSendE => 11 | FAdapt => 12 | FDunder => 13
  | FA k => 20 + 3 * k | FS k => 21 + 3 * k | FAwait k => 22 + 3 * k
  end.

Definition ocode (o : obj) : nat :=
  match o with OTask => 0 | OChild => 1 | OOrigCoro => 2 | OCoro k => 3 + k end.

Definition to_eres (r : hres) : eres :=
  match r with
  | HNone => ENone
  | HObj x => EOne (RItem (IObj (ocode x)))
  | HRaise => ERaise
  end.

Fixpoint entries (sc : scenario) (l : list fk) : list (nat * (eres * bool)) :=
  match l with
  | [] => []
  | k :: rest =>
      (fcode k, (to_eres (M_Greenback.elab sc k (hd_error rest)), M_Greenback.hidden k)) :: entries sc rest
  end.

Definition gb_objs : list obj := [OTask; OChild; OOrigCoro; OCoro 0].

Definition gb_cfg (sc : scenario) : cfg :=
  mkcfg
    (map (fun o => (ocode o, USeq (map (fun k => Some (IPy (fcode k))) (M_Greenback.unwrap sc o)))) gb_objs)
    (concat (map (fun o => entries sc (M_Greenback.unwrap sc o)) gb_objs))
    [] [] [] [] false all_guards 100.

Definition proj (f : fout) : nat * bool := match f with FOut n h _ _ => (n, h) end.

Definition nb_eqb (a b : nat * bool) : bool := (fst a =? fst b) && Bool.eqb (snd a) (snd b).

Definition compose_ok (sc : scenario) : bool :=
  match M_Frames.extract (gb_cfg sc) (IObj (ocode OTask)), gb_extract sc with
  | Ok (Stack fr LNone []), GOk l =>
      list_eqb nb_eqb (map proj fr) (map (fun e : fk * bool => (fcode (fst e), snd e)) l)
  | _, _ => false
  end.

Definition errs (nmax : nat) : list (option nat) := None :: map Some (seq 0 (S nmax)).

Definition scenarios (nmax jmax : nat) : list scenario :=
  map (fun p : ((bool * bool) * bool) * ((nat * nat) * option nat) =>
         Build_scenario (fst (fst (fst p))) (fst (fst (snd p))) (snd (fst (snd p))) (snd (snd p))
                        (snd (fst (fst p))) (snd (fst p)))
      (list_prod (list_prod (list_prod [true; false] [true; false]) [true; false])
                 (list_prod (list_prod (seq 0 (S nmax)) (seq 0 (S jmax))) (errs nmax))).

Lemma compose_sweep : forallb compose_ok (scenarios 6 3) = true.
Proof. vm_compute. reflexivity. Qed.

Lemma greenback_composes inside aio awt n j err :
  n <= 6 -> j <= 3 -> (forall m, err = Some m -> m <= 6) ->
  compose_ok {| sc_inside := inside; sc_n := n; sc_j := j; sc_err := err; sc_aio := aio; sc_awt := awt |} = true.
Proof.
  intros Hn Hj He. pose proof compose_sweep as H. rewrite forallb_forall in H. apply H.
  unfold scenarios. apply in_map_iff. exists (((inside, aio), awt), ((n, j), err)). split; [reflexivity|].
  apply in_prod.
  - apply in_prod; [apply in_prod|]; [destruct inside|destruct aio|destruct awt]; simpl; auto.
  - apply in_prod; [apply in_prod; apply in_seq; lia|].
    unfold errs. destruct err as [m|]; [right|left; reflexivity].
    apply in_map. apply in_seq. pose proof (He m eq_refl). lia.
Qed.
