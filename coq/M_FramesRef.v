(* M_FramesRef.v — REFERENCE INTERPRETATION of the documented rules of
   unwrap_stackitem / elaborate_frame (property C10), written from the documentation of the two
   hooks, independently of the two-deque algorithm of extract_iter:

     * no deques, no fuel, no reversed accumulators, no ticks, no origins, no contexts;
     * a big-step relation over the depth-annotated sequence of stack items, one rule per
       documented case.

   [Unw]      unwrap a sequence until only frames and irreducible items remain
              (None / item / sequence / iterator / raising hook / 100-step progress guard);
   [RefFlat]  walk an unwrapped sequence outermost-first: leaf rule; elaborate_frame result
              None keeps the rest, PRUNE / a sequence not ending in next_inner replaces the
              inward rest (the maximal following run with depth >= the frame's depth), a
              sequence ending in next_inner inserts its other items before the rest (next_inner
              itself is brought out to the frame's depth if it was nested more deeply);
   [Ref]      Unw then RefFlat.

   Definitions only (plus the executable, fuelled [ref_run] used as second oracle in the
   generated cases files); the proofs are in P_Frames_Ref.v. *)
Require Import Base M_Frames.

(* what a user of the public API can tell apart: a frame (raw or wrapped), an object, None *)
Inductive sitem := SFrame (f : nat) | SObj (o : nat) | SNone.
Definition sent := (sitem * nat)%type.                 (* (item, depth) *)

Definition s_of (i : item) : sitem := match i with IPy f => SFrame f | IObj o => SObj o end.
Definition is_frame (s : sitem) : bool := match s with SFrame _ => true | _ => false end.
Definition at_depth (d : nat) (l : list sitem) : list sent := map (fun s => (s, d)) l.

(* the unwrap_stackitem hook applied to a non-frame item (None has no registered rule) *)
Definition hook (c : cfg) (s : sitem) : ures := match s with SObj o => unwrap c o | _ => UNone end.
Definition sq (s : sitem) : qitem :=
  match s with SFrame f => QPy f | SObj o => QObj o | SNone => QNone end.
Definition sid (s : sitem) : nat := match s with SObj o => o | _ => 0 end.

(* [Unw c n seq out es]: with n hook calls made since the last frame/irreducible was reached,
   the sequence [seq] unwraps to [out] (frames and irreducibles, in order), recording [es]. *)
Inductive Unw (c : cfg) : nat -> list sent -> list sent -> list err -> Prop :=
| U_done n : Unw c n [] [] []
| U_frame n f d rest out es :
    Unw c 0 rest out es ->
    Unw c n ((SFrame f, d) :: rest) ((SFrame f, d) :: out) es
| U_raise n o d rest out es :                         (* the hook raises: irreducible + error *)
    unwrap c o = URaise -> Unw c 0 rest out es ->
    Unw c n ((SObj o, d) :: rest) ((SObj o, d) :: out) (EUnwrap o :: es)
| U_guard n s d rest out es :                         (* no progress for [uguard] calls *)
    is_frame s = false -> hook c s <> URaise -> uguard c <= n -> Unw c 0 rest out es ->
    Unw c n ((s, d) :: rest) ((s, d) :: out) (ELoop (sq s) :: es)
| U_irreducible n s d rest out es :                   (* the hook returns None *)
    is_frame s = false -> hook c s = UNone -> n < uguard c -> Unw c 0 rest out es ->
    Unw c n ((s, d) :: rest) ((s, d) :: out) es
| U_item n o i d rest out es :                        (* a single item, one level deeper *)
    unwrap c o = UOne i -> n < uguard c ->
    Unw c (S n) ((s_of i, S d) :: rest) out es ->
    Unw c n ((SObj o, d) :: rest) out es
| U_seq n o l d rest out es :                         (* a sequence; None elements are skipped *)
    unwrap c o = USeq l -> n < uguard c ->
    Unw c (S n) (at_depth (S d) (map s_of (somes l)) ++ rest) out es ->
    Unw c n ((SObj o, d) :: rest) out es
| U_iter n o l b d rest out es :                      (* a yields_frames iterator: the items
                                                         obtained before it stops or raises *)
    unwrap c o = UIter l b -> n < uguard c ->
    Unw c (S n) (at_depth (S d) (map s_of l) ++ rest) out es ->
    Unw c n ((SObj o, d) :: rest) out ((if b then [EIter o] else []) ++ es).

(* ---- elaborate_frame ---- *)
Fixpoint drop_while {A} (p : A -> bool) (l : list A) : list A :=
  match l with x :: r => if p x then drop_while p r else l | [] => [] end.
Fixpoint take_while {A} (p : A -> bool) (l : list A) : list A :=
  match l with x :: r => if p x then x :: take_while p r else [] | [] => [] end.

(* callees of a frame at depth d = the maximal following run of entries with depth >= d *)
Definition callees {A} (d : nat) (rest : list (A * nat)) : list (A * nat) :=
  take_while (fun e => d <=? snd e) rest.
Definition survivors {A} (d : nat) (rest : list (A * nat)) : list (A * nat) :=
  drop_while (fun e => d <=? snd e) rest.

(* insert form: next_inner (the head of the rest) is brought out to the inserting frame's depth
   if it is nested more deeply; otherwise, and for everything after it, depths are unchanged *)
Definition redepth_s (d : nat) (rest : list sent) : list sent :=
  match rest with (s, d') :: r => (s, Nat.min d d') :: r | [] => [] end.

Definition next_of_s (rest : list sent) : option sitem :=
  match rest with (s, _) :: _ => Some s | [] => None end.

(* the value denoted by an element of the hook's result, given the next_inner argument *)
Definition conc_s (next : option sitem) (r : ritem) : sitem :=
  match r with
  | RItem i => s_of i
  | RNone => SNone
  | RNext => match next with Some s => s | None => SNone end
  end.
(* `r is next_inner`: the argument itself, None when next_inner is None, or the very object
   (a raw python frame is never identical to the Frame that wraps it) *)
Definition is_next (next : option sitem) (r : ritem) : bool :=
  match r, next with
  | RNext, _ => true
  | RNone, None | RNone, Some SNone => true
  | RItem (IObj o), Some (SObj o') => o =? o'
  | _, _ => false
  end.
Definition is_none_value (next : option sitem) (r : ritem) : bool :=
  match r, next with
  | RNone, _ => true
  | RNext, None | RNext, Some SNone => true
  | _, _ => false
  end.

Inductive action := Keep | Replace (l : list sitem) | Insert (l : list sitem).

Definition seq_action (next : option sitem) (l : list ritem) : action :=
  match rev l with
  | r :: pre => if is_next next r then Insert (map (conc_s next) (rev pre))
                else Replace (map (conc_s next) l)
  | [] => Replace []                                   (* PRUNE *)
  end.

(* what a (non-raising) elaborate_frame result asks for *)
Definition classify (e : eres) (next : option sitem) : action :=
  match e with
  | ENone => Keep
  | EOne r => if is_none_value next r then Keep else seq_action next [r]
  | ESeq l => seq_action next l
  | ERaise => Replace []
  end.

Definition rres := (list (nat * bool) * list sitem * list err)%type.  (* (frame, hide)s, leaf, errors *)

Inductive RefFlat (c : cfg) : list sent -> rres -> Prop :=
| RF_end : RefFlat c [] ([], [], [])
| RF_leaf s d rest :                                  (* nothing but non-frames may be a leaf *)
    is_frame s = false -> RefFlat c ((s, d) :: rest) ([], map fst ((s, d) :: rest), [])
| RF_keep f d rest frs lf es :
    elab c f <> ERaise -> classify (elab c f) (next_of_s rest) = Keep ->
    RefFlat c rest (frs, lf, es) ->
    RefFlat c ((SFrame f, d) :: rest) ((f, prehide c f) :: frs, lf, es)
| RF_replace f d rest l flat es1 frs lf es2 :
    elab c f <> ERaise -> classify (elab c f) (next_of_s rest) = Replace l ->
    Unw c 0 (at_depth d l ++ survivors d rest) flat es1 -> RefFlat c flat (frs, lf, es2) ->
    RefFlat c ((SFrame f, d) :: rest) ((f, prehide c f) :: frs, lf, es1 ++ es2)
| RF_insert f d rest l flat es1 frs lf es2 :
    elab c f <> ERaise -> classify (elab c f) (next_of_s rest) = Insert l ->
    Unw c 0 (at_depth d l ++ redepth_s d rest) flat es1 -> RefFlat c flat (frs, lf, es2) ->
    RefFlat c ((SFrame f, d) :: rest) ((f, prehide c f) :: frs, lf, es1 ++ es2)
| RF_raise f d rest flat es1 frs lf es2 :             (* a raising hook: shown, pruned, reported *)
    elab c f = ERaise ->
    Unw c 0 (survivors d rest) flat es1 -> RefFlat c flat (frs, lf, es2) ->
    RefFlat c ((SFrame f, d) :: rest) ((f, false) :: frs, lf, EElab f :: es1 ++ es2).

Inductive Ref (c : cfg) : list sent -> rres -> Prop :=
| Ref_intro seq flat es1 frs lf es2 :
    Unw c 0 seq flat es1 -> RefFlat c flat (frs, lf, es2) -> Ref c seq (frs, lf, es1 ++ es2).

(* ---- what of a model/implementation Stack the reference speaks about ---- *)
Definition er (q : qitem) : sitem :=
  match q with QPy f | QFr f _ => SFrame f | QObj o => SObj o | QNone => SNone end.
Definition view_leaf (l : leaf) : list sitem :=
  match l with LNone => [] | LOne q => [er q] | LMany l => map er l end.
Definition view_frame (fo : fout) : nat * bool := match fo with FOut f h _ _ => (f, h) end.
Definition view (s : stack) : rres :=
  match s with Stack frs lf es => (map view_frame frs, view_leaf lf, es) end.

(* ---- executable version (fuelled), proved sound for Ref in P_Frames_Ref ---- *)
Fixpoint ref_unw (fuel n : nat) (c : cfg) (seq : list sent) : option (list sent * list err) :=
  match fuel with
  | 0 => None
  | S fuel' =>
    match seq with
    | [] => Some ([], [])
    | (s, d) :: rest =>
      let leaf es0 :=
        match ref_unw fuel' 0 c rest with
        | Some (out, es) => Some ((s, d) :: out, es0 ++ es) | None => None end in
      let push l es0 :=
        match ref_unw fuel' (S n) c (at_depth (S d) (map s_of l) ++ rest) with
        | Some (out, es) => Some (out, es0 ++ es) | None => None end in
      if is_frame s then leaf [] else
      match hook c s with
      | URaise => leaf [EUnwrap (sid s)]
      | r =>
        if uguard c <=? n then leaf [ELoop (sq s)] else
        match r with
        | UNone | URaise => leaf []
        | UOne i => push [i] []
        | USeq l => push (somes l) []
        | UIter l b => push l (if b then [EIter (sid s)] else [])
        end
      end
    end
  end.

Fixpoint ref_flat (ufuel fuel : nat) (c : cfg) (flat : list sent) : option rres :=
  match fuel with
  | 0 => None
  | S fuel' =>
    match flat with
    | [] => Some ([], [], [])
    | (SFrame f, d) :: rest =>
      let go hide es0 seq :=
        match ref_unw ufuel 0 c seq with
        | Some (flat', es1) =>
            match ref_flat ufuel fuel' c flat' with
            | Some (frs, lf, es2) => Some ((f, hide) :: frs, lf, es0 ++ es1 ++ es2)
            | None => None end
        | None => None end in
      match elab c f with
      | ERaise => go false [EElab f] (survivors d rest)
      | e =>
        match classify e (next_of_s rest) with
        | Keep => match ref_flat ufuel fuel' c rest with
                  | Some (frs, lf, es) => Some ((f, prehide c f) :: frs, lf, es) | None => None end
        | Replace l => go (prehide c f) [] (at_depth d l ++ survivors d rest)
        | Insert l => go (prehide c f) [] (at_depth d l ++ redepth_s d rest)
        end
      end
    | _ => Some ([], map fst flat, [])
    end
  end.

Definition ref_run (fuel : nat) (c : cfg) (seq : list sent) : option rres :=
  match ref_unw fuel 0 c seq with
  | Some (flat, es1) =>
      match ref_flat fuel fuel c flat with
      | Some (frs, lf, es2) => Some (frs, lf, es1 ++ es2) | None => None end
  | None => None
  end.

Definition ref_extract (c : cfg) (root : item) : option rres := ref_run default_fuel c [(s_of root, 0)].

(* ---- second oracle for the generated cases: implementation output vs reference ---- *)
Definition sitem_eqb (a b : sitem) : bool :=
  match a, b with
  | SFrame x, SFrame y | SObj x, SObj y => x =? y
  | SNone, SNone => true
  | _, _ => false
  end.
(* a leaf that is None cannot be told from no leaf *)
Definition norm_leaf (l : list sitem) : list sitem := match l with [SNone] => [] | _ => l end.
Definition rres_eqb (a b : rres) : bool :=
  let '(fa, la, ea) := a in let '(fb, lb, eb) := b in
  list_eqb (pair_eqb Nat.eqb Bool.eqb) fa fb
  && list_eqb sitem_eqb (norm_leaf la) (norm_leaf lb)
  && list_eqb err_eqb ea eb.

Definition ref_case_ok (k : ecase) : bool :=
  let '(c, r, o) := k in
  match o, ref_extract c r with
  | Ok s, Some x => rres_eqb (view s) x
  | _, _ => false
  end.
(* both oracles: the model M_Frames.extract and the reference interpretation *)
Definition mismatches2 (cases : list ecase) : list nat :=
  false_indices 0 (map (fun k => ecase_ok k && ref_case_ok k) cases).
Definition ref_mismatches (cases : list ecase) : list nat :=
  false_indices 0 (map ref_case_ok cases).

(* ---------------------------------------------------------------------------------------------
   Rank-ordered (acyclic) tables and an explicit fuel bound.

   rank (IPy i) = rank (IObj i) = i.  [ranked n c root]: every item that the unwrap hook of an object
   o < n returns, and every item that the elaborate hook of a frame f < n returns, has a rank
   strictly between the hook owner's rank and n; next_inner occurs in a hook result only as the
   LAST element of a sequence (or as the bare result); the root has rank < n.
   This is what harness/frames_gen.py guarantees for its generated tables (gen_case without the
   self-loop and without a non-final next_inner, gen_dense always). *)
Definition rank (i : item) : nat := match i with IPy f => f | IObj o => o end.
Definition uitems (u : ures) : list item :=
  match u with UOne i => [i] | USeq l => somes l | UIter l _ => l | _ => [] end.
Definition eitems (e : eres) : list ritem :=
  match e with ESeq l => l | EOne r => [r] | _ => [] end.

Definition item_between (lo n : nat) (i : item) : bool := (lo <? rank i) && (rank i <? n).
Definition ritem_between (lo n : nat) (r : ritem) : bool :=
  match r with RItem i => item_between lo n i | RNone => true | RNext => false end.
(* all elements ranked; the last one may also be next_inner *)
Definition elab_ranked (lo n : nat) (l : list ritem) : bool :=
  forallb (ritem_between lo n) (removelast l) &&
  match last_opt l with Some RNext | None => true | Some r => ritem_between lo n r end.

Definition ranked (n : nat) (c : cfg) (root : item) : bool :=
  (rank root <? n)
  && forallb (fun o => forallb (item_between o n) (uitems (unwrap c o))) (seq 0 n)
  && forallb (fun f => elab_ranked f n (eitems (elab c f))) (seq 0 n).

(* weight of an item = an upper bound on the number of loop iterations it can cause, read off
   the tables (n = number of ranks still below) *)
Fixpoint sumn (l : list nat) : nat := match l with [] => 0 | x :: r => x + sumn r end.
Definition rweight (w : item -> nat) (r : ritem) : nat :=
  match r with RItem j => w j | RNone => 1 | RNext => 0 end.
Fixpoint wt (n : nat) (c : cfg) (i : item) : nat :=
  match n with
  | 0 => 1
  | S n' =>
      S match i with
        | IObj o => sumn (map (wt n' c) (uitems (unwrap c o)))
        | IPy f => sumn (map (rweight (wt n' c)) (eitems (elab c f)))
        end
  end.
(* fuel that suffices for extract(root) on tables ranked below n *)
Definition fuel_bound (n : nat) (c : cfg) (root : item) : nat := S (wt n c root).

(* ---- third oracle for the generated cases: the generator's claim "this table is rank-ordered
   below n" (n = 0: no claim) is checked, together with the fuel bound being within the model's
   default fuel, so that C10_model_eq_ref_total applies to the case ---- *)
Definition rcase := (nat * ecase)%type.
Definition rank_claim_ok (k : rcase) : bool :=
  let '(n, (c, r, _)) := k in
  match n with
  | 0 => true
  | _ => ranked n c r && (fuel_bound n c r <=? default_fuel)
  end.
Definition mismatches3 (cases : list rcase) : list nat :=
  false_indices 0 (map (fun k : rcase => ecase_ok (snd k) && ref_case_ok (snd k) && rank_claim_ok k) cases).
Definition count_nontrivial3 (cases : list rcase) : nat := count_nontrivial (map snd cases).
Definition count_ranked (cases : list rcase) : nat :=
  count_true (map (fun k : rcase => negb (fst k =? 0)) cases).
