(* C07 — property theorems only (proved in P_Snapshot.v).
   Models: M_Snapshot.v (inspect_frame's snapshot/retry protocol against an adversarial target),
   M_ThreadLife.v (unwrap_thread's three reads interleaved with the thread's life cycle).
   `the_cfg` instantiates the protocol model on the constants and structural facts regenerated
   from /repo (SrcFacts): retry bound, header re-check adjacent to the stacktop/owner reads,
   slot re-check adjacent to every slot read, no call between pointer capture and header re-check. *)
Require Import Base M_Snapshot M_ThreadLife M_Snapshot310 P_Snapshot.
From SS.gen Require Import SrcFacts.

(* For ALL schedules (env: attempt -> switch point -> move), ALL target behaviours that respect the
   environment assumptions (wf_env: depth is a function of lasti, handler depth is safe, returning
   changes lasti) and ALL garbage a dangling read might return: a returned snapshot (L, st) is
   backed by reads rs that were each taken while f_lasti = L through a live pointer inside the valid
   stack and returned the slot's content, st has the length valid for L; otherwise the attempt is
   rejected, AssertionError never escapes, and RuntimeError comes after exactly 10 rejections. *)
Theorem C07_snapshot_consistent_or_rejected : forall t ssize rl d env garb w,
  wf_env (the_cfg t ssize rl) d env -> wf_world (the_cfg t ssize rl) d w ->
  forall o g w', run (the_cfg t ssize rl) env garb w = (o, g, w') ->
  match o with
  | OOk L st => lasti (cur w') = L /\ nretry g < 10 /\
                exists pre rs, reads g = pre ++ rs /\ consistent_snapshot (the_cfg t ssize rl) d L st rs
  | OAssert => False
  | ORuntime => nretry g = 10
  end.
Proof. exact C07_consistent_inst. Qed.
Print Assumptions C07_snapshot_consistent_or_rejected.

(* EXACT WHEN BLOCKED: for a target that never moves (all switch points Stay), for ALL positions and
   stacks satisfying the environment assumptions: the first attempt is accepted (0 retries, exactly
   len reads) and the snapshot is the target's value stack -- the whole stack (depth(L) slots) if the
   frame is suspended in a call (stacktop saved), its prefix at the enclosing handler's depth if the
   frame is executing (stacktop -1). Example of the hypothesis: P_Snapshot.ex_blocked_hyp. *)
Theorem C07_blocked_exact : forall t ssize rl d garb s,
  wf_state (the_cfg t ssize rl) d s ->
  let len := match top s with None => handler_depth t (lasti s) | Some n => n end in
  exists g, run (the_cfg t ssize rl) quiet garb (mkW s OnThread)
              = (OOk (lasti s) (firstn len (slots s)), g, mkW s OnThread)
            /\ nretry g = 0 /\ length (reads g) = len
            /\ (top s <> None -> firstn len (slots s) = slots s /\ len = d (lasti s)).
Proof. exact C07_blocked_inst. Qed.
Print Assumptions C07_blocked_exact.

(* every raw slot read of the whole run (rejected attempts included) is live, in bounds and taken
   at lasti_before; no header read goes through a dangling pointer (finding F15) *)
Theorem C07_reads_in_bounds : forall t ssize rl d env garb w,
  wf_env (the_cfg t ssize rl) d env -> wf_world (the_cfg t ssize rl) d w ->
  forall o g w', run (the_cfg t ssize rl) env garb w = (o, g, w') ->
  Forall rd_ok (reads g) /\ stale_hdr g = 0.
Proof. exact C07_reads_inst. Qed.
Print Assumptions C07_reads_in_bounds.

(* ghost reference balance: +1 per slot read, -len per dropped list: net 0 once the result is dropped *)
Theorem C07_refs_balanced : forall t ssize rl d env garb w,
  wf_env (the_cfg t ssize rl) d env -> wf_world (the_cfg t ssize rl) d w ->
  forall o g w', run (the_cfg t ssize rl) env garb w = (o, g, w') ->
  incs (drop_held g) = decs (drop_held g).
Proof. exact C07_refs_inst. Qed.
Print Assumptions C07_refs_balanced.

Theorem C07_retry_constant : SrcFacts.snapshot_retries = 10.
Proof. reflexivity. Qed.
Print Assumptions C07_retry_constant.

(* structural facts the models rely on beyond the three flags of the_cfg *)
Theorem C07_structure :
  SrcFacts.snapshot_iframe_reads_in_loop = true /\
  SrcFacts.snapshot_handler_retries_only_if_moved = true /\
  SrcFacts.snapshot_stack_reset_in_attempt = true /\
  SrcFacts.snapshot_check_read_no_switch_bytecode = true /\
  SrcFacts.thread_alive_rechecked = true /\
  SrcFacts.trickery_failure_guarded = true.
Proof. exact C07_structure_inst. Qed.
Print Assumptions C07_structure.

(* unwrap_thread: a slice is returned only for the thread's own innermost frame as of the instant
   sys._current_frames() was read, and the thread was alive at all three reads -- for ALL event
   sequences in the three windows (starts, finishes, steps, other threads reusing idents) *)
Theorem C07_alive_window : forall w e1 e2 e3 f w2,
  unwrap_thread w e1 e2 e3 = (RSlice f, w2) ->
  w2 = lsteps (lsteps w e1) e2 /\ t_alive w2 = true /\ f = (0, tframe w2) /\
  t_alive (lsteps w e1) = true /\ t_alive (lsteps w2 e3) = true.
Proof. exact alive_window. Qed.
Print Assumptions C07_alive_window.

Theorem C07_never_started_empty : forall w e1 e2 e3,
  tlife w = NotStarted -> (forall i, ~ In (EStart i) (e1 ++ e2 ++ e3)) ->
  fst (unwrap_thread w e1 e2 e3) = REmpty.
Proof. exact never_started_empty. Qed.
Print Assumptions C07_never_started_empty.

Theorem C07_finished_empty : forall w e1 e2 e3 i,
  tlife w = Finished i -> fst (unwrap_thread w e1 e2 e3) = REmpty.
Proof. exact finished_empty. Qed.
Print Assumptions C07_finished_empty.

(* not alive at the first or at the last is_alive()  =>  no frames *)
Theorem C07_not_alive_empty : forall w e1 e2 e3,
  t_alive (lsteps w e1) = false \/ t_alive (lsteps (lsteps (lsteps w e1) e2) e3) = false ->
  fst (unwrap_thread w e1 e2 e3) = REmpty.
Proof. exact not_alive_empty. Qed.
Print Assumptions C07_not_alive_empty.

(* the re-test after the lookup is necessary: without it, ident reuse yields a foreign frame *)
Theorem C07_recheck_needed :
  unwrap_thread_no_recheck (mkL NotStarted 0 []) [EStart 7] [EFinish; OStart 1 7 0] = RSlice (1, 0)
  /\ fst (unwrap_thread (mkL NotStarted 0 []) [EStart 7] [EFinish; OStart 1 7 0] []) = REmpty.
Proof. exact recheck_needed. Qed.
Print Assumptions C07_recheck_needed.

(* CPython 3.8-3.10 (_lowlevel_cpython_310.py, no retry protocol; descriptive model M_Snapshot310):
   every raw PyObject* dereference is of a word below stack_validity_limit (the highest level of an
   active finally/with block) of an executing frame -- hence, if no active block was set up above the
   current stack depth, a live slot; a suspended frame is never dereferenced raw; word reads stay
   inside the co_stacksize area.  Example of the hypothesis: P_Snapshot.ex_py310. *)
Theorem C07_py310_reads_below_limit : forall f vs bl rds,
  inspect310 f = Some (vs, bl, rds) ->
  Forall (fun r => match r with
                   | RWord i => i < length (f_mem f)
                   | RDeref i a => f_running f = true /\ i < validity_limit (f_blocks f) /\ a <> 0 /\
                                   ((forall b, In b (f_blocks f) -> b_level b <= f_depth f) -> i < f_depth f)
                   end) rds.
Proof. exact py310_reads_below_limit. Qed.
Print Assumptions C07_py310_reads_below_limit.

(* FrameDetails.blocks come from the ACCEPTED position: for all schedules -- in particular whatever the
   target does at switch point P6, between acceptance ("snap:ok") and the walk over the exception
   table -- the position handed to the walk is the accepted lasti_before, the blocks are those of that
   position, and the stack is the consistent snapshot of the same position.  Instantiated on
   SrcFacts.snapshot_blocks_from_accepted (the walk starts from the variable assigned from lasti_before
   in the accepted attempt, no fresh f_lasti read after the retry loop).
   Examples: P_Snapshot.ex_blocks, ex_blocks_from_fresh_lasti. *)
Theorem C07_blocks_of_accepted_position : forall t tg ssize rl d env garb w,
  wf_env (the_xcfg t tg ssize rl) d env -> wf_world (the_xcfg t tg ssize rl) d w ->
  forall L st g w6 bp bl, inspect (the_xcfg t tg ssize rl) env garb w = (OOk L st, g, w6, (bp, bl)) ->
  bp = L /\ bl = blocks_at (the_xcfg t tg ssize rl) L /\
  exists pre rs, reads g = pre ++ rs /\ consistent_snapshot (the_xcfg t tg ssize rl) d L st rs.
Proof. exact C07_blocks_inst. Qed.
Print Assumptions C07_blocks_of_accepted_position.

(* unwrap_stackslice's search of the OTHER threads' stacks for a StackSlice's outer frame (a generator
   running on another thread, extract_since(frame)): the result depends neither on the order in which
   sys._current_frames() lists the threads nor on where the caller's own entry sits in that order.
   hits_agree = frames are exclusive to one stack.  Example of the hypotheses: P_Snapshot.ex_search. *)
Theorem C07_search_order_independent : forall me outer ths ths',
  Permutation.Permutation ths ths' -> hits_agree me outer ths ->
  search_others me outer ths = search_others me outer ths'.
Proof. exact search_order_independent. Qed.
Print Assumptions C07_search_order_independent.

Theorem C07_search_skips_caller : forall me outer s a b,
  search_others me outer (a ++ (me, s) :: b) = search_others me outer (a ++ b).
Proof. exact search_skips_caller. Qed.
Print Assumptions C07_search_skips_caller.

(* exactness: the outer frame is on another thread's stack => exactly that thread's frames from
   `outer` inward, outermost first, no error -- wherever that thread and the caller are listed *)
Theorem C07_search_exact : forall me outer own ths i inner rest,
  try_from outer own = [] -> hits_agree me outer ths ->
  In (i, inner ++ outer :: rest) ths -> i <> me -> ~ In outer inner ->
  unwrap_outer me outer own ths = (outer :: rev inner, false).
Proof. exact search_exact. Qed.
Print Assumptions C07_search_exact.
