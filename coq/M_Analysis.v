(* M_Analysis.v — executable model of stackscope's "trickery" context analysis for
   CPython 3.12 (stackscope/_lowlevel.py: currently_exiting_context [3.11+ branch],
   analyze_with_blocks, _contexts_active_by_trickery, _contexts_active_by_referents;
   stackscope/_lowlevel_cpython_311.py: the exception-table walk and the running-frame
   stack trim of inspect_frame).  Definitions only.

   All positions are code-unit indices (byte offset / 2). *)
Require Import Base M_Bytecode.

(* ---------------------------------------------------------------- small predicates *)
Definition is_send (i : instr) := match i with ISend _ => true | _ => false end.
Definition is_yield (i : instr) := match i with IYield => true | _ => false end.
Definition is_loadconst (i : instr) := match i with ILoadConst _ => true | _ => false end.
Definition is_extarg (i : instr) := match i with IExtArg => true | _ => false end.
Definition is_wes (i : instr) := match i with IWithExceptStart => true | _ => false end.
Definition is_pei (i : instr) := match i with IPushExcInfo => true | _ => false end.
Definition is_filler (i : instr) := match i with ISwap _ | INop => true | _ => false end.

(* `while offs >= 2 and P(offs): offs -= 2` *)
Fixpoint back_while (P : nat -> bool) (u : nat) : nat :=
  match u with
  | 0 => 0
  | S u' => if P (S u') then back_while P u' else S u'
  end.

(* ---------------------------------------------------------------- currently_exiting_context *)
Inductive exres := ENone | ESome (async : bool) (handler : nat) | EWarn.

(* backtrack_over_load_none: None = returned False; Some u = returned True with offs = u *)
Definition backtrack (c : code) (u : nat) : option nat :=
  match at_ c u with
  | ILoadConst true => Some (back_while (fun v => is_extarg (at_ c v)) (u - 1))
  | _ => None
  end.

(* with_handler_covering: follow handler targets from [pos] until one is the cleanup
   handler of a with statement (PUSH_EXC_INFO; WITH_EXCEPT_START).  The `visited` set of the
   Python code stops a cycle; here fuel [length t + 1] does (a walk that long must repeat). *)
Fixpoint with_handler_covering (fuel : nat) (c : code) (t : table) (pos : nat) : option nat :=
  match fuel with
  | 0 => None
  | S f =>
      match lookup_h t pos with
      | None => None
      | Some h =>
          if is_pei (at_ c (h_target h)) && is_wes (at_ c (S (h_target h)))
          then Some (h_target h)
          else with_handler_covering f c t (h_target h)
      end
  end.

(* predecessors[x] in insertion order: for each reported instruction, first its jump edge,
   then its fall-through edge (to the next reported instruction) *)
Fixpoint preds_go (c : code) (x : nat) (l : list nat) : list nat :=
  match l with
  | [] => []
  | p :: tl =>
      (match jump_target (at_ c p) with Some t => if t =? x then [p] else [] | None => [] end)
      ++ (if no_fallthrough (at_ c p) then []
          else match tl with q :: _ => if q =? x then [p] else [] | [] => [] end)
      ++ preds_go c x tl
  end.

Definition preds (c : code) (x : nat) : list nat := preds_go c x (insns c).

Inductive sres := SFound (h : nat) | SCont (todo seen : list nat).

(* the inner `for pred in predecessors.get(x)` loop *)
Fixpoint scan_preds (c : code) (t : table) (l : list nat) (todo seen : list nat) : sres :=
  match l with
  | [] => SCont todo seen
  | p :: r =>
      if mem_nat p seen then scan_preds c t r todo seen else
      let seen := p :: seen in
      if is_filler (at_ c p) then scan_preds c t r (p :: todo) seen else
      match with_handler_covering (S (length t)) c t p with
      | Some h => SFound h
      | None => scan_preds c t r todo seen
      end
  end.

(* the outer `while todo: x = todo.pop()` loop; [todo] has the most recently appended
   element first *)
Fixpoint search (fuel : nat) (c : code) (t : table) (todo seen : list nat) : option nat :=
  match fuel with
  | 0 => None
  | S f =>
      match todo with
      | [] => None
      | x :: todo' =>
          match scan_preds c t (preds c x) todo' seen with
          | SFound h => Some h
          | SCont todo'' seen' => search f c t todo'' seen'
          end
      end
  end.

Definition is_precall (i : instr) := match i with IPrecall => true | _ => false end.

Definition sync_part (v : pyver) (c : code) (t : table) (u : nat) (asy : bool) : exres :=
  if is_wes (at_ c u) then ESome asy (u - 1) else
  let u := back_while (fun v => is_cache (at_ c v)) u in
  match at_ c u with
  | ICall 2 =>
      let u := u - 1 in
      (* 3.11 has PRECALL (+ its cache) between the arguments and CALL; 3.12 does not *)
      let pre := match v with
                 | V312 => Some u
                 | V311 => let u' := back_while (fun w => (3 <=? w) && is_cache (at_ c w)) u in
                           if is_precall (at_ c u') then Some (u' - 1) else None
                 end in
      match pre with None => ENone | Some u =>
      if negb (is_loadconst (at_ c u)) then ENone else
      match backtrack c u with None => ENone | Some u1 =>
      match backtrack c u1 with None => ENone | Some u2 =>
      match backtrack c u2 with None => ENone | Some u3 =>
        match search (length c + 2) c t [S u3] [] with
        | Some h => ESome asy h
        | None => EWarn
        end
      end end end
      end
  | _ => ENone
  end.

Definition exiting (v : pyver) (c : code) (t : table) (lasti : nat) : exres :=
  (* 3.12: a running frame inside an awaited __aexit__ has lasti on SEND's inline cache *)
  let u := back_while (fun v => is_cache (at_ c v)
                                && (is_send (at_ c (v - 1)) || is_cache (at_ c (v - 1)))) lasti in
  let '(u, asy) :=
    match u with
    | S u' => if is_yield (at_ c u)
              then (back_while (fun v => is_cache (at_ c v)) u', true)
              else (u, false)
    | 0 => (u, false)
    end in
  match at_ c u with
  | ISend _ =>
      let u := u - 1 in
      if negb (is_loadconst (at_ c u)) then EWarn else
      match backtrack c u with
      | None => EWarn
      | Some u =>
          match at_ c u with
          | IGetAwaitable 2 => sync_part v c t (u - 1) true
          | _ => ENone
          end
      end
  | _ => if asy then ENone else sync_part v c t u false
  end.

(* ---------------------------------------------------------------- analyze_with_blocks *)
(* start_to_handler = {start: target for ...}: the last entry with a given start wins *)
Definition start_to_handler (t : table) (s : nat) : option nat :=
  match find (fun h => h_start h =? s) (rev t) with
  | Some h => Some (h_target h)
  | None => None
  end.

Definition is_bw (i : instr) : option bool := match i with IBeforeWith a => Some a | _ => None end.

(* `while is_async and insns[idx + skip - 5].opname == "EXTENDED_ARG": skip += 1`;
   [rest] is insns[idx:], so insns[idx + k] = nth_error rest k (fuel: the list is finite) *)
Fixpoint skip_ext (fuel : nat) (c : code) (rest : list nat) (skip : nat) : nat :=
  match fuel with
  | 0 => skip
  | S f => match nth_error rest (skip - 5) with
           | Some p => if is_extarg (at_ c p) then skip_ext f c rest (S skip) else skip
           | None => skip
           end
  end.

(* with_block_info as an association list handler -> (site, is_async), newest first;
   None = the Python code raised (IndexError / KeyError) *)
Definition winfo := list (nat * (nat * bool)).

Fixpoint with_info_go (v : pyver) (c : code) (t : table) (rest : list nat) (acc : winfo) : option winfo :=
  match rest with
  | [] => Some acc
  | p :: tl =>
      match is_bw (at_ c p) with
      | None => with_info_go v c t tl acc
      | Some asy =>
          let skip := if asy then skip_ext (length rest) c rest 7 else 1 in
          let step1 :=
            match v, asy with
            | V312, true =>      (* 3.12: an optional CLEANUP_THROW, then END_SEND *)
                match nth_error rest skip with
                | None => None
                | Some q => Some (S (if instr_eqb_kind (at_ c q) ICleanupThrow then S skip else skip))
                end
            | _, _ => Some skip
            end in
          match step1 with
          | None => None
          | Some skip =>
            match nth_error rest skip with
            | None => None
            | Some q =>
              let skip := if instr_eqb_kind (at_ c q) INop then S skip else skip in
              match nth_error rest skip with
              | None => None
              | Some q =>
                  match start_to_handler t q with
                  | None => None
                  | Some h => with_info_go v c t tl ((h, (p, asy)) :: acc)
                  end
              end
            end
          end
      end
  end.

Definition with_info (v : pyver) (c : code) (t : table) : option winfo := with_info_go v c t (insns c) [].

Fixpoint winfo_get (w : winfo) (h : nat) : option (nat * bool) :=
  match w with
  | [] => None
  | (k, v) :: r => if k =? h then Some v else winfo_get r h
  end.

(* ---------------------------------------------------------------- inspect_frame *)
(* bisect_left(handlers, (current + 1, 0)) on a table sorted by start *)
Definition bisect_idx (t : table) (cur : nat) : nat :=
  length (filter (fun h => h_start h <=? cur) t).

(* the handler chain, innermost first (before the final reverse) *)
Fixpoint chain (fuel : nat) (t : table) (cur : nat) : option (list (nat * nat)) :=
  match fuel with
  | 0 => None                    (* the Python loop would not terminate *)
  | S f =>
      match bisect_idx t cur with
      | 0 => Some []
      | S k =>
          match nth_error t k with
          | None => Some []
          | Some h =>
              if covers h cur
              then match chain f t (h_target h) with
                   | Some l => Some ((h_target h, h_depth h) :: l)
                   | None => None
                   end
              else Some []
          end
      end
  end.

Definition blocks (t : table) (lasti : nat) : option (list (nat * nat)) :=
  match chain (S (length t)) t lasti with Some l => Some (rev l) | None => None end.

(* running frames: the stack is trimmed to the depth of the first entry covering lasti *)
Definition trim_depth (t : table) (lasti : nat) : nat :=
  match lookup_h t lasti with Some h => h_depth h | None => 0 end.

Section WithValues.
Variable I : Type.

(* the value stack has its TOP FIRST; [keep_bottom d st] = the d bottom-most slots *)
Definition keep_bottom (d : nat) (st : list (val I)) : list (val I) := skipn (length st - d) st.

(* python `stack[k]` for k = level - 1, including the negative index for level = 0 *)
Definition slot (st : list (val I)) (level : nat) : option (val I) :=
  match level with
  | 0 => hd_error st
  | S k => nth_error (rev st) k
  end.

Definition self_of (v : val I) : option (nat * I) := match v with VX s i => Some (s, i) | _ => None end.

(* one reported context: the with statement (site of its BEFORE_WITH, which determines
   is_async / varname / start_line), the manager object, is_exiting *)
(* [c_from] is a ghost field that no observer sees: the with-site whose exit method the
   slot actually held (equal to c_site iff the analysis picked the right slot) *)
Record ctxv := { c_site : nat; c_async : bool; c_obj : option I; c_exiting : bool; c_from : nat }.

Inductive tres := TOk (l : list ctxv) | TFail | TWarn.

Fixpoint objs_of (w : winfo) (st : list (val I)) (bl : list (nat * nat)) : option (list ctxv) :=
  match bl with
  | [] => Some []
  | (h, level) :: r =>
      match winfo_get w h with
      | None => objs_of w st r                       (* not a with block: filtered out *)
      | Some (site, asy) =>
          match slot st level with
          | Some v => match self_of v, objs_of w st r with
                      | Some (from, i), Some l =>
                          Some ({| c_site := site; c_async := asy; c_obj := Some i; c_exiting := false;
                                   c_from := from |} :: l)
                      | _, _ => None
                      end
          | None => None
          end
      end
  end.

(* _contexts_active_by_trickery (without the varname fallback, which is property C08);
   [running] = the frame is executing (stacktop = -1) *)
Definition trickery (v : pyver) (c : code) (t : table) (running : bool) (lasti : nat) (st : list (val I)) : tres :=
  match with_info v c t, blocks t lasti with
  | Some w, Some bl =>
      let vis := if running then keep_bottom (trim_depth t lasti) st else st in
      match objs_of w vis bl with
      | None => TFail
      | Some l =>
          match exiting v c t lasti with
          | ENone => TOk l
          | EWarn => TWarn
          | ESome _ h =>
              match winfo_get w h with
              | Some (site, asy) =>
                  TOk (l ++ [{| c_site := site; c_async := asy; c_obj := None; c_exiting := true;
                              c_from := site |}])
              | None => TFail
              end
          end
      end
  | _, _ => TFail
  end.

(* _contexts_active_by_referents on a suspended frame: every bound __exit__/__aexit__ among
   the referents (value stack, bottom to top), then the exiting marker *)
Definition exits_on_stack (st : list (val I)) : list (nat * I) :=
  flat_map (fun v => match v with VX s i => [(s, i)] | _ => [] end) (rev st).

End WithValues.

Arguments slot {I}. Arguments keep_bottom {I}. Arguments self_of {I}. Arguments trickery {I}.
Arguments objs_of {I}. Arguments TOk {I}. Arguments TFail {I}. Arguments TWarn {I}.
Arguments c_site {I}. Arguments c_async {I}. Arguments c_obj {I}. Arguments c_exiting {I}. Arguments c_from {I}.
Arguments Build_ctxv {I}. Arguments exits_on_stack {I}.

(* ---------------------------------------------------------------- referents mode *)
Section Referents.
Variable I : Type.

(* one entry of _contexts_active_by_referents; [r_site] is a ghost (which with statement the
   bound method came from), observers see obj / is_async / is_exiting *)
Record refv := { r_site : nat; r_obj : option I; r_async : bool; r_exiting : bool }.

(* "a" in referent.__func__.__name__: the method pushed by BEFORE_ASYNC_WITH is __aexit__ *)
Definition site_async (c : code) (s : nat) : bool :=
  match at_ c s with IBeforeWith a => a | _ => false end.

Definition referents (v : pyver) (c : code) (t : table) (lasti : nat) (st : list (val I)) : list refv :=
  map (fun x : nat * I => {| r_site := fst x; r_obj := Some (snd x); r_async := site_async c (fst x);
                             r_exiting := false |}) (exits_on_stack st)
  ++ match exiting v c t lasti with
     | ESome asy _ => [{| r_site := 0; r_obj := None; r_async := asy; r_exiting := true |}]
     | _ => []
     end.

(* contexts_active_in_frame, as far as the choice of implementation goes: [enabled] is what
   _check_trickery_available() returned, [guarded] whether the trickery call sits in a
   try/except Exception that warns and falls back (regenerated from source) *)
Inductive caf_res :=
  | CafTrick (l : list (ctxv I)) (warned : bool)
  | CafRef (l : list refv) (warned : bool)
  | CafRaise.

Definition contexts_active (v : pyver) (guarded enabled : bool) (c : code) (t : table) (running : bool)
           (lasti : nat) (st : list (val I)) : caf_res :=
  if enabled then
    match trickery v c t running lasti st with
    | TOk l => CafTrick l false
    | TWarn => match with_info v c t, blocks t lasti with
               | Some w, Some bl =>
                   match objs_of w (if running then keep_bottom (trim_depth t lasti) st else st) bl with
                   | Some l => CafTrick l true
                   | None => if guarded then CafRef (referents v c t lasti st) true else CafRaise
                   end
               | _, _ => if guarded then CafRef (referents v c t lasti st) true else CafRaise
               end
    | TFail => if guarded then CafRef (referents v c t lasti st) true else CafRaise
    end
  else CafRef (referents v c t lasti st) false.
End Referents.
Arguments referents {I}. Arguments r_site {I}. Arguments r_obj {I}. Arguments r_async {I}.
Arguments r_exiting {I}. Arguments Build_refv {I}. Arguments contexts_active {I}.
Arguments CafTrick {I}. Arguments CafRef {I}. Arguments CafRaise {I}.

(* ---------------------------------------------------------------- set_trickery_enabled *)
(* the global _can_use_trickery under _trickery_lock: a sequentially consistent register *)
Inductive tr_op := TSet (v : option bool) | TCheck.
(* [detect] = the result auto-detection gives on this interpreter *)
Definition tr_step (detect : bool) (s : option bool) (o : tr_op) : option bool * option bool :=
  match o with
  | TSet v => (v, None)
  | TCheck => match s with
              | Some b => (s, Some b)
              | None => (Some detect, Some detect)
              end
  end.
Fixpoint tr_run (detect : bool) (s : option bool) (ops : list tr_op) : list (option bool) :=
  match ops with
  | [] => []
  | o :: r => let '(s', out) := tr_step detect s o in out :: tr_run detect s' r
  end.
(* the self-test warning ("trickery doesn't work on this interpreter"): emitted by exactly the check that
   performs a FAILING auto-detection; a remembered result (Some _) never re-tests and never warns *)
Definition tr_warn (detect : bool) (s : option bool) (o : tr_op) : bool :=
  match o, s with
  | TCheck, None => negb detect
  | _, _ => false
  end.
Fixpoint tr_warns (detect : bool) (s : option bool) (ops : list tr_op) : list bool :=
  match ops with
  | [] => []
  | o :: r => tr_warn detect s o :: tr_warns detect (fst (tr_step detect s o)) r
  end.
(* correspondence case: the auto-detection result of the environment, an operation sequence run from the
   undetermined state, the mode each operation observed (None for a set) and whether it emitted the warning *)
Definition mode_case := (bool * list tr_op * list (option bool) * list bool)%type.
Definition mode_ok (x : mode_case) : bool :=
  let '(d, ops, outs, ws) := x in
  list_eqb (option_eqb Bool.eqb) (tr_run d None ops) outs && list_eqb Bool.eqb (tr_warns d None ops) ws.
Definition mode_mismatches (cases : list mode_case) : list nat := false_indices 0 (map mode_ok cases).
Definition mode_nontrivial (cases : list mode_case) : nat :=
  count_true (map (fun x : mode_case => let '(_, ops, _, _) := x in Nat.ltb 1 (length ops)) cases).
