(* M_Targets.v — executable model for property C08 (varname of a with-item).

   1. [insn]: abstraction of a dis.Instruction to exactly what
      stackscope._lowlevel.describe_assignment_target looks at (opname class + argval/argrepr),
      keeping the opcode identity of loads/stores/no-ops so that compiler output can be compared.
   2. [describe]: describe_assignment_target as coded (recursive stack machine: next_target,
      EXTENDED_ARG skipping, the STORE_FAST / POP_TOP shortcuts, IndexError / ValueError => None).
   3. target AST [expr]/[target] and [compile_target]: a model of the store sequence that the
      CPython 3.11 / 3.12 compiler emits for the `as` target of a with-item (what dis shows,
      caches hidden).
   4. [render_target]: the reference pretty-printer (written from the grammar of targets, not from
      the decompiler): the string the property expects as Context.varname.
   Definitions only; proofs are in P_Targets.v. *)
From Coq Require Import String Ascii.
Require Import Base.
Open Scope string_scope.
Open Scope list_scope.
Infix "@@" := String.append (at level 60, right associativity).

(* ------------------------------------------------------------------ instructions *)
Inductive version := V311 | V312.
(* which LOAD_x / STORE_x: FAST, GLOBAL, DEREF, NAME, (LOAD_)FAST_CHECK *)
Inductive nkind := KFast | KGlobal | KDeref | KName | KFastCheck | KGlobalNull.   (* KGlobalNull: LOAD_GLOBAL that also pushes NULL *)
Inductive nopk := NPushNull | NPrecall | NCache.

Inductive insn :=
  | ILoad (k : nkind) (s : string)        (* LOAD_GLOBAL/FAST/NAME/DEREF/FAST_CHECK, argval *)
  | IStoreName (k : nkind) (s : string)   (* STORE_GLOBAL/FAST/NAME/DEREF, argval *)
  | ILoadAttr (meth : bool) (s : string)  (* LOAD_ATTR (3.12: meth = low bit of the arg), LOAD_METHOD, LOOKUP_METHOD *)
  | IStoreAttr (s : string)
  | ILoadConst (r : string)               (* "..." if argval is Ellipsis else argrepr *)
  | IBinarySubscr | IStoreSubscr
  | IBinarySlice (a3 : bool) | IStoreSlice (a3 : bool)   (* a3: insn.arg == 3 *)
  | IUnpackSeq (n : nat)
  | IUnpackEx (before after : nat)        (* argval & 0xFF, argval >> 8 *)
  | ICall (n : nat)                       (* CALL_FUNCTION / CALL_METHOD / CALL, argval *)
  | IDupTop | IPopTop
  | INop (k : nopk)                       (* PRECALL, CACHE, PUSH_NULL *)
  | IExtArg
  | IOther (tag : nat).                   (* every other opcode: ValueError.  tag: 1 BINARY_OP, 2 COPY,
                                             3 KW_NAMES, 4 CALL_FUNCTION_EX, 5 BUILD_TUPLE, 6 BUILD_SLICE, 0 rest *)

(* ------------------------------------------------------------------ the decompiler *)
Inductive res (A : Type) := Ok (a : A) | Err | Fuel.
Arguments Ok {A} a. Arguments Err {A}. Arguments Fuel {A}.

Fixpoint join (sep : string) (l : list string) : string :=
  match l with
  | [] => ""
  | [x] => x
  | x :: r => x @@ sep @@ join sep r
  end.

(* format_tuple of the Python code *)
Definition format_tuple (values : list string) : string :=
  match values with
  | [v] => "(" @@ v @@ ",)"
  | _ => "(" @@ join ", " values @@ ")"
  end.

(* LOAD_ATTR / LOAD_METHOD / STORE_ATTR: `if obj[:1].isdigit() or obj[:1] == "-": obj = f"({obj})"`
   (attribute of a numeric constant: `1.x` would not parse).  Text reaching this test is ASCII-encoded
   by the harness, so isdigit is the ASCII digit test. *)
Definition num_start (s : string) : bool :=
  match s with
  | String c _ =>
      let n := nat_of_ascii c in (Nat.leb 48 n && Nat.leb n 57) || Nat.eqb n 45
  | EmptyString => false
  end.
Definition attr_obj (o : string) : string := if num_start o then "(" @@ o @@ ")" else o.

(* the python list `stack` is kept reversed: head = top of stack.
   [finish]: after a STORE_* / UNPACK_* instruction the loop breaks; len(stack) must be 1 *)
Definition finish (stack : list string) (rest : list insn) : res (string * list insn) :=
  match stack with [x] => Ok (x, rest) | _ => Err end.

(* next_target(): [nt] is the while-loop (one instruction per step), [nts n] the n consecutive
   recursive calls made for UNPACK_SEQUENCE / UNPACK_EX.  Err = IndexError or ValueError. *)
Fixpoint nt (fuel : nat) (ins : list insn) (stack : list string) {struct fuel}
  : res (string * list insn) :=
  match fuel with
  | 0 => Fuel
  | S f =>
    match ins with
    | [] => Err                                   (* insns[idx]: IndexError *)
    | i :: rest =>
      match i with
      | IExtArg => nt f rest stack
      | ILoad _ s => nt f rest (s :: stack)
      | IStoreName _ s => finish (s :: stack) rest
      | ILoadAttr _ a =>
          match stack with o :: st => nt f rest ((attr_obj o @@ "." @@ a) :: st) | [] => Err end
      | IStoreAttr a =>
          match stack with o :: st => finish ((attr_obj o @@ "." @@ a) :: st) rest | [] => Err end
      | ILoadConst r => nt f rest (r :: stack)
      | IBinarySubscr =>
          match stack with
          | ix :: c :: st => nt f rest ((c @@ "[" @@ ix @@ "]") :: st)
          | _ => Err end
      | IStoreSubscr =>
          match stack with
          | ix :: c :: st => finish ((c @@ "[" @@ ix @@ "]") :: st) rest
          | _ => Err end
      | IBinarySlice false =>
          match stack with
          | e :: s :: c :: st => nt f rest ((c @@ "[" @@ s @@ ":" @@ e @@ "]") :: st)
          | _ => Err end
      | IBinarySlice true =>
          match stack with
          | sp :: e :: s :: c :: st => nt f rest ((c @@ "[" @@ s @@ ":" @@ e @@ ":" @@ sp @@ "]") :: st)
          | _ => Err end
      | IStoreSlice false =>
          match stack with
          | e :: s :: c :: st => finish ((c @@ "[" @@ s @@ ":" @@ e @@ "]") :: st) rest
          | _ => Err end
      | IStoreSlice true =>
          match stack with
          | sp :: e :: s :: c :: st => finish ((c @@ "[" @@ s @@ ":" @@ e @@ ":" @@ sp @@ "]") :: st) rest
          | _ => Err end
      | IUnpackSeq n =>
          match nts f n rest with
          | Ok (vals, rest') => finish (format_tuple vals :: stack) rest'
          | Err => Err | Fuel => Fuel
          end
      | IUnpackEx b a =>
          match nts f b rest with
          | Ok (before, r1) =>
            match nts f 1 r1 with
            | Ok (star, r2) =>
              match nts f a r2 with
              | Ok (after, r3) =>
                  finish (format_tuple (before ++ map (fun s => "*" @@ s) star ++ after) :: stack) r3
              | Err => Err | Fuel => Fuel
              end
            | Err => Err | Fuel => Fuel
            end
          | Err => Err | Fuel => Fuel
          end
      | ICall n =>
          (* args = stack[-n:]; del stack[-n:]; func = stack.pop(): IndexError iff len(stack) < n+1 *)
          if Nat.ltb (List.length stack) (S n) then Err
          else match skipn n stack with
               | fn :: st => nt f rest ((fn @@ "(" @@ join ", " (rev (firstn n stack)) @@ ")") :: st)
               | [] => Err
               end
      | IDupTop => match stack with t :: st => nt f rest (t :: t :: st) | [] => Err end
      | IPopTop => match stack with _ :: st => nt f rest st | [] => Err end
      | INop _ => nt f rest stack
      | IOther _ => Err                           (* ValueError: not supported *)
      end
    end
  end
with nts (fuel : nat) (n : nat) (ins : list insn) {struct fuel}
  : res (list string * list insn) :=
  match fuel with
  | 0 => Fuel
  | S f =>
    match n with
    | 0 => Ok ([], ins)
    | S n' =>
      match nt f ins [] with
      | Ok (v, r) =>
        match nts f n' r with
        | Ok (vs, r') => Ok (v :: vs, r')
        | Err => Err | Fuel => Fuel
        end
      | Err => Err | Fuel => Fuel
      end
    end
  end.

Inductive dres := DSome (s : string) | DNone | DFuel.

(* describe_assignment_target(insns, start_idx) where [ins] = insns[start_idx:] *)
Definition describe (ins : list insn) : dres :=
  match ins with
  | [] => DNone
  | IPopTop :: _ => DNone
  | IStoreName KFast s :: _ => DSome s
  | _ =>
    match nt (3 * List.length ins + 3) ins [] with
    | Ok (s, _) => DSome s
    | Err => DNone
    | Fuel => DFuel
    end
  end.

(* ------------------------------------------------------------------ targets and the compiler *)
(* load-context expressions that can occur inside a target.  [EOp tag subs]: an expression the
   decompiler does not support, compiled as "operands, then one unsupported opcode"
   (1 arithmetic, 5 tuple display, 6 slice object, 0 anything else).  [EWalrus]: (name := e).
   [ECallX]: call with keyword (tag 3) or starred (tag 4) arguments. *)
Inductive expr :=
  | EName (k : nkind) (s : string)
  | EConst (r : string)                          (* repr of the constant; "..." for Ellipsis *)
  | EAttr (e : expr) (a : string)
  | ESubscr (e i : expr)
  | ESlice (e lo hi : expr)                      (* e[lo:hi]; an omitted bound is EConst "None" *)
  | ECall (f : expr) (args : list expr)          (* positional call, callee not an attribute *)
  | EMCall (o : expr) (m : string) (args : list expr)   (* o.m(args) *)
  | EOp (tag : nat) (subs : list expr)
  | EWalrus (k : nkind) (s : string) (e : expr)
  | ECallX (tag : nat) (f : expr) (args : list expr).

Inductive target :=
  | TName (k : nkind) (s : string)
  | TAttr (e : expr) (a : string)
  | TSubscr (e i : expr)
  | TSlice (e lo hi : expr)
  | TTuple (ts : list target)                    (* (a, b) or [a, b] *)
  | TStar (before : list target) (star : target) (after : list target).

(* the NULL a call needs below its callee: PUSH_NULL, which the optimizer folds into an immediately
   following LOAD_GLOBAL (that does not carry a NULL yet) *)
Definition push_null (c : list insn) : list insn :=
  match c with
  | ILoad KGlobal s :: r => ILoad KGlobalNull s :: r
  | _ => INop NPushNull :: c
  end.

Definition call_suffix (v : version) (n : nat) : list insn :=
  match v with V311 => [INop NPrecall; ICall n] | V312 => [ICall n] end.

Fixpoint compile_expr (v : version) (e : expr) : list insn :=
  (match e with
  | EName k s => [ILoad k s]
  | EConst r => [ILoadConst r]
  | EAttr e a => compile_expr v e ++ [ILoadAttr false a]
  | ESubscr e i => compile_expr v e ++ compile_expr v i ++ [IBinarySubscr]
  | ESlice e lo hi =>
      compile_expr v e ++ compile_expr v lo ++ compile_expr v hi ++
      match v with V312 => [IBinarySlice false] | V311 => [IOther 6; IBinarySubscr] end
  | ECall f args =>
      push_null (compile_expr v f) ++
      flat_map (compile_expr v) args ++ call_suffix v (List.length args)
  | EMCall o m args =>
      compile_expr v o ++ [ILoadAttr true m] ++
      flat_map (compile_expr v) args ++ call_suffix v (List.length args)
  | EOp tag subs => flat_map (compile_expr v) subs ++ [IOther tag]
  | EWalrus k s e => compile_expr v e ++ [IOther 2; IStoreName k s]
  | ECallX tag f args =>
      push_null (compile_expr v f) ++
      flat_map (compile_expr v) args ++
      (if Nat.eqb tag 3 then IOther 3 :: call_suffix v (List.length args) else [IOther tag])
  end)%list.

Fixpoint compile_target (v : version) (t : target) : list insn :=
  (match t with
  | TName k s => [IStoreName k s]
  | TAttr e a => compile_expr v e ++ [IStoreAttr a]
  | TSubscr e i => compile_expr v e ++ compile_expr v i ++ [IStoreSubscr]
  | TSlice e lo hi =>
      compile_expr v e ++ compile_expr v lo ++ compile_expr v hi ++
      match v with V312 => [IStoreSlice false] | V311 => [IOther 6; IStoreSubscr] end
  | TTuple ts => IUnpackSeq (List.length ts) :: flat_map (compile_target v) ts
  | TStar b s a =>
      (* the count of targets after the star sits in the second byte of the oparg: EXTENDED_ARG *)
      (if Nat.eqb (List.length a) 0 then [] else [IExtArg]) ++
      IUnpackEx (List.length b) (List.length a) ::
      flat_map (compile_target v) b ++ compile_target v s ++ flat_map (compile_target v) a
  end)%list.

(* a with-item: `as` target or none (POP_TOP) *)
Definition compile_item (v : version) (t : option target) : list insn :=
  match t with Some t => compile_target v t | None => [IPopTop] end.

(* ------------------------------------------------------------------ reference rendering *)
Fixpoint commas (l : list string) : string :=
  match l with
  | [] => ""
  | x :: r => match r with [] => x | _ => x @@ ", " @@ commas r end
  end.

Definition paren_tuple (l : list string) : string :=
  match l with
  | [] => "()"
  | [x] => "(" @@ x @@ ",)"
  | _ => "(" @@ commas l @@ ")"
  end.

(* the base of an attribute reference must be a primary: text that starts with a digit or a minus
   sign (a numeric literal) is parenthesised *)
Definition starts_numeric (s : string) : bool :=
  match s with
  | String c _ => existsb (Ascii.eqb c) ["0"; "1"; "2"; "3"; "4"; "5"; "6"; "7"; "8"; "9"; "-"]%char
  | EmptyString => false
  end.
Definition primary (s : string) : string := if starts_numeric s then "(" @@ s @@ ")" else s.

Fixpoint render_expr (e : expr) : string :=
  match e with
  | EName _ s => s
  | EConst r => r
  | EAttr e a => primary (render_expr e) @@ "." @@ a
  | ESubscr e i => render_expr e @@ "[" @@ render_expr i @@ "]"
  | ESlice e lo hi => render_expr e @@ "[" @@ render_expr lo @@ ":" @@ render_expr hi @@ "]"
  | ECall f args => render_expr f @@ "(" @@ commas (map render_expr args) @@ ")"
  | EMCall o m args => primary (render_expr o) @@ "." @@ m @@ "(" @@ commas (map render_expr args) @@ ")"
  | EOp _ _ => "?"
  | EWalrus _ _ _ => "?"
  | ECallX _ _ _ => "?"
  end.

Fixpoint render_target (t : target) : string :=
  match t with
  | TName _ s => s
  | TAttr e a => primary (render_expr e) @@ "." @@ a
  | TSubscr e i => render_expr e @@ "[" @@ render_expr i @@ "]"
  | TSlice e lo hi => render_expr e @@ "[" @@ render_expr lo @@ ":" @@ render_expr hi @@ "]"
  | TTuple ts => paren_tuple (map render_target ts)
  | TStar b s a =>
      paren_tuple (map render_target b ++ ["*" @@ render_target s] ++ map render_target a)
  end.

(* the documented supported set (per version family: 3.11 has no BINARY_SLICE/STORE_SLICE) *)
Fixpoint sup_expr (v : version) (e : expr) : bool :=
  match e with
  | EName _ _ | EConst _ => true
  | EAttr e _ => sup_expr v e
  | ESubscr e i => sup_expr v e && sup_expr v i
  | ESlice e lo hi =>
      match v with V312 => sup_expr v e && sup_expr v lo && sup_expr v hi | V311 => false end
  | ECall f args => sup_expr v f && forallb (sup_expr v) args
  | EMCall o _ args => sup_expr v o && forallb (sup_expr v) args
  | EOp _ _ | EWalrus _ _ _ | ECallX _ _ _ => false
  end.

Fixpoint sup_target (v : version) (t : target) : bool :=
  match t with
  | TName _ _ => true
  | TAttr e _ => sup_expr v e
  | TSubscr e i => sup_expr v e && sup_expr v i
  | TSlice e lo hi =>
      match v with V312 => sup_expr v e && sup_expr v lo && sup_expr v hi | V311 => false end
  | TTuple ts => forallb (sup_target v) ts
  | TStar b s a => forallb (sup_target v) b && sup_target v s && forallb (sup_target v) a
  end.

(* what the property demands of a with-item's varname before the locals fallback *)
Definition expected (v : version) (t : option target) : dres :=
  match t with
  | Some t => if sup_target v t then DSome (render_target t) else DNone
  | None => DNone
  end.

(* ------------------------------------------------------------------ correspondence cases *)
Definition nkind_eqb (a b : nkind) : bool :=
  match a, b with
  | KFast, KFast | KGlobal, KGlobal | KDeref, KDeref | KName, KName | KFastCheck, KFastCheck
  | KGlobalNull, KGlobalNull => true
  | _, _ => false
  end.
Definition nopk_eqb (a b : nopk) : bool :=
  match a, b with
  | NPushNull, NPushNull | NPrecall, NPrecall | NCache, NCache => true
  | _, _ => false
  end.

(* LOAD_FAST vs LOAD_FAST_CHECK is decided by the compiler's definite-assignment analysis, which
   is not modelled: the two are identified when compiler output is compared *)
Definition unchecked (k : nkind) : nkind := match k with KFastCheck => KFast | _ => k end.

Definition insn_eqb (a b : insn) : bool :=
  match a, b with
  | ILoad k s, ILoad k' s' => nkind_eqb (unchecked k) (unchecked k') && String.eqb s s'
  | IStoreName k s, IStoreName k' s' => nkind_eqb k k' && String.eqb s s'
  | ILoadAttr m s, ILoadAttr m' s' => Bool.eqb m m' && String.eqb s s'
  | IStoreAttr s, IStoreAttr s' => String.eqb s s'
  | ILoadConst s, ILoadConst s' => String.eqb s s'
  | IBinarySubscr, IBinarySubscr | IStoreSubscr, IStoreSubscr => true
  | IBinarySlice a, IBinarySlice a' => Bool.eqb a a'
  | IStoreSlice a, IStoreSlice a' => Bool.eqb a a'
  | IUnpackSeq n, IUnpackSeq n' => Nat.eqb n n'
  | IUnpackEx b a, IUnpackEx b' a' => Nat.eqb b b' && Nat.eqb a a'
  | ICall n, ICall n' => Nat.eqb n n'
  | IDupTop, IDupTop | IPopTop, IPopTop | IExtArg, IExtArg => true
  | INop k, INop k' => nopk_eqb k k'
  | IOther t, IOther t' => Nat.eqb t t'
  | _, _ => false
  end.

Definition dres_eqb (a b : dres) : bool :=
  match a, b with
  | DSome s, DSome s' => String.eqb s s'
  | DNone, DNone => true
  | _, _ => false           (* DFuel never equals an observation *)
  end.

(* kind "main": a with-item whose `as` target is known as an AST (generated programs; stdlib
   items whose target fits the AST).  [code] = the real instructions from the first store
   instruction on (abstracted from dis), [obs] = what the real describe_assignment_target
   returned at that index, [obs_awb] = the varname analyze_with_blocks recorded for the item
   (found through its own skip logic).
   ok iff (a) the compiler model predicts the real store sequence (the window holds at least
   everything the implementation read, and >= 48 instructions; a longer model sequence is compared
   on the window), (b) the decompiler model
   predicts the real result, (c) the result is what the property expects, (d) analyze_with_blocks
   saw the same result. *)
Definition tcase := (version * option target * list insn * dres * dres)%type.

Definition tcase_flags (c : tcase) : list bool :=
  let '(v, t, code, obs, obs_awb) := c in
  let m := compile_item v t in
  [ list_eqb insn_eqb (firstn (List.length m) code) (firstn (List.length code) m);
    dres_eqb (describe code) obs;
    dres_eqb obs (expected v t);
    dres_eqb obs_awb obs ].

Definition tcase_ok (c : tcase) : bool := forallb (fun b => b) (tcase_flags c).
Definition mismatches (cases : list tcase) : list nat := false_indices 0 (map tcase_ok cases).

Definition is_trivial_target (t : option target) : bool :=
  match t with None => true | Some (TName _ _) => true | _ => false end.
Definition count_nontrivial (cases : list tcase) : nat :=
  count_true (map (fun c : tcase => let '(_, t, _, _, _) := c in negb (is_trivial_target t)) cases).

(* kind "raw": any instruction window (stdlib targets outside the AST, other interpreters):
   decompiler model vs real result only *)
Definition rcase := (list insn * dres)%type.
Definition rcase_ok (c : rcase) : bool := dres_eqb (describe (fst c)) (snd c).
Definition rmismatches (cases : list rcase) : list nat := false_indices 0 (map rcase_ok cases).
Definition rcount_nontrivial (cases : list rcase) : nat :=
  count_true (map (fun c : rcase =>
     match fst c with [] => false | IPopTop :: _ => false | IStoreName KFast _ :: _ => false | _ => true end) cases).

(* ------------------------------------------------------------------ locals fallback *)
(* _contexts_active_by_trickery: locals_by_id[id(value)] = name for every local in f_locals order
   (later names overwrite), then varname := locals_by_id.get(id(obj)) where varname is None. *)
Fixpoint last_bound (locals : list (string * nat)) (obj : nat) : option string :=
  match locals with
  | [] => None
  | (n, v) :: r =>
      match last_bound r obj with
      | Some m => Some m
      | None => if Nat.eqb v obj then Some n else None
      end
  end.

Definition final_varname (described : dres) (locals : list (string * nat)) (obj : nat) : option string :=
  match described with
  | DSome s => Some s
  | _ => last_bound locals obj
  end.

(* kind "fb": a context of a suspended frame: (static description of the item, locals with object
   identities, identity of the manager, Context.varname reported by stackscope.extract) *)
Definition fcase := (dres * list (string * nat) * nat * option string)%type.
(* compared at the level of the property (which local is named is not prescribed; None is allowed
   when nothing could be reconstructed): a reconstructed target must be reported as such, any
   other name must be a local bound to the manager *)
Definition fcase_ok (c : fcase) : bool :=
  let '(d, locals, obj, obs) := c in
  match d with
  | DSome s => option_eqb String.eqb obs (Some s)
  | DNone =>
      match obs with
      | None => true
      | Some n => existsb (fun p => String.eqb (fst p) n && Nat.eqb (snd p) obj) locals
      end
  | DFuel => false
  end.
(* the model's own choice (last bound local) is one of the accepted answers *)
Definition fcase_exact (c : fcase) : bool :=
  let '(d, locals, obj, obs) := c in option_eqb String.eqb (final_varname d locals obj) obs.
Definition fmismatches (cases : list fcase) : list nat := false_indices 0 (map fcase_ok cases).
Definition fcount_nontrivial (cases : list fcase) : nat :=
  count_true (map (fun c : fcase => let '(d, _, _, obs) := c in
     match d, obs with DSome _, _ => false | _, Some _ => true | _, None => false end) cases).
