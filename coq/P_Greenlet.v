(* P_Greenlet.v -- reference statements per lifecycle state and proofs about M_Greenlet. *)
From Coq Require Import ZArith String Lia.
Require Import Base M_Slice P_Slice M_Greenlet.

(* unstarted or dead: no frames, no error *)
Lemma inactive_empty w g : g_frame g = None -> g_active g = false -> unwrap_greenlet w g = GEmpty.
Proof. intros H1 H2. unfold unwrap_greenlet. rewrite H1, H2. reflexivity. Qed.

(* running, but not the greenlet that asks (i.e. running in another thread): an error *)
Lemma elsewhere_raises w g :
  g_frame g = None -> g_active g = true -> g_current g = false -> unwrap_greenlet w g = GRaise.
Proof. intros H1 H2 H3. unfold unwrap_greenlet. rewrite H1, H2, H3. reflexivity. Qed.

(* ---- walking to the end of a chain *)
Lemma last_default (r : list nat) a b : r <> [] -> last r a = last r b.
Proof.
  induction r as [|y r IH]; intros H; [congruence|]. destruct r as [|z r]; [reflexivity|].
  change (last (y :: z :: r) a) with (last (z :: r) a). change (last (y :: z :: r) b) with (last (z :: r) b).
  apply IH. discriminate.
Qed.

Lemma last_cons (y : nat) r cur : last (y :: r) cur = last r y.
Proof. destruct r as [|z r]; [reflexivity|]. change (last (y :: z :: r) cur) with (last (z :: r) cur). apply last_default. discriminate. Qed.

Lemma walk_to_none_last cur rest : walk_to None cur rest = last rest cur.
Proof.
  revert cur. induction rest as [|y r IH]; intros cur; [reflexivity|].
  simpl walk_to. rewrite IH. symmetry. apply last_cons.
Qed.

Lemma walk_to_notin stop cur rest :
  (forall x, stop = Some x -> ~ In x rest) -> walk_to stop cur rest = last rest cur.
Proof.
  revert cur. induction rest as [|y r IH]; intros cur H; simpl; [reflexivity|].
  destruct stop as [s|]; simpl.
  - destruct (y =? s) eqn:E.
    + apply Nat.eqb_eq in E. subst. exfalso. apply (H s eq_refl). left. reflexivity.
    + rewrite IH; [symmetry; apply last_cons|]. intros x Hx HI. apply (H x Hx). right. exact HI.
  - rewrite IH; [symmetry; apply last_cons|]. intros x Hx. discriminate.
Qed.

Lemma take_until_cons x y l :
  take_until x (y :: l) = if x =? y then Some [y] else option_map (cons y) (take_until x l).
Proof. reflexivity. Qed.

Lemma last_In (z : nat) l d : In (last (z :: l) d) (z :: l).
Proof.
  revert z. induction l as [|a l IH]; intros z; [left; reflexivity|].
  change (last (z :: a :: l) d) with (last (a :: l) d). right. apply IH.
Qed.

Lemma take_until_last l d : NoDup l -> l <> [] -> take_until (last l d) l = Some l.
Proof.
  induction l as [|y l IH]; intros ND Hne; [congruence|].
  inversion ND as [|? ? Hn Hd]; subst.
  destruct l as [|z l].
  - simpl. rewrite Nat.eqb_refl. reflexivity.
  - change (last (y :: z :: l) d) with (last (z :: l) d).
    rewrite take_until_cons.
    destruct (last (z :: l) d =? y) eqn:E.
    + apply Nat.eqb_eq in E. exfalso. apply Hn. rewrite <- E. apply last_In.
    + rewrite IH; [reflexivity|exact Hd|discriminate].
Qed.

Lemma hd_tl_last (l : list nat) x : hd_error l = Some x -> last (tl l) x = last l x.
Proof. destruct l as [|y l]; simpl hd_error; [discriminate|]. intros [= ->]. simpl tl. symmetry. apply last_cons. Qed.

(* a suspended greenlet that is NOT an ancestor of the asker (outside, sibling, other thread):
   exactly its own frames, entry function first, switch point last *)
Lemma suspended_foreign w g fr :
  g_frame g = Some fr ->
  NoDup (chain_from w fr) -> hd_error (chain_from w fr) = Some fr ->
  ~ In fr (thread_frames w) ->
  (has_parent w = true -> true_caller w <> None) ->
  unwrap_greenlet w g = GSlice (SFrames (rev (chain_from w fr))).
Proof.
  intros Hf ND Hhd Hnot Htc. unfold unwrap_greenlet. rewrite Hf.
  rewrite walk_to_none_last. rewrite (hd_tl_last _ _ Hhd).
  set (ch := chain_from w fr) in *.
  assert (Hne : ch <> []) by (intros E; rewrite E in Hhd; discriminate).
  unfold unwrap_stackslice. simpl s_outer. simpl s_inner. simpl s_limit.
  assert (Hgb : greenlet_branch w (Some (last ch fr)) (Some fr) = []).
  { unfold greenlet_branch.
    destruct (option_eqb Nat.eqb (hd_error (thread_frames w)) (Some fr)) eqn:E.
    - apply hd_eqb_true in E. exfalso. apply Hnot.
      destruct (index_of_Some _ _ _ E) as [Hn _]. eapply nth_error_In; eauto.
    - destruct (index_of fr (thread_frames w)) eqn:E2; [|reflexivity].
      exfalso. apply Hnot. destruct (index_of_Some _ _ _ E2) as [Hn _]. eapply nth_error_In; eauto. }
  destruct (has_parent w) eqn:Ea.
  - destruct (true_caller w) eqn:Et; [|exfalso; apply Htc; auto].
    simpl. rewrite Hgb. simpl. fold ch. unfold try_chain. rewrite (take_until_last ch fr ND Hne).
    destruct (rev ch) eqn:Er.
    + exfalso. apply Hne. apply (f_equal (@rev nat)) in Er. rewrite rev_involutive in Er. exact Er.
    + simpl. reflexivity.
  - simpl. fold ch. unfold try_chain. rewrite (take_until_last ch fr ND Hne).
    destruct (rev ch) eqn:Er.
    + exfalso. apply Hne. apply (f_equal (@rev nat)) in Er. rewrite rev_involutive in Er. exact Er.
    + simpl. reflexivity.
Qed.

(* ---- positions of the ends of a segment *)
Lemma index_of_cons x y l :
  index_of x (y :: l) = if x =? y then Some 0 else option_map S (index_of x l).
Proof. reflexivity. Qed.

Lemma index_of_last_app l P d :
  NoDup (l ++ P) -> l <> [] -> index_of (last l d) (l ++ P) = Some (length l - 1).
Proof.
  induction l as [|y l IH]; intros ND Hne; [congruence|].
  destruct l as [|z l].
  - simpl. rewrite Nat.eqb_refl. reflexivity.
  - change (last (y :: z :: l) d) with (last (z :: l) d).
    inversion ND as [|? ? Hn Hd]; subst.
    change ((y :: z :: l) ++ P) with (y :: (z :: l) ++ P). rewrite index_of_cons.
    destruct (last (z :: l) d =? y) eqn:E.
    + apply Nat.eqb_eq in E. exfalso. apply Hn. rewrite <- E.
      change (z :: l ++ P) with ((z :: l) ++ P). apply in_or_app. left. apply last_In.
    + rewrite IH; [|exact Hd|discriminate].
      simpl. f_equal. lia.
Qed.

Lemma pos_slice_segment A p B :
  p <> [] ->
  pos_slice (A ++ p ++ B) (length A + length p - 1) (length A) = rev p.
Proof.
  intros Hne. unfold pos_slice.
  assert (Hl : 1 <= length p) by (destruct p; simpl; [congruence|lia]).
  replace (S (length A + length p - 1)) with (length A + length p) by lia.
  rewrite app_assoc. rewrite firstn_app. rewrite app_length.
  replace (length A + length p - (length A + length p)) with 0 by lia. simpl firstn at 2.
  rewrite app_nil_r. rewrite firstn_all2 by (rewrite app_length; lia).
  rewrite skipn_app. rewrite skipn_all. rewrite Nat.sub_diag. reflexivity.
Qed.

(* the greenlet that asks about itself: exactly its own portion of the running stack *)
Lemma current_own w g tc :
  wf w -> g_frame g = None -> g_active g = true -> g_current g = true ->
  true_caller w = Some tc ->
  (forall x, g_parent g = Some (Some x) -> ~ In x (caller_chain w)) ->
  (g_parent g = None -> w_parents w = []) ->
  unwrap_greenlet w g = GSlice (SFrames (rev (caller_chain w))).
Proof.
  intros Hwf Hf Ha Hc Htc Hpar Hmain. unfold unwrap_greenlet. rewrite Hf, Ha, Hc, Htc. simpl negb. cbv iota.
  pose proof Hwf as ND. unfold wf in ND. pose proof (wf_nodup_thread w ND) as NDT.
  assert (Hcc : exists l, caller_chain w = tc :: l).
  { unfold true_caller in Htc. destruct (caller_chain w) as [|y l]; simpl in Htc; [discriminate|].
    injection Htc as ->. eauto. }
  destruct Hcc as [l Hcc].
  assert (Hb0 : index_of tc (caller_chain w) = Some 0) by (rewrite Hcc; simpl; rewrite Nat.eqb_refl; reflexivity).
  rewrite (chain_from_cur w tc 0 ND Hb0). simpl skipn.
  assert (HT : thread_frames w = [] ++ caller_chain w ++ concat (w_parents w)) by reflexivity.
  assert (Hne : caller_chain w <> []) by (rewrite Hcc; discriminate).
  assert (Htcnz : true_caller w <> None) by congruence.
  f_equal.
  destruct (g_parent g) as [pf|] eqn:Ep.
  - assert (Hw : walk_to pf tc (tl (caller_chain w)) = last (caller_chain w) tc).
    { rewrite walk_to_notin.
      - apply hd_tl_last. rewrite Hcc. reflexivity.
      - intros x -> HI. apply (Hpar x eq_refl). rewrite Hcc in *. right. exact HI. }
    rewrite Hw.
    assert (Hia : index_of (last (caller_chain w) tc) (thread_frames w) = Some (length (caller_chain w) - 1)).
    { apply index_of_last_app; assumption. }
    assert (Hib : index_of tc (thread_frames w) = Some 0) by (apply true_caller_hd; exact Htc).
    assert (Hle : 0 <= length (caller_chain w) - 1) by lia.
    rewrite (slice_exact w _ _ None Hwf Htcnz).
    + unfold true_stack, keep_limit.
      rewrite (between_pos (thread_frames w) (Some (last (caller_chain w) tc)) (Some tc) _ 0 NDT Hia Hib Hle).
      rewrite HT. replace (length (caller_chain w) - 1) with (length (@nil nat) + length (caller_chain w) - 1) by (simpl; lia).
      f_equal. apply (pos_slice_segment [] (caller_chain w) _ Hne).
    + simpl. unfold true_stack. rewrite <- in_rev.
      destruct (index_of_Some _ _ _ Hia) as [Hn _]. eapply nth_error_In; eauto.
    + simpl. unfold true_stack. rewrite <- in_rev.
      destruct (index_of_Some _ _ _ Hib) as [Hn _]. eapply nth_error_In; eauto.
    + simpl. unfold true_stack. rewrite <- (rev_firstn_from_anchor _ _ _ NDT Hia).
      rewrite <- in_rev. unfold thread_frames. rewrite Hcc. simpl. left. reflexivity.
    + exact I.
  - rewrite (slice_exact w None (Some tc) None Hwf Htcnz I).
    + unfold true_stack, keep_limit.
      assert (Hib : index_of tc (thread_frames w) = Some 0) by (apply true_caller_hd; exact Htc).
      rewrite (between_pos _ None (Some tc) (length (thread_frames w)) 0 NDT eq_refl Hib) by lia.
      unfold pos_slice. rewrite firstn_all2 by lia. simpl skipn.
      unfold thread_frames. rewrite (Hmain eq_refl). simpl. rewrite app_nil_r. reflexivity.
    + simpl. unfold true_stack. rewrite <- in_rev. unfold thread_frames. rewrite Hcc. left. reflexivity.
    + exact I.
    + exact I.
Qed.

(* a suspended ANCESTOR of the asker (asked from a child / descendant; finding F8 before the fix):
   its chain p is a contiguous segment of the asker's thread frames, and still exactly p is
   returned -- not the frames of the greenlets further out *)
Lemma suspended_ancestor w g fr A p B :
  wf w -> true_caller w <> None ->
  g_frame g = Some fr -> chain_from w fr = p -> hd_error p = Some fr ->
  thread_frames w = A ++ p ++ B ->
  unwrap_greenlet w g = GSlice (SFrames (rev p)).
Proof.
  intros Hwf Htc Hf Hch Hhd HT. unfold unwrap_greenlet. rewrite Hf, Hch.
  rewrite walk_to_none_last. rewrite (hd_tl_last _ _ Hhd).
  pose proof Hwf as ND. unfold wf in ND. pose proof (wf_nodup_thread w ND) as NDT.
  assert (Hne : p <> []) by (intros E; rewrite E in Hhd; discriminate).
  assert (Hl : 1 <= length p) by (destruct p; simpl; [congruence|lia]).
  rewrite HT in NDT.
  assert (NDp : NoDup (p ++ B)) by (apply NoDup_app_r in NDT; exact NDT).
  assert (Hfrp : In fr p) by (destruct p as [|y q]; simpl in Hhd; [discriminate|injection Hhd as ->; left; reflexivity]).
  assert (HnA : forall x, In x p -> ~ In x A).
  { intros x Hx HA. apply (NoDup_app_disj _ _ x NDT HA). apply in_or_app. left. exact Hx. }
  assert (Hib : index_of fr (thread_frames w) = Some (length A)).
  { rewrite HT. rewrite index_of_app_notin' by (apply HnA; exact Hfrp).
    destruct p as [|y q]; simpl in Hhd; [discriminate|]. injection Hhd as ->. simpl. rewrite Nat.eqb_refl.
    simpl. f_equal. lia. }
  assert (Hia : index_of (last p fr) (thread_frames w) = Some (length A + length p - 1)).
  { rewrite HT. rewrite index_of_app_notin'.
    - rewrite (index_of_last_app p B fr NDp Hne). simpl. f_equal. lia.
    - apply HnA. destruct p as [|y q]; [congruence|]. apply last_In. }
  rewrite <- HT in NDT.
  f_equal.
  rewrite (slice_exact w (Some (last p fr)) (Some fr) None Hwf Htc).
  - unfold true_stack, keep_limit.
    rewrite (between_pos (thread_frames w) (Some (last p fr)) (Some fr) _ _ NDT Hia Hib) by lia.
    rewrite HT. f_equal. apply pos_slice_segment. exact Hne.
  - simpl. unfold true_stack. rewrite <- in_rev.
    destruct (index_of_Some _ _ _ Hia) as [Hn _]. eapply nth_error_In; eauto.
  - simpl. unfold true_stack. rewrite <- in_rev.
    destruct (index_of_Some _ _ _ Hib) as [Hn _]. eapply nth_error_In; eauto.
  - simpl. unfold true_stack. rewrite <- (rev_firstn_from_anchor _ _ _ NDT Hia).
    rewrite <- in_rev. rewrite HT.
    replace (S (length A + length p - 1)) with (length A + length p) by lia.
    rewrite app_assoc. rewrite firstn_app. apply in_or_app. left.
    rewrite firstn_all2 by (rewrite app_length; lia). apply in_or_app. right. exact Hfrp.
  - exact I.
Qed.

(* non-trivial instance: greenlet tree main > g1 > g2 (asker, running); g1 is asked from its child
   g2; a parked sibling [21;20]; the answers are the greenlets' own frames *)
Definition wg : world :=
  {| w_cur := [Build_cframe 50 "stackscope._glue" false; Build_cframe 51 "functools" true;
               Build_cframe 52 "stackscope._extract" false; Build_cframe 6 "app" false; Build_cframe 5 "app" false];
     w_parents := [[4; 3]; [2; 1; 0]];
     w_threads := [(true, [])]; w_chains := [[21; 20]] |}.

Example wg_examples :
  wf wg
  /\ unwrap_greenlet wg {| g_frame := Some 4; g_active := true; g_current := false; g_parent := Some (Some 2) |}
     = GSlice (SFrames [3; 4])
  /\ unwrap_greenlet wg {| g_frame := Some 21; g_active := true; g_current := false; g_parent := Some (Some 2) |}
     = GSlice (SFrames [20; 21])
  /\ unwrap_greenlet wg {| g_frame := None; g_active := true; g_current := true; g_parent := Some (Some 4) |}
     = GSlice (SFrames [5; 6])
  /\ thread_frames wg = [6; 5] ++ [4; 3] ++ [2; 1; 0] /\ chain_from wg 4 = [4; 3].
Proof.
  split.
  { unfold wf. vm_compute. repeat (constructor; [simpl; intuition discriminate|]). constructor. }
  repeat split; vm_compute; reflexivity.
Qed.

(* ---- the two "by construction" facts, from well-formedness alone *)
Lemma suffix_from_hd x c : hd_error c = Some x -> suffix_from x c = Some c.
Proof. destruct c as [|y t]; simpl; [discriminate|]. intros [= ->]. rewrite Nat.eqb_refl. reflexivity. Qed.

Lemma in_concat_of {A} (c : list A) cs x : In c cs -> In x c -> In x (concat cs).
Proof. intros H1 H2. apply in_concat. exists c. auto. Qed.

Lemma find_chain_whole cs c x :
  NoDup (concat cs) -> In c cs -> hd_error c = Some x -> find_chain x cs = c.
Proof.
  induction cs as [|c0 r IH]; intros ND Hin Hhd; [destruct Hin|].
  simpl in ND. simpl.
  assert (Hxc : In x c) by (destruct c; simpl in Hhd; [discriminate|injection Hhd as ->; left; reflexivity]).
  destruct (In_dec_nat x c0) as [H0|H0].
  - (* x in c0: by NoDup c must be c0 itself *)
    destruct Hin as [->|Hin]; [rewrite (suffix_from_hd _ _ Hhd); reflexivity|].
    exfalso. apply (NoDup_app_disj _ _ x ND H0). eapply in_concat_of; eauto.
  - rewrite (suffix_from_none _ _ H0).
    destruct Hin as [->|Hin]; [contradiction|].
    apply IH; [eapply NoDup_app_r; eauto|exact Hin|exact Hhd].
Qed.

Lemma parent_chain_from w p fr :
  wf w -> In p (w_parents w) -> hd_error p = Some fr -> chain_from w fr = p.
Proof.
  intros ND Hin Hhd. unfold chain_from. apply find_chain_whole; [exact ND| |exact Hhd].
  unfold all_chains. right. apply in_or_app. left. exact Hin.
Qed.

Lemma parent_segment w p :
  In p (w_parents w) -> exists A B, thread_frames w = A ++ p ++ B.
Proof.
  intros Hin. destruct (in_split _ _ Hin) as [l1 [l2 E]].
  exists (caller_chain w ++ concat l1), (concat l2).
  unfold thread_frames. rewrite E. rewrite concat_app. simpl. rewrite <- !app_assoc. reflexivity.
Qed.

(* a suspended ancestor of the asker = a greenlet whose gr_frame heads one of the asker's parent
   chains: exactly that chain, on wf alone *)
Lemma suspended_ancestor_wf w g fr p :
  wf w -> true_caller w <> None ->
  g_frame g = Some fr -> In p (w_parents w) -> hd_error p = Some fr ->
  unwrap_greenlet w g = GSlice (SFrames (rev p)).
Proof.
  intros Hwf Htc Hf Hin Hhd.
  destruct (parent_segment w p Hin) as [A [B HT]].
  exact (suspended_ancestor w g fr A p B Hwf Htc Hf (parent_chain_from w p fr Hwf Hin Hhd) Hhd HT).
Qed.
