(* M_Chain.v — C03: suspended await / yield-from chains as an *instance* of M_Frames.

   A chain is the linked structure that the built-in unwrap_stackitem rules of
   stackscope/_glue.py (glue_builtins) walk: generator-like objects (coroutine, generator,
   async generator) holding an optional frame and the thing they are waiting on
   (cr_await / gi_yieldfrom / ag_await), coroutine_wrapper objects (`coro.__await__()`),
   async_generator_asend / async_generator_athrow awaitables, and non-frame leaves.

   [chain_cfg] compiles a chain into an M_Frames.cfg (object ids = positions along the chain,
   unwrap table = the built-in rules, every other hook at its default), so that what is
   evaluated by the generated cases — and what the theorems of P_Chain.v / C03.v are about —
   is M_Frames.extract itself, the same function the C10 correspondence evaluates.

   Definitions only (model, reference specification, case comparison); proofs in P_Chain.v. *)
Require Import Base M_Frames.

Inductive gkind := KCoro | KGen | KAGen.

Inductive chain :=
  | Nil                                   (* None: cr_await / gi_yieldfrom / ag_await is None *)
  | Leaf                                  (* an object no unwrap rule applies to (plain iterator, ...) *)
  | Link (k : gkind) (fr : option nat) (running : bool) (next : chain)
                                          (* fr = None: cr_frame is None (exhausted / closed) *)
  | CoroWrapper (t : chain)               (* coroutine_wrapper; t = what gc.get_referents shows *)
  | ASend (a : chain)                     (* async_generator_asend (asend / __anext__) *)
  | AThrow (a : chain).                   (* async_generator_athrow (athrow / aclose) *)

Definition child (ch : chain) : chain :=
  match ch with
  | Link _ _ _ n => n
  | CoroWrapper t | ASend t | AThrow t => t
  | Nil | Leaf => Nil
  end.

(* the object at position i of the chain (root = position 0) *)
Fixpoint node_at (ch : chain) (i : nat) : chain :=
  match i with 0 => ch | S j => node_at (child ch) j end.

Definition is_nil (ch : chain) : bool := match ch with Nil => true | _ => false end.
Definition is_coro (ch : chain) : bool := match ch with Link KCoro _ _ _ => true | _ => false end.
Definition is_agen (ch : chain) : bool := match ch with Link KAGen _ _ _ => true | _ => false end.

(* the test each built-in rule applies before answering StackSlice(outer=frame):
   gi_running / cr_running / `ag_running and ag_await is None` *)
Definition treated_running (k : gkind) (running : bool) (next : chain) : bool :=
  match k with KAGen => running && is_nil next | _ => running end.

Definition child_item (next : chain) (o : nat) : option item :=
  if is_nil next then None else Some (IObj o).

(* unwrap_stackitem for the object [n] sitting at position [o].  [sl o] = the frames that
   StackSlice(outer=frame of o) resolves to when o is running (that resolution is C04's
   subject; the intermediate StackSlice object is collapsed here). *)
Definition urule (sl : nat -> list nat) (n : chain) (o : nat) : ures :=
  match n with
  | Link k fr r next =>
      if treated_running k r next then USeq (map (fun f => Some (IPy f)) (sl o))
      else USeq [option_map IPy fr; child_item next (S o)]     (* (xx_frame, xx_await) *)
  | CoroWrapper t => if is_coro t then UOne (IObj (S o)) else URaise   (* hasattr(referent, "cr_frame") *)
  | ASend a | AThrow a => if is_agen a then UOne (IObj (S o)) else URaise  (* hasattr(referent, "ag_frame") *)
  | Leaf | Nil => UNone
  end.

Definition cattr (n : chain) : oattr :=
  match n with
  | Link _ fr _ _ => {| wref := true; gent := true; ownf := fr |}
  | Leaf => {| wref := true; gent := false; ownf := None |}
  | _ => {| wref := false; gent := false; ownf := None |}   (* wrappers / asend / athrow: no weakrefs *)
  end.

(* general form: arbitrary context tables (for the with_contexts theorem) *)
Definition chain_cfg_gen (ch : chain) (sl : nat -> list nat) (cx : nat -> cres) (fl : nat -> fres)
           (wc : bool) (g : guards) (ug : nat) : cfg :=
  {| unwrap := fun o => urule sl (node_at ch o) o;
     elab := fun _ => ENone;
     prehide := fun _ => false;
     attr := fun o => cattr (node_at ch o);
     ctxs := cx; fill := fl;
     fault := fun _ => false;
     with_ctx := wc; grd := g; uguard := ug |}.

Definition chain_cfg (ch : chain) (sl : nat -> list nat) (wc : bool) (g : guards) (ug : nat) : cfg :=
  chain_cfg_gen ch sl (fun _ => CtxOk []) (fun _ => FillOk []) wc g ug.

Definition chain_root : item := IObj 0.

(* extract(x) for the chain rooted at x *)
Definition chain_extract (ch : chain) (sl : list (nat * list nat)) (wc : bool) : outcome :=
  extract (chain_cfg ch (lookup [] sl) wc all_guards 100) chain_root.

(* ---------------- reference specification (written from the property text) ----------------
   The frames an exception thrown into x unwinds through are the frames of the generator-like
   objects met by following the await / yield-from links from x, outermost first; wrappers and
   asend/athrow awaitables own no frame; a link without a frame (exhausted) contributes
   nothing and ends the path; the leaf is the non-frame object that ends the chain, if any. *)
Fixpoint ref_path (ch : chain) (pos : nat) : list (nat * nat) :=      (* (frame, owning object) *)
  match ch with
  | Link _ (Some f) _ next => (f, pos) :: ref_path next (S pos)
  | Link _ None _ _ => []
  | CoroWrapper t | ASend t | AThrow t => ref_path t (S pos)
  | Nil | Leaf => []
  end.

Fixpoint ref_leaf (ch : chain) (pos : nat) : leaf :=
  match ch with
  | Leaf => LOne (QObj pos)
  | Nil => LNone
  | Link _ (Some _) _ next => ref_leaf next (S pos)
  | Link _ None _ _ => LNone
  | CoroWrapper t | ASend t | AThrow t => ref_leaf t (S pos)
  end.

Definition ref_frames (ch : chain) : list nat := map fst (ref_path ch 0).

Definition ref_stack (ch : chain) : stack :=
  Stack (map (fun fp => FOut (fst fp) false (Some (snd fp)) []) (ref_path ch 0)) (ref_leaf ch 0) [].

(* "suspended" as the domain knows it: a coroutine / generator is suspended iff it is not
   running; an async generator blocked in an await has ag_running = True (3.8+) and
   ag_await <> None, one parked at a yield has ag_running = False. *)
Definition suspended (k : gkind) (running : bool) (next : chain) : bool :=
  match k with
  | KAGen => negb running || negb (is_nil next)
  | _ => negb running
  end.

(* well-formed chain of suspended links: an exhausted object awaits nothing and is not
   running; a coroutine_wrapper refers to a coroutine, asend/athrow to an async generator *)
Fixpoint wf_susp (ch : chain) : bool :=
  match ch with
  | Nil | Leaf => true
  | Link k (Some _) r next => suspended k r next && wf_susp next
  | Link _ None r next => negb r && is_nil next
  | CoroWrapper t => is_coro t && wf_susp t
  | ASend a | AThrow a => is_agen a && wf_susp a
  end.

Fixpoint chain_len (ch : chain) : nat :=
  match ch with
  | Nil => 0
  | Leaf => 1
  | Link _ _ _ n => S (chain_len n)
  | CoroWrapper t | ASend t | AThrow t => S (chain_len t)
  end.

(* ---------------- generated cases ---------------- *)
(* chain, slices of running links, what extract(x, with_contexts=True) and
   extract(x, with_contexts=False) returned (contexts themselves are not compared: C01),
   frames of the traceback of a probe exception thrown into the same object (if taken) *)
Definition ccase := (chain * list (nat * list nat) * outcome * outcome * option (list nat))%type.

Definition ccase_ok (k : ccase) : bool :=
  let '(ch, sl, obs1, obs0, tb) := k in
  outcome_eqb (chain_extract ch sl true) obs1
  && outcome_eqb (chain_extract ch sl false) obs0
  && match tb with
     | Some l => list_eqb Nat.eqb (ref_frames ch) l
     | None => true
     end.

Definition mismatches (cases : list ccase) : list nat := false_indices 0 (map ccase_ok cases).

(* non-trivial: the chain has at least two objects, or ends in a leaf, or has an exhausted /
   running link (a rule other than "one suspended frame, nothing awaited") *)
Fixpoint has_special (ch : chain) : bool :=
  match ch with
  | Nil => false
  | Leaf => true
  | Link _ None _ _ => true
  | Link _ (Some _) r n => r || has_special n
  | CoroWrapper _ | ASend _ | AThrow _ => true
  end.
Definition count_nontrivial (cases : list ccase) : nat :=
  count_true (map (fun k : ccase => let '(ch, _, _, _, _) := k in (2 <=? chain_len ch) || has_special ch) cases).
