(* M_Dispatch.v — executable model of stackscope._code_dispatch (get_code, IdentityDict,
   code_dispatch) and stackscope._customization.customize, hand-written from the source.
   Definitions only; proofs live in P_Dispatch.v so the model still runs if a proof breaks.

   Abstraction.
   * A code object is a tree [MkCode id name consts]: [id] is the object's identity (what
     Python's id() distinguishes while the object is alive), [name] its co_name, [consts] its
     co_consts in order, [None] standing for any constant that is not a code object.
     Two code objects compiled from the same source are equal trees up to the [id]s.
   * A callable "tower" is what get_code is handed: plain function, functools.partial,
     bound method (types.MethodType), classmethod / staticmethod objects, a function carrying
     __wrapped__ (functools.wraps), a bare code object, or anything else.
   * [has_wrapped]/[wrapped_of] describe hasattr(x, "__wrapped__") / x.__wrapped__ on CPython
     >= 3.10: functions set it through functools.wraps, classmethod/staticmethod objects always
     have it, a bound method forwards unknown attributes to its __func__.
   * IdentityDict is an insertion-ordered association list keyed by identity; the key objects
     themselves carry an equality that is coarser than identity.
   * The elaborate_frame registry is an IdentityDict from code objects to hooks; [walk] is the
     part of extract() that is needed to observe a hook's effect on a linear chain of frames. *)
From Coq Require Import String.
Require Import Base.

(* ------------------------------------------------------------------ code objects, towers *)
Inductive code := MkCode (cid : nat) (cname : string) (consts : list (option code)).
Definition code_id (c : code) : nat := match c with MkCode i _ _ => i end.
Definition code_name (c : code) : string := match c with MkCode _ n _ => n end.
Definition code_consts (c : code) : list (option code) := match c with MkCode _ _ l => l end.

Inductive tower :=
  | TFn (c : code)                       (* types.FunctionType with __code__ = c, no __wrapped__ *)
  | TPartial (f : tower)                 (* functools.partial(f, ...) *)
  | TMethod (f : tower)                  (* types.MethodType(f, obj) *)
  | TClassM (f : tower)                  (* classmethod(f) *)
  | TStaticM (f : tower)                 (* staticmethod(f) *)
  | TWrapped (outer : code) (inner : tower)   (* function with code outer and __wrapped__ = inner *)
  | TCode (c : code)                     (* a code object *)
  | TOther.                              (* anything else without __wrapped__ *)

Inductive gerr := ETypeError | EValueError (idx : nat) | EOutOfFuel.
Inductive gres := GOk (c : code) | GErr (e : gerr).

Fixpoint has_wrapped (t : tower) : bool :=
  match t with
  | TWrapped _ _ | TClassM _ | TStaticM _ => true
  | TMethod f => has_wrapped f
  | _ => false
  end.

Fixpoint wrapped_of (t : tower) : tower :=
  match t with
  | TWrapped _ i => i
  | TClassM f | TStaticM f => f
  | TMethod f => wrapped_of f
  | _ => t
  end.

(* inspect.unwrap: f = func; while hasattr(f, "__wrapped__"): f = f.__wrapped__ *)
Fixpoint unwrap_chain (fuel : nat) (t : tower) : option tower :=
  match fuel with
  | 0 => None
  | S n => if has_wrapped t then unwrap_chain n (wrapped_of t) else Some t
  end.

(* the `while True` loop of get_code; None = out of fuel *)
Fixpoint peel (fuel : nat) (t : tower) : option tower :=
  match fuel with
  | 0 => None
  | S n =>
      match t with
      | TPartial f => peel n f
      | TMethod f | TClassM f | TStaticM f => peel n f
      | _ => if has_wrapped t
             then match unwrap_chain fuel t with Some u => peel n u | None => None end
             else Some t
      end
  end.

Definition code_of (t : tower) : gres :=
  match t with TFn c => GOk c | TCode c => GOk c | _ => GErr ETypeError end.

(* for const in code.co_consts: if isinstance(const, CodeType) and const.co_name == name *)
Fixpoint find_named (name : string) (consts : list (option code)) : option code :=
  match consts with
  | [] => None
  | Some c :: r => if String.eqb (code_name c) name then Some c else find_named name r
  | None :: r => find_named name r
  end.

Fixpoint walk_names (idx : nat) (c : code) (names : list string) : gres :=
  match names with
  | [] => GOk c
  | n :: r => match find_named n (code_consts c) with
              | Some c' => walk_names (S idx) c' r
              | None => GErr (EValueError idx)
              end
  end.

Definition get_code_fuel (fuel : nat) (t : tower) (names : list string) : gres :=
  match peel fuel t with
  | None => GErr EOutOfFuel
  | Some u => match code_of u with GOk c => walk_names 0 c names | GErr e => GErr e end
  end.

Fixpoint tower_size (t : tower) : nat :=
  match t with
  | TPartial f | TMethod f | TClassM f | TStaticM f => S (tower_size f)
  | TWrapped _ i => S (tower_size i)
  | _ => 1
  end.

(* the function the correspondence evaluates: fuel is derived from the input *)
Definition get_code (t : tower) (names : list string) : gres :=
  get_code_fuel (S (tower_size t)) t names.

(* ------------------------------------------------------------------ IdentityDict *)
Section IDict.
  Context {K V : Type}.
  Variable kid : K -> nat.                  (* id(key) *)
  Definition idict := list (nat * (K * V)). (* self._data, in insertion order *)

  Fixpoint d_find (d : idict) (i : nat) : option (K * V) :=
    match d with
    | [] => None
    | (j, kv) :: r => if i =? j then Some kv else d_find r i
    end.
  (* dict.__setitem__: an existing slot keeps its position *)
  Fixpoint d_set (d : idict) (i : nat) (kv : K * V) : idict :=
    match d with
    | [] => [(i, kv)]
    | (j, kv') :: r => if i =? j then (j, kv) :: r else (j, kv') :: d_set r i kv
    end.
  Fixpoint d_remove (d : idict) (i : nat) : idict :=
    match d with
    | [] => []
    | (j, kv) :: r => if i =? j then r else (j, kv) :: d_remove r i
    end.

  Definition id_init (items : list (K * V)) : idict :=
    fold_left (fun d kv => d_set d (kid (fst kv)) kv) items [].
  Definition id_getitem (d : idict) (k : K) : option V := option_map snd (d_find d (kid k)).
  Definition id_setitem (d : idict) (k : K) (v : V) : idict := d_set d (kid k) (k, v).
  (* None = KeyError, dict unchanged *)
  Definition id_delitem (d : idict) (k : K) : option idict :=
    match d_find d (kid k) with Some _ => Some (d_remove d (kid k)) | None => None end.
  Definition id_pop (d : idict) (k : K) : option (idict * V) :=
    match d_find d (kid k) with Some kv => Some (d_remove d (kid k), snd kv) | None => None end.
  Definition id_popitem (d : idict) : option (idict * (K * V)) :=
    match rev d with (_, kv) :: r => Some (rev r, kv) | [] => None end.
  Definition id_setdefault (d : idict) (k : K) (v : V) : idict * V :=
    match d_find d (kid k) with Some kv => (d, snd kv) | None => (d ++ [(kid k, (k, v))], v) end.
  Definition id_len (d : idict) : nat := length d.
  Definition id_iter (d : idict) : list K := map (fun e => fst (snd e)) d.
  Definition id_items (d : idict) : list (K * V) := map snd d.
  Definition id_update (d : idict) (items : list (K * V)) : idict :=
    fold_left (fun d kv => id_setitem d (fst kv) (snd kv)) items d.
  (* self._data == other._data : same ids, equal (key, value) tuples; the keys under one id
     are the same object, so only the values are compared *)
  Definition id_eq (veq : V -> V -> bool) (d e : idict) : bool :=
    (length d =? length e) &&
    forallb (fun x => match d_find e (fst x) with
                      | Some kv => veq (snd (snd x)) (snd kv) | None => false end) d.
End IDict.
Arguments idict : clear implicits.

(* --- operation sequences on an IdentityDict whose keys are (identity, equality class) *)
Record key := Key { k_id : nat; k_cls : nat }.
Inductive iop :=
  | OInit (items : list (key * nat))
  | OSet (k : key) (v : nat) | OGet (k : key) | ODel (k : key)
  | OPop (k : key) | OPopD (k : key) (dflt : nat) | OPopItem | OClear
  | OSetDefault (k : key) (v : nat) | OLen | OIter | OContains (k : key)
  | OGetD (k : key) (dflt : nat) | OItems | OUpdate (items : list (key * nat))
  | OEqNew (items : list (key * nat)).
Inductive iobs :=
  | BNone | BVal (v : nat) | BKeyErr | BLen (n : nat) | BKeys (l : list (nat * nat))
  | BItems (l : list (nat * nat * nat)) | BBool (b : bool) | BItem (i c v : nat).

Definition kdict := idict key nat.
Definition key_pair (k : key) : nat * nat := (k_id k, k_cls k).
Definition item_triple (kv : key * nat) : nat * nat * nat := (k_id (fst kv), k_cls (fst kv), snd kv).

Definition istep (d : kdict) (o : iop) : kdict * iobs :=
  match o with
  | OInit items => (id_init k_id items, BNone)
  | OSet k v => (id_setitem k_id d k v, BNone)
  | OGet k => (d, match id_getitem k_id d k with Some v => BVal v | None => BKeyErr end)
  | ODel k => match id_delitem k_id d k with Some d' => (d', BNone) | None => (d, BKeyErr) end
  | OPop k => match id_pop k_id d k with Some (d', v) => (d', BVal v) | None => (d, BKeyErr) end
  | OPopD k df => match id_pop k_id d k with Some (d', v) => (d', BVal v) | None => (d, BVal df) end
  | OPopItem => match id_popitem d with
                | Some (d', kv) => (d', BItem (k_id (fst kv)) (k_cls (fst kv)) (snd kv))
                | None => (d, BKeyErr) end
  | OClear => ([], BNone)
  | OSetDefault k v => let '(d', r) := id_setdefault k_id d k v in (d', BVal r)
  | OLen => (d, BLen (id_len d))
  | OIter => (d, BKeys (map key_pair (id_iter d)))
  | OContains k => (d, BBool (match id_getitem k_id d k with Some _ => true | None => false end))
  | OGetD k df => (d, BVal (match id_getitem k_id d k with Some v => v | None => df end))
  | OItems => (d, BItems (map item_triple (id_items d)))
  | OUpdate items => (id_update k_id d items, BNone)
  | OEqNew items => (d, BBool (id_eq Nat.eqb d (id_init k_id items)))
  end.

Fixpoint irun (d : kdict) (ops : list iop) : kdict * list iobs :=
  match ops with
  | [] => (d, [])
  | o :: r => let '(d1, b) := istep d o in let '(d2, bs) := irun d1 r in (d2, b :: bs)
  end.

(* ------------------------------------------------------------------ code_dispatch registry *)
Section Registry.
  Context {H : Type}.
  Definition registry := idict code H.
  Inductive rres := ROk | RErr (e : gerr).
  (* register(target, *names, func): actual_code = get_code(...); registry[actual_code] = func *)
  Definition register (r : registry) (t : tower) (names : list string) (h : H) : registry * rres :=
    match get_code t names with
    | GOk c => (id_setitem code_id r c h, ROk)
    | GErr e => (r, RErr e)
    end.
  (* dispatch(arg): registry[code] or, on KeyError, the default implementation (None) *)
  Definition dispatch (r : registry) (c : nat) : option H :=
    option_map snd (d_find r c).
  Fixpoint register_all (r : registry) (l : list (tower * list string * H)) : registry * list rres :=
    match l with
    | [] => (r, [])
    | (t, ns, h) :: rest =>
        let '(r1, x) := register r t ns h in
        let '(r2, xs) := register_all r1 rest in (r2, x :: xs)
    end.
End Registry.
Arguments registry : clear implicits.

(* ------------------------------------------------------------------ customize *)
(* a python frame as far as elaborate_frame hooks care: the identity of the code it runs, its
   co_name, and whether __tracebackhide__ is among its locals *)
Record frame := Frame { f_code : nat; f_name : string; f_tbhide : bool }.

(* an `elaborate` callable: not given; or a function (tag identifies it in the call log)
   returning None or a replacement item that unwraps to the given chain of frames
   ([] is PRUNE = ()) *)
Inductive elab := ENo | ERet (tag : nat) (r : option (list frame)).
Record opts := Opts { o_hide : bool; o_hide_line : bool; o_prune : bool; o_elab : elab }.
Inductive form := Direct | Decorator.

(* what sits in elaborate_frame.registry: a customize_it closure over its options, or a
   function registered directly with elaborate_frame.register *)
Inductive hook := HCustom (o : opts) | HPlain (tag : nat) (r : option (list frame)).

(* customize(target=None, **kw) returns functools.partial(customize, **kw'): the keyword
   arguments the partial carries *)
Definition partial_kwargs (o : opts) : opts :=
  Opts (o_hide o) (o_hide_line o) (o_prune o) (o_elab o).

Definition customize_direct (r : registry hook) (t : tower) (names : list string) (o : opts)
  : registry hook * rres := register r t names (HCustom o).

Definition customize (f : form) (r : registry hook) (t : tower) (names : list string) (o : opts)
  : registry hook * rres :=
  match f with
  | Direct => customize_direct r t names o
  | Decorator => customize_direct r t names (partial_kwargs o)
  end.

(* outcome of one elaborate_frame(frame, next_inner) call *)
Record oframe := OFrame { of_name : string; of_hide : bool; of_hide_line : bool }.
Definition call := (nat * string * option string)%type.   (* (tag, frame, next_inner) *)
Inductive eret := XNone | XRepl (l : list frame).          (* XRepl [] = PRUNE *)

Definition run_hook (h : option hook) (fr : frame) (next : option string)
  : oframe * eret * list call :=
  match h with
  | None =>                     (* default implementation *)
      (OFrame (f_name fr) (f_tbhide fr) false, XNone, [])
  | Some (HPlain tag r) =>
      (OFrame (f_name fr) false false,
       match r with Some l => XRepl l | None => XNone end, [(tag, f_name fr, next)])
  | Some (HCustom o) =>
      let fo := OFrame (f_name fr) (o_hide o) (o_hide_line o) in
      let dflt := if o_prune o then XRepl [] else XNone in
      match o_elab o with
      | ENo => (fo, dflt, [])
      | ERet tag None => (fo, dflt, [(tag, f_name fr, next)])
      | ERet tag (Some l) => (fo, XRepl l, [(tag, f_name fr, next)])
      end
  end.

Inductive wres := WOk (frames : list oframe) (calls : list call) | WOutOfFuel.

Definition wcons (x : oframe) (cs : list call) (w : wres) : wres :=
  match w with WOk fs cs' => WOk (x :: fs) (cs ++ cs') | WOutOfFuel => WOutOfFuel end.

(* extract() on a linear chain of frames (each one the only callee of the previous one);
   [repl] continues with the frames a replacement item unwraps to *)
Fixpoint walk_with (repl : list frame -> wres) (r : registry hook) (st : list frame) : wres :=
  match st with
  | [] => WOk [] []
  | fr :: rest =>
      let next := match rest with n :: _ => Some (f_name n) | [] => None end in
      let '(fo, x, cs) := run_hook (dispatch r (f_code fr)) fr next in
      match x with
      | XNone => wcons fo cs (walk_with repl r rest)
      | XRepl l => wcons fo cs (repl l)
      end
  end.

(* fuel bounds the nesting of replacements only *)
Fixpoint walk (fuel : nat) (r : registry hook) (st : list frame) : wres :=
  walk_with (match fuel with 0 => fun _ => WOutOfFuel | S n => walk n r end) r st.

(* ------------------------------------------------------------------ correspondence cases *)
(* observed errors: the exception class, and the failing position when the message names it *)
Inductive oerr := OTypeError | OValueError (idx : option nat).
Inductive orres := OROk | ORErr (e : oerr).
Definition gerr_matches (e : gerr) (o : oerr) : bool :=
  match e, o with
  | ETypeError, OTypeError => true
  | EValueError _, OValueError None => true
  | EValueError i, OValueError (Some j) => i =? j
  | _, _ => false
  end.
Definition rres_matches (a : rres) (b : orres) : bool :=
  match a, b with ROk, OROk => true | RErr x, ORErr y => gerr_matches x y | _, _ => false end.
Fixpoint list_matches {A B} (m : A -> B -> bool) (a : list A) (b : list B) : bool :=
  match a, b with
  | [], [] => true
  | x :: a', y :: b' => m x y && list_matches m a' b'
  | _, _ => false
  end.

(* kind "main": get_code(tower, *names) *)
Inductive gobs := PCode (id : nat) | PErr (e : oerr) | POther.
Definition gcase := (tower * list string * bool * gobs)%type.
Definition gobs_ok (r : gres) (o : gobs) : bool :=
  match r, o with
  | GOk c, PCode i => code_id c =? i
  | GErr e, PErr e' => gerr_matches e e'
  | _, _ => false
  end.
Definition gcase_ok (k : gcase) : bool :=
  let '(t, names, hw, o) := k in gobs_ok (get_code t names) o && Bool.eqb (has_wrapped t) hw.
Definition mismatches (cases : list gcase) : list nat := false_indices 0 (map gcase_ok cases).
Definition gcase_nontrivial (k : gcase) : bool :=
  let '(t, names, _, _) := k in (1 <? tower_size t) || negb (length names =? 0).
Definition count_nontrivial (cases : list gcase) : nat := count_true (map gcase_nontrivial cases).

(* kind "idict": an operation sequence on a fresh IdentityDict *)
Definition nat2_eqb (a b : nat * nat) : bool := (fst a =? fst b) && (snd a =? snd b).
Definition nat3_eqb (a b : nat * nat * nat) : bool := nat2_eqb (fst a) (fst b) && (snd a =? snd b).
Definition iobs_eqb (a b : iobs) : bool :=
  match a, b with
  | BNone, BNone => true
  | BVal x, BVal y => x =? y
  | BKeyErr, BKeyErr => true
  | BLen x, BLen y => x =? y
  | BKeys x, BKeys y => list_eqb nat2_eqb x y
  | BItems x, BItems y => list_eqb nat3_eqb x y
  | BBool x, BBool y => Bool.eqb x y
  | BItem a1 a2 a3, BItem b1 b2 b3 => (a1 =? b1) && (a2 =? b2) && (a3 =? b3)
  | _, _ => false
  end.
Definition icase := (list iop * list iobs)%type.
Definition icase_ok (k : icase) : bool := list_eqb iobs_eqb (snd (irun [] (fst k))) (snd k).
Definition imismatches (cases : list icase) : list nat := false_indices 0 (map icase_ok cases).
Definition icount_nontrivial (cases : list icase) : nat :=
  count_true (map (fun k : icase => 1 <? length (fst k)) cases).

(* kind "registry": registrations on a code_dispatch function, then dispatch queries *)
Definition rcase := (list (tower * list string * nat) * list nat * list orres * list (option nat))%type.
Definition rcase_ok (k : rcase) : bool :=
  let '(regs, queries, ores, odisp) := k in
  let '(r, res) := register_all [] regs in
  list_matches rres_matches res ores &&
  list_eqb (option_eqb Nat.eqb) (map (dispatch r) queries) odisp.
Definition rmismatches (cases : list rcase) : list nat := false_indices 0 (map rcase_ok cases).
Definition rcount_nontrivial (cases : list rcase) : nat :=
  count_true (map (fun k : rcase => let '(regs, _, _, _) := k in 1 <? length regs) cases).

(* kind "customize": customize()/elaborate_frame.register calls, then extract() of a chain *)
Inductive cop :=
  | CCust (f : form) (t : tower) (names : list string) (o : opts)
  | CReg (t : tower) (names : list string) (tag : nat) (r : option (list frame)).
Fixpoint apply_cops (r : registry hook) (l : list cop) : registry hook * list rres :=
  match l with
  | [] => (r, [])
  | o :: rest =>
      let '(r1, x) := match o with
                      | CCust f t ns op => customize f r t ns op
                      | CReg t ns tag rp => register r t ns (HPlain tag rp)
                      end in
      let '(r2, xs) := apply_cops r1 rest in (r2, x :: xs)
  end.
Definition oframe_eqb (a b : oframe) : bool :=
  String.eqb (of_name a) (of_name b) && Bool.eqb (of_hide a) (of_hide b)
  && Bool.eqb (of_hide_line a) (of_hide_line b).
Definition call_eqb (a b : call) : bool :=
  let '(t1, f1, n1) := a in let '(t2, f2, n2) := b in
  (t1 =? t2) && String.eqb f1 f2 && option_eqb String.eqb n1 n2.
Definition wres_eqb (a b : wres) : bool :=
  match a, b with
  | WOk f1 c1, WOk f2 c2 => list_eqb oframe_eqb f1 f2 && list_eqb call_eqb c1 c2
  | _, _ => false
  end.
Definition ccase := (list cop * list frame * list orres * wres)%type.
Definition walk_depth : nat := 8.
Definition ccase_ok (k : ccase) : bool :=
  let '(ops, st, ores, ow) := k in
  let '(r, res) := apply_cops [] ops in
  list_matches rres_matches res ores && wres_eqb (walk walk_depth r st) ow.
Definition cmismatches (cases : list ccase) : list nat := false_indices 0 (map ccase_ok cases).
Definition ccount_nontrivial (cases : list ccase) : nat :=
  count_true (map (fun k : ccase => let '(ops, _, _, _) := k in negb (length ops =? 0)) cases).
