(* P_Frames_Origin.v — lemmas and proofs for C16 (Frame.origin, extract_outermost), about the
   functions of M_Frames.v that the case files evaluate ([extract], [outermost], [run], [flatten],
   [better_origin], [frame_origin]). *)
Require Import Base M_Frames M_Frames_Fault P_Frames_Fault.

(* ------------------------------------------------------------------------------------- *)
(* 1. extract_outermost x = first frame of extract x                                       *)

Definition head_result (o : outcome) : oresult :=
  match o with
  | Ok (Stack (f :: _) _ _) => OFrame f
  | Ok (Stack [] _ es) => ORaise es
  | Raised e => OEscaped e
  | OutOfFuel => OFuel
  end.

Lemma outermost_is_head_result c root :
  outermost c root = head_result (fst (run default_fuel true c (root_q c root) [] [] [] 0)).
Proof.
  unfold outermost, head_result.
  generalize (run default_fuel true c (root_q c root) [] [] [] 0). intros [o t]. cbn [fst].
  destruct o as [[[|x fr] lf es]|e|]; reflexivity.
Qed.

(* the abandoned iterator (first = true) and the full run agree on the first yielded frame, and
   are the same run if no frame is ever yielded *)
Lemma run_first_head fuel : forall c tu te errs t frs lf es t2,
  run fuel false c tu te errs [] t = (Ok (Stack frs lf es), t2) ->
  head_result (fst (run fuel true c tu te errs [] t)) =
  match frs with f :: _ => OFrame f | [] => ORaise es end.
Proof.
  destruct fuel as [|fuel]; intros c tu te errs t frs lf es t2 H; [discriminate|].
  cbn [run] in H. cbn [run].
  destruct (flatten (S fuel) 0 c tu (rev te) errs t) as [te1 errs1 t1|e1|] eqn:Efl; try discriminate.
  destruct te1 as [|[q d] rest].
  { inversion H; subst. reflexivity. }
  destruct q; try (inversion H; subst; reflexivity).
  set (runner := fun k t => run fuel false c [(better_origin c (q_of k) None, q_of k, 0)] [] [] [] t) in *.
  destruct (ctx_step c runner f errs1 t1) as [[[cx errs2] t2'] ob] eqn:Ecx.
  destruct ob as [bad|].
  { inversion H; subst. exfalso. eapply ctx_step_bad_not_ok; eauto. }
  destruct (elab_step c f errs2 t2') as [[[[r errs3] hide] t3] oe] eqn:Eel.
  destruct oe as [e3|]; [discriminate|].
  assert (Hk : forall tu' te', run fuel false c tu' te' errs3 [FOut f hide org cx] t3 = (Ok (Stack frs lf es), t2) ->
               head_result (fst (Ok (Stack (rev [FOut f hide org cx]) LNone (rev errs3)), t3)) =
               match frs with f0 :: _ => OFrame f0 | [] => ORaise es end).
  { intros tu' te' E. apply run_keeps in E. destruct E as [[nf ->] _]. reflexivity. }
  destruct r as [|l|[i| |]|]; try (eapply Hk; eassumption).
  destruct (next_of rest) as [[| | |]|]; eapply Hk; eassumption.
Qed.

Lemma outermost_eq_head c root s :
  extract c root = Ok s ->
  outermost c root = match s_frames s with f :: _ => OFrame f | [] => ORaise (s_errs s) end.
Proof.
  rewrite outermost_is_head_result. unfold extract, extract_t.
  generalize (run_first_head default_fuel c (root_q c root) [] [] 0).
  generalize (run default_fuel true c (root_q c root) [] [] [] 0).
  generalize (run default_fuel false c (root_q c root) [] [] [] 0).
  intros [o t2] r1 G H. cbn [fst] in H. subst o. destruct s as [frs lf es].
  rewrite (G frs lf es t2 eq_refl). reflexivity.
Qed.

(* ------------------------------------------------------------------------------------- *)
(* 2. a non-None origin is always a generator-like object whose own frame is that frame     *)

Definition org_ok (c : cfg) (f : nat) (org : option nat) : Prop :=
  match org with Some o => gent (attr c o) = true /\ ownf (attr c o) = Some f | None => True end.
Definition qok (c : cfg) (q : qitem) : Prop := match q with QFr f org => org_ok c f org | _ => True end.
Definition fok (c : cfg) (x : fout) : Prop := match x with FOut f _ org _ => org_ok c f org end.
Definition tuok (c : cfg) (e : qent) : Prop := qok c (snd (fst e)).
Definition teok (c : cfg) (e : tent) : Prop := qok c (fst e).

Lemma frame_origin_ok c org f : org_ok c f (frame_origin c org f).
Proof.
  unfold frame_origin. destruct org as [o|]; [|exact I].
  destruct (gent (attr c o)) eqn:G; [|exact I]. simpl.
  destruct (option_eqb Nat.eqb (ownf (attr c o)) (Some f)) eqn:E; [|exact I].
  split; [assumption|]. apply (option_eqb_eq Nat.eqb); [|assumption].
  intros x y. apply Nat.eqb_eq.
Qed.

Lemma q_of_ok c i : qok c (q_of i).
Proof. destruct i; exact I. Qed.

Lemma pushed_ok c (g : item -> option nat) d l :
  Forall (tuok c) (map (fun i => (g i, q_of i, d)) l).
Proof. induction l; simpl; constructor; auto. apply q_of_ok. Qed.

Lemma flatten_ok fuel : forall cnt c tu te errs t te' errs' t',
  Forall (tuok c) tu -> Forall (teok c) te ->
  flatten fuel cnt c tu te errs t = FlOk te' errs' t' -> Forall (teok c) te'.
Proof.
  induction fuel as [|fuel IH]; intros cnt c tu te errs t te' errs' t' Htu Hte H; simpl in H; [discriminate|].
  destruct tu as [|[[org cur] d] tu'].
  { inversion H; subst. apply Forall_rev. assumption. }
  inversion Htu as [|x l Hx Htu']; subst.
  assert (Leaf : forall q, qok c q -> Forall (teok c) ((q, d) :: te)) by (intros; constructor; assumption).
  assert (Push : forall g l, Forall (tuok c) (map (fun i => (g i, q_of i, S d)) l ++ tu'))
    by (intros; apply Forall_app; split; [apply pushed_ok|assumption]).
  destruct cur.
  - (eapply IH; [| |eassumption]; [exact Htu'|apply Leaf; exact (frame_origin_ok c org f)]).
  - (eapply IH; [| |eassumption]; [exact Htu'|apply Leaf; exact Hx]).
  - destruct (g_unwrap (grd c)), (g_iter (grd c));
    (destruct (fault c t); [try discriminate; try ((eapply IH; [| |eassumption]; [exact Htu'|apply Leaf; exact I]))|]);
    (destruct (unwrap c o) eqn:Eu;
     try (destruct (uguard c <? S cnt));
     try discriminate;
     try ((eapply IH; [| |eassumption]; [exact Htu'|apply Leaf; exact I]));
     try ((eapply IH; [| |eassumption]; [constructor; [exact (q_of_ok c _)|exact Htu']|exact Hte]));
     try ((eapply IH; [| |eassumption]; [apply Push|exact Hte])));
    try (match type of H with context [iter_steps c o ?l ?r ?tt] => destruct (iter_steps c o l r tt) as [[k er] t2] end; destruct er);
    try discriminate;
    (eapply IH; [| |eassumption]; [apply Push|exact Hte]).
  - destruct (g_unwrap (grd c));
    (destruct (fault c t); [try discriminate; try ((eapply IH; [| |eassumption]; [exact Htu'|apply Leaf; exact I]))|]);
    destruct (uguard c <? S cnt);
    try discriminate;
    (eapply IH; [| |eassumption]; [exact Htu'|apply Leaf; exact I]).
Qed.

Lemma dropge_ok c d q : Forall (tuok c) q -> Forall (tuok c) (dropge d q).
Proof.
  induction q as [|[[o i] d'] q IH]; simpl; intros H; [constructor|].
  destruct (d <=? d'); [apply IH; inversion H; assumption|assumption].
Qed.

Lemma redepth_ok c d q : Forall (tuok c) q -> Forall (tuok c) (redepth d q).
Proof.
  destruct q as [|[[o i] d'] q]; simpl; intros H; [constructor|].
  inversion H; subst. constructor; assumption.
Qed.

Lemma requeue_ok c rest : Forall (teok c) rest -> Forall (tuok c) (requeue rest).
Proof. unfold requeue. induction 1; simpl; constructor; auto. Qed.

Lemma conc_ok c next r : match next with Some q => qok c q | None => True end -> qok c (conc next r).
Proof. destruct r as [i| |]; simpl; intros H; [apply q_of_ok|destruct next; [assumption|exact I]|exact I]. Qed.

Lemma mk_ok c next d l : match next with Some q => qok c q | None => True end ->
  Forall (tuok c) (map (fun q => (better_origin c q None, q, d)) (map (conc next) l)).
Proof. intros H. induction l; simpl; constructor; auto. apply conc_ok; assumption. Qed.

Lemma run_ok fuel : forall first c tu te errs out t frs lf es t',
  Forall (tuok c) tu -> Forall (teok c) te -> Forall (fok c) out ->
  run fuel first c tu te errs out t = (Ok (Stack frs lf es), t') -> Forall (fok c) frs.
Proof.
  induction fuel as [|fuel IH]; intros first c tu te errs out t frs lf es t' Htu Hte Hout H; [discriminate|].
  cbn [run] in H.
  destruct (flatten (S fuel) 0 c tu (rev te) errs t) as [te1 errs1 t1|e1|] eqn:Efl; try discriminate.
  apply flatten_ok in Efl; [|assumption|apply Forall_rev; assumption].
  assert (Hleaf : forall lf0 es0 t0, (Ok (Stack (rev out) lf0 es0), t0) = (Ok (Stack frs lf es), t') -> Forall (fok c) frs).
  { intros lf0 es0 t0 E. inversion E; subst. apply Forall_rev. assumption. }
  destruct te1 as [|[q d] rest]; [eapply Hleaf; eassumption|].
  inversion Efl as [|x l Hq Hrest]; subst.
  destruct q; try (eapply Hleaf; eassumption).
  set (runner := fun k t => run fuel false c [(better_origin c (q_of k) None, q_of k, 0)] [] [] [] t) in H.
  destruct (ctx_step c runner f errs1 t1) as [[[cx errs2] t2] ob] eqn:Ecx.
  destruct ob as [bad|].
  { inversion H; subst. exfalso. eapply ctx_step_bad_not_ok; eauto. }
  destruct (elab_step c f errs2 t2) as [[[[r errs3] hide] t3] oe] eqn:Eel.
  destruct oe as [e3|]; [discriminate|].
  assert (Hout' : Forall (fok c) (FOut f hide org cx :: out)) by (constructor; assumption).
  assert (Hnext : match next_of rest with Some q => qok c q | None => True end).
  { destruct rest as [|[q0 d0] rest']; simpl; [exact I|]. inversion Hrest; assumption. }
  assert (Hrq : Forall (tuok c) (requeue rest)) by (apply requeue_ok; assumption).
  destruct first.
  { inversion H; subst. apply (Forall_rev Hout'). }
  assert (Hgen : forall l, run fuel false c
            (if ends_with_next (next_of rest) l
             then map (fun q => (better_origin c q None, q, d)) (map (conc (next_of rest)) (removelast l)) ++ redepth d (requeue rest)
             else map (fun q => (better_origin c q None, q, d)) (map (conc (next_of rest)) l) ++ dropge d (requeue rest))
            [] errs3 (FOut f hide org cx :: out) t3 = (Ok (Stack frs lf es), t') -> Forall (fok c) frs).
  { intros l E. eapply IH; [| | |exact E]; [|constructor|assumption].
    destruct (ends_with_next (next_of rest) l); apply Forall_app; split;
      [apply mk_ok; assumption|apply redepth_ok; assumption|apply mk_ok; assumption|apply dropge_ok; assumption]. }
  destruct r as [|l|[i| |]|].
  - eapply IH; [constructor|exact Hrest|exact Hout'|eassumption].
  - eapply Hgen; eassumption.
  - eapply (Hgen [RItem i]); eassumption.
  - destruct (next_of rest) as [[| | |]|];
      first [eapply IH; [constructor|exact Hrest|exact Hout'|eassumption]
            | eapply IH; [apply redepth_ok; exact Hrq|constructor|exact Hout'|eassumption]].
  - eapply IH; [constructor|exact Hrest|exact Hout'|eassumption].
  - eapply (Hgen []); eassumption.
Qed.

Lemma extract_origin_ok c root s fo o :
  extract c root = Ok s -> In fo (s_frames s) -> f_org fo = Some o ->
  gent (attr c o) = true /\ ownf (attr c o) = Some (f_py fo).
Proof.
  unfold extract, extract_t.
  generalize (run_ok default_fuel false c (root_q c root) [] [] [] 0).
  generalize (run default_fuel false c (root_q c root) [] [] [] 0).
  intros [r t'] G H. cbn [fst] in H. subst r. destruct s as [frs lf es]. simpl.
  intros Hin Ho.
  assert (F : Forall (fok c) frs).
  { eapply G; [| | |reflexivity]; [|constructor|constructor].
    unfold root_q. constructor; [|constructor]. unfold tuok. simpl. apply q_of_ok. }
  rewrite Forall_forall in F. specialize (F fo Hin). destruct fo as [f h org cx]. simpl in *. subst org. exact F.
Qed.

(* ------------------------------------------------------------------------------------- *)
(* 3. looking inside a suspended generator-like object; recovering a frame from its origin  *)

(* what the built-in glue guarantees for coroutine / generator / async-generator objects:
   they are weak-referenceable and unwrap to (own frame, thing awaited) *)
Definition gen_wf (c : cfg) : Prop :=
  forall o f, gent (attr c o) = true -> ownf (attr c o) = Some f ->
    wref (attr c o) = true /\ exists rest, unwrap c o = USeq (Some (IPy f) :: rest).

Lemma better_origin_gen c o fb : wref (attr c o) = true -> gent (attr c o) = true ->
  better_origin c (QObj o) fb = Some o.
Proof. intros W G. unfold better_origin. rewrite W, G. reflexivity. Qed.

Lemma frame_origin_own c o f : gent (attr c o) = true -> ownf (attr c o) = Some f ->
  frame_origin c (Some o) f = Some o.
Proof. intros G O. unfold frame_origin. rewrite G, O. simpl. rewrite Nat.eqb_refl. reflexivity. Qed.

(* one look inside: the object's own frame is queued for elaboration with the object as origin,
   and what it awaits is unwrapped next *)
Lemma flatten_look_inside fuel cnt c o f rest d tu te errs t :
  gent (attr c o) = true -> ownf (attr c o) = Some f -> unwrap c o = USeq (Some (IPy f) :: rest) ->
  fault c t = false -> (uguard c <? S cnt) = false ->
  flatten (S (S fuel)) cnt c ((Some o, QObj o, d) :: tu) te errs t =
  flatten fuel 0 c (map (fun i => (better_origin c (q_of i) (Some o), q_of i, S d)) (somes rest) ++ tu)
          ((QFr f (Some o), S d) :: te) errs (S t).
Proof.
  intros G O U F L. cbn [flatten]. rewrite F, U, L. cbn [somes map app q_of better_origin].
  rewrite (frame_origin_own c o f G O). reflexivity.
Qed.

Lemma flatten_te_prefix fuel : forall cnt c tu te errs t te' errs' t',
  flatten fuel cnt c tu te errs t = FlOk te' errs' t' -> exists more, te' = rev te ++ more.
Proof.
  induction fuel as [|fuel IH]; intros cnt c tu te errs t te' errs' t' H; simpl in H; [discriminate|].
  destruct tu as [|[[org cur] d] tu'].
  { inversion H; subst. exists []. symmetry. apply app_nil_r. }
  assert (Leaf : forall q cnt0 errs0 t0, flatten fuel cnt0 c tu' ((q, d) :: te) errs0 t0 = FlOk te' errs' t' ->
                 exists more, te' = rev te ++ more).
  { intros q cnt0 errs0 t0 E. apply IH in E. destruct E as [more ->]. exists ((q, d) :: more).
    simpl. rewrite <- app_assoc. reflexivity. }
  destruct cur; try (eapply Leaf; eassumption).
  - destruct (g_unwrap (grd c)), (g_iter (grd c));
    (destruct (fault c t); [try discriminate; try (eapply Leaf; eassumption)|]);
    (destruct (unwrap c o) eqn:Eu;
     try (destruct (uguard c <? S cnt));
     try discriminate;
     try (eapply Leaf; eassumption);
     try (eapply IH; eassumption));
    try (match type of H with context [iter_steps c o ?l ?r ?tt] => destruct (iter_steps c o l r tt) as [[k er] t2] end; destruct er);
    try discriminate;
    eapply IH; eassumption.
  - destruct (g_unwrap (grd c));
    (destruct (fault c t); [try discriminate; try (eapply Leaf; eassumption)|]);
    destruct (uguard c <? S cnt);
    try discriminate;
    eapply Leaf; eassumption.
Qed.

Lemma run_recover fuel c o f :
  gen_wf c -> gent (attr c o) = true -> ownf (attr c o) = Some f ->
  fault c 0 = false -> 1 <= uguard c ->
  match head_result (fst (run (S (S fuel)) true c (root_q c (IObj o)) [] [] [] 0)) with
  | OFrame fo' => f_py fo' = f /\ f_org fo' = Some o
  | ORaise _ => False
  | _ => True
  end.
Proof.
  intros W G O F L. destruct (W o f G O) as [Wr [rest U]].
  unfold root_q. cbn [q_of]. rewrite (better_origin_gen c o None Wr G).
  remember (S fuel) as fuel1 eqn:Ef1.
  cbn [run rev].
  assert (L' : (uguard c <? 1) = false) by (apply Nat.ltb_ge; assumption).
  destruct (flatten (S fuel1) 0 c [(Some o, QObj o, 0)] [] [] 0) as [te1 errs1 t1|e1|] eqn:Efl; [|exact I|exact I].
  rewrite Ef1 in Efl.
  rewrite (flatten_look_inside fuel 0 c o f rest 0 [] [] [] 0 G O U F L') in Efl.
  apply flatten_te_prefix in Efl. destruct Efl as [more ->]. cbn [rev app].
  match goal with |- context [ctx_step c ?r f errs1 t1] => destruct (ctx_step c r f errs1 t1) as [[[cx errs2] t2] ob] eqn:Ecx end.
  destruct ob as [bad|].
  { cbn [fst]. destruct bad as [s0| |]; [|exact I|exact I]. exfalso. eapply ctx_step_bad_not_ok; eauto. }
  destruct (elab_step c f errs2 t2) as [[[[r errs3] hide] t3] oe]. destruct oe; [exact I|].
  cbn. split; reflexivity.
Qed.

Lemma outermost_recover c o f :
  gen_wf c -> gent (attr c o) = true -> ownf (attr c o) = Some f ->
  fault c 0 = false -> 1 <= uguard c ->
  match outermost c (IObj o) with
  | OFrame fo' => f_py fo' = f /\ f_org fo' = Some o
  | ORaise _ => False
  | _ => True
  end.
Proof.
  intros W G O F L. rewrite outermost_is_head_result.
  change default_fuel with (S (S 3998)). apply run_recover; assumption.
Qed.

(* the origin contract: a non-None origin of a frame of extract(root) identifies an object from
   which extract_outermost gives back that very frame (with that origin), for any fault set [fl]
   of the second call that does not hit its first hook invocation *)
Lemma origin_recovers c root s fo o fl :
  gen_wf c -> 1 <= uguard c -> fl 0 = false ->
  extract c root = Ok s -> In fo (s_frames s) -> f_org fo = Some o ->
  match outermost (with_faults c fl) (IObj o) with
  | OFrame fo' => f_py fo' = f_py fo /\ f_org fo' = Some o
  | ORaise _ => False
  | _ => True
  end.
Proof.
  intros W L F E Hin Ho. destruct (extract_origin_ok c root s fo o E Hin Ho) as [G O].
  apply outermost_recover; assumption.
Qed.

Lemma look_inside_origin : forall fuel cnt c o f rest d tu te errs t fb,
  wref (attr c o) = true -> gent (attr c o) = true -> ownf (attr c o) = Some f ->
  unwrap c o = USeq (Some (IPy f) :: rest) ->
  fault c t = false -> (uguard c <? S cnt) = false ->
  better_origin c (QObj o) fb = Some o /\
  flatten (S (S fuel)) cnt c ((Some o, QObj o, d) :: tu) te errs t =
  flatten fuel 0 c (map (fun i => (better_origin c (q_of i) (Some o), q_of i, S d)) (somes rest) ++ tu)
          ((QFr f (Some o), S d) :: te) errs (S t).
Proof.
  intros fuel cnt c o f rest d tu te errs t fb W G O U F L.
  exact (conj (better_origin_gen c o fb W G) (flatten_look_inside fuel cnt c o f rest d tu te errs t G O U F L)).
Qed.

(* ------------------------------------------------------------------------------------- *)
(* 4. the entry points over the thread-local option cell (M_Frames_Ambient): re-entrant     *)
(*    calls use their own arguments, whatever extraction is in progress around them         *)
Require Import M_Frames_Ambient.

Lemma set_wc_id c : set_wc c (with_ctx c) = c.
Proof. destruct c. reflexivity. Qed.

Lemma api_ambient_independent cell arg c root :
  api_extract cell arg c root = (extract (set_wc c (fst arg)) root, cell) /\
  api_outermost cell arg c root = (outermost (set_wc c (fst arg)) root, cell).
Proof.
  destruct arg as [w r]. unfold api_extract, api_outermost, push, iter_under. cbn [fst].
  rewrite outermost_is_head_result. unfold extract, extract_t.
  change (root_q (set_wc c w) root) with (root_q c root).
  generalize (run default_fuel false (set_wc c w) (root_q c root) [] [] [] 0).
  generalize (run default_fuel true (set_wc c w) (root_q c root) [] [] [] 0).
  intros p1 p2. split; reflexivity.
Qed.

Lemma api_outermost_eq_head cell arg c root s :
  fst (api_extract cell arg c root) = Ok s ->
  fst (api_outermost cell arg c root) = match s_frames s with f :: _ => OFrame f | [] => ORaise (s_errs s) end
  /\ snd (api_outermost cell arg c root) = cell /\ snd (api_extract cell arg c root) = cell
  /\ fst (api_outermost cell arg c root) = fst (api_outermost None arg c root).
Proof.
  destruct (api_ambient_independent cell arg c root) as [E O].
  destruct (api_ambient_independent None arg c root) as [_ O0].
  rewrite E, O, O0. cbn [fst snd]. intros H. repeat split. apply outermost_eq_head. exact H.
Qed.
