(* C14 — Trio: the extracted tree is isomorphic to the real task tree, across thread hops.
   Property theorems only (definitions: M_TaskTree.v, specification and proofs: P_TaskTree.v). *)
Require Import Base M_TaskTree P_TaskTree.
From SS.gen Require Import SrcFacts.

(* For ALL task trees whose frames are hop-free (plain / hidden / trap frames, nothing opening a
   nursery after the trap) and whose per-frame contexts agree with Trio's own tables
   nurs_of = task.child_nurseries, kids_of = nursery.child_tasks (the analysis is exact):
   extract(task, recurse_child_tasks=True) is isomorphic to Trio's tree — every task stack
   shows exactly its open nurseries, each once, in nesting order, each with exactly its child
   tasks matched by root and in order, each child extracted recursively.  Holds whether the
   task is suspended or is the running caller. *)
Theorem C14_iso : forall nurs_of kids_of run t,
  wf_task nurs_of kids_of t -> iso nurs_of kids_of (extract true (RTask run t)).
Proof. exact iso_extract. Qed.
Print Assumptions C14_iso.

Example C14_iso_hyp : wf_task (tlookup ex_nurs) (tlookup ex_kids) ex_tree.
Proof. exact ex_tree_wf. Qed.

(* recurse_child_tasks=False: same nurseries, and every child is a frameless stub that carries
   only the root of the corresponding child task ... *)
Theorem C14_stub : forall nurs_of kids_of run t,
  wf_task nurs_of kids_of t -> iso_stub nurs_of kids_of (extract false (RTask run t)).
Proof. exact stub_extract. Qed.
Print Assumptions C14_stub.

(* ... at every depth, for EVERY world (any frame kinds, any nesting of thread hops, task or
   thread root): no context of any frame of the result has a child with frames. *)
Theorem C14_stub_everywhere : forall r, stubs_only (extract false r).
Proof. exact stubs_extract. Qed.
Print Assumptions C14_stub_everywhere.

(* Thread hops, all alternation depths: for every ping-pong world (task segments and thread
   segments nested through to_thread.run_sync / from_thread.run to any depth, observed from
   outside or from inside the innermost serving task, rooted at a task or at a foreign thread)
   outside the shape of finding F14, the frames of extract() are exactly [splice]: the worker
   thread's frames in place of the wait, a thread inside from_thread.run continued into the
   task serving it. *)
Theorem C14_hops_n : forall rc r,
  (match r with
   | RTask _ t => pp_task (task_frames t) && f14_free (task_frames t)
   | RThread _ fs => pp_thread false fs && f14_free fs
   end) = true ->
  match extract rc r with Stack _ fs => ids fs = splice r end.
Proof. exact hops_extract. Qed.
Print Assumptions C14_hops_n.

(* the same, unfolded for the explicit chains of n alternations (l lists, from the outside in,
   whether each from_thread.run re-enters the host task or is served by a system task) *)
Theorem C14_pingpong_n : forall l b rc inc, no_f14 l = true ->
  ids (frames_of rc inc (pingpong l b)) = pingpong_ids l b.
Proof. exact hops_pingpong. Qed.
Print Assumptions C14_pingpong_n.

Example C14_hops_hyp :
  no_f14 [true; true; false; false] = true /\
  pp_task (pingpong [true; true; false; false] 0) && f14_free (pingpong [true; true; false; false] 0) = true /\
  pp_thread false (fl [P 100; Frame 101 (KFromSys true (Task 7 (pingpong [false; false] 0))) CNil; P 102]) &&
  f14_free (fl [P 100; Frame 101 (KFromSys true (Task 7 (pingpong [false; false] 0))) CNil; P 102]) = true.
Proof. exact ex_chain_ok. Qed.

(* known finding F14: the excluded shape really fails — a token hop whose serving task goes on
   with a host re-entry is well-formed, but the model (= the code) stops at the token hop
   instead of continuing into the serving task *)
Theorem C14_F14_refuted : exists l,
  no_f14 l = false /\ pp_task (pingpong l 0) = true /\
  ids (frames_of true true (pingpong l 0)) <> splice_task (pingpong l 0).
Proof. exact f14_refuted. Qed.
Print Assumptions C14_F14_refuted.

(* the boolean check that the generated case files evaluate on the OBSERVED stacks against
   Trio's own tables is sound for the isomorphism relation of C14_iso *)
Theorem C14_iso_check_sound : forall N K s, iso_b N K s = true -> iso (tlookup N) (tlookup K) s.
Proof. exact iso_b_sound. Qed.
Print Assumptions C14_iso_check_sound.

(* Tree isomorphism and thread hops together.  For EVERY world whose tasks may be parked
   anywhere in to_thread/from_thread chains of any depth outside the F14 shape (hwf_task: per
   task a well-typed hop chain, own frames carrying exactly task.child_nurseries, nothing hidden
   opening a nursery, the system tasks it continues into being those of cont_of; every nursery
   context anywhere holding exactly nursery.child_tasks; hereditarily for all children):
   extract(task, recurse_child_tasks=True) is isomorphic to Trio's tree — every stack shows the
   nurseries of its task followed by those of the tasks it continues into, each once, in order,
   with exactly its child tasks by root, recursively — AND its frame series is the splice of
   its hops.  With cont_of = (fun _ => []) and hop-free frames this is C14_iso. *)
Theorem C14_iso_hops : forall nurs_of kids_of cont_of run t,
  hwf_task nurs_of kids_of cont_of t ->
  iso (nurs_along nurs_of cont_of) kids_of (extract true (RTask run t)) /\
  match extract true (RTask run t) with Stack _ fs => ids fs = splice_task (task_frames t) end.
Proof. exact iso_hops_extract. Qed.
Print Assumptions C14_iso_hops.

(* the same for every child stack of the result: the children ARE ext_child true kid
   (ext_tasks_map) and hwf_task is hereditary by definition *)
Theorem C14_iso_hops_child : forall nurs_of kids_of cont_of t,
  hwf_task nurs_of kids_of cont_of t ->
  iso (nurs_along nurs_of cont_of) kids_of (ext_child true t) /\
  match ext_child true t with Stack _ fs => ids fs = splice_task (task_frames t) end.
Proof. exact iso_hops_child. Qed.
Print Assumptions C14_iso_hops_child.

Example C14_iso_hops_hyp :
  hwf_task (tlookup exh_nurs) (tlookup exh_kids) (tlookup exh_cont) exh_tree.
Proof. exact exh_tree_wf. Qed.

(* the model's one approximation — a to_thread.run_sync frame that ends its segment sees
   next_inner = None — cannot be observed on ping-pong worlds: with the lookahead explicit and
   ARBITRARY (walkL lk) the extracted frames are the same *)
Theorem C14_lookahead_irrelevant : forall lk rc r,
  (match r with
   | RTask _ t => pp_task (task_frames t) && f14_free (task_frames t)
   | RThread _ fs => pp_thread false fs && f14_free fs
   end) = true ->
  match r with
  | RTask run t => fst (walkL lk rc (negb run) base_depth base_depth None (task_frames t))
  | RThread _ fs => fst (walkL lk rc false base_depth base_depth None fs)
  end = match extract rc r with Stack _ fs => fs end.
Proof. exact lookahead_irrelevant. Qed.
Print Assumptions C14_lookahead_irrelevant.

(* "with no error ... for any depth": the runaway-unwrap guard of extract_iter (constant and
   reset-at-a-Frame both regenerated from the source) is never reached by a task's chain, however
   many nested awaits / ping-pong levels it has — every coroutine link yields a frame, which
   resets the counter.  Without the reset the guard would cap the chain at its constant. *)
Theorem C14_guard_progress : forall n,
  guard_run SrcFacts.unwrap_guard SrcFacts.c14_guard_reset_on_frame 0 (task_chain n) = false.
Proof. exact (guard_progress SrcFacts.unwrap_guard SrcFacts.c14_guard_reset_on_frame eq_refl eq_refl). Qed.
Print Assumptions C14_guard_progress.

Theorem C14_guard_needs_reset : forall g n, g <= n -> guard_run g false 0 (task_chain n) = true.
Proof. exact guard_noreset_task. Qed.
Print Assumptions C14_guard_needs_reset.

(* what a passing case of a generated file means: the Stack observed from the real extract()
   equals the model's result on the abstracted world, and (tc_iso) is isomorphic to Trio's tables *)
Theorem C14_case_sound : forall k, case_ok k = true ->
  tc_obs k = extract (tc_rc k) (tc_root k) /\
  (tc_iso k = true -> iso (tlookup (tc_nurs k)) (tlookup (tc_kids k)) (tc_obs k)) /\
  tc_clean k = true.
Proof. exact case_ok_sound. Qed.
Print Assumptions C14_case_sound.

(* facts regenerated from /repo's source on every run (harness/facts_c14.py), on which the model's
   reading of the code rests beyond what input/output comparison pins down: elaborate_nursery
   builds the children with extract_child(child, for_task=True) over context.obj.child_tasks
   after setting obj to manager._nursery; extract_child's stub rule is
   `for_task and not recurse_child_tasks => Stack(root=stackitem, frames=[])`; each of the four
   trap names is a string constant of its own in the tuple customized hide+prune; ExtractOptions
   (which carries recurse_child_tasks to extract_child) shares nothing mutable between threads; the replace/insert decision of the to_thread glue tests
   the name "wait_task_rescheduled". *)
Theorem C14_source_facts :
  SrcFacts.c14_children_for_task = true /\ SrcFacts.c14_stub_rule = true /\ SrcFacts.c14_wait_name = true /\
  SrcFacts.c14_options_per_thread = true /\
  SrcFacts.c14_trap_cancel_shielded_checkpoint = true /\ SrcFacts.c14_trap_wait_task_rescheduled = true /\
  SrcFacts.c14_trap_temporarily_detach_coroutine_object = true /\
  SrcFacts.c14_trap_permanently_detach_coroutine_object = true.
Proof. exact (conj eq_refl (conj eq_refl (conj eq_refl (conj eq_refl (conj eq_refl (conj eq_refl (conj eq_refl eq_refl))))))). Qed.
Print Assumptions C14_source_facts.
