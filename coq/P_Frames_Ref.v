(* P_Frames_Ref.v — proofs relating the executable model M_Frames (extract_iter as coded) to the
   reference interpretation M_FramesRef (documented rules), property C10. *)
Require Import Base M_Frames M_FramesRef.

(* ------------------------------------------------------------------ determinism of the reference *)

Ltac same_hook :=
  repeat match goal with
  | H1 : unwrap ?c ?o = _, H2 : unwrap ?c ?o = _ |- _ => rewrite H1 in H2; inversion H2; subst; clear H2
  end.

Lemma Unw_det c n seq out es :
  Unw c n seq out es -> forall out' es', Unw c n seq out' es' -> out = out' /\ es = es'.
Proof.
  induction 1; intros out' es' H'; inversion H'; subst; simpl in *;
    try discriminate; try congruence; try lia; same_hook;
    try (match goal with IH : forall _ _, Unw _ _ _ _ _ -> _, H : Unw _ _ _ _ _ |- _ =>
           destruct (IH _ _ H) as [? ?]; subst; auto end).
  all: try (split; congruence).
Qed.

Lemma RefFlat_det c flat r : RefFlat c flat r -> forall r', RefFlat c flat r' -> r = r'.
Proof.
  induction 1; intros r' H'; inversion H'; subst; simpl in *;
    try discriminate; try congruence;
    repeat match goal with
    | H1 : classify ?e ?n = _, H2 : classify ?e ?n = _ |- _ => rewrite H1 in H2; inversion H2; subst; clear H2
    end;
    repeat match goal with
    | H1 : Unw ?c ?n ?s _ _, H2 : Unw ?c ?n ?s _ _ |- _ =>
        destruct (Unw_det _ _ _ _ _ H1 _ _ H2) as [? ?]; subst; clear H2
    end;
    try (match goal with IH : forall _, RefFlat _ _ _ -> _, H : RefFlat _ _ _ |- _ =>
           specialize (IH _ H); inversion IH; subst; auto end).
  all: auto.
Qed.

Lemma Ref_det c seq r r' : Ref c seq r -> Ref c seq r' -> r = r'.
Proof.
  intros H H'. inversion H; inversion H'; subst.
  match goal with H1 : Unw _ _ _ _ _, H2 : Unw _ _ _ _ _ |- _ =>
    destruct (Unw_det _ _ _ _ _ H1 _ _ H2) as [? ?]; subst end.
  match goal with H1 : RefFlat _ _ _, H2 : RefFlat _ _ _ |- _ =>
    pose proof (RefFlat_det _ _ _ H1 _ H2) as E; inversion E; subst end.
  reflexivity.
Qed.

(* ------------------------------------------------------------------ the executable reference is sound *)

Lemma ref_unw_sound c : forall fuel n seq out es,
  ref_unw fuel n c seq = Some (out, es) -> Unw c n seq out es.
Proof.
  induction fuel as [|fuel IH]; intros n seq out es; simpl; [discriminate|].
  destruct seq as [|[s d] rest]; [intros E; inversion E; constructor|].
  destruct s as [f|o|]; simpl.
  - destruct (ref_unw fuel 0 c rest) as [[o' e']|] eqn:R; [|discriminate].
    intros E; inversion E; subst. constructor. auto.
  - destruct (unwrap c o) eqn:U.
    + destruct (uguard c <=? n) eqn:G.
      * destruct (ref_unw fuel 0 c rest) as [[o' e']|] eqn:R; [|discriminate].
        intros E; inversion E; subst. apply Nat.leb_le in G.
        apply U_guard; simpl; auto. congruence.
      * destruct (ref_unw fuel 0 c rest) as [[o' e']|] eqn:R; [|discriminate].
        intros E; inversion E; subst. apply Nat.leb_gt in G.
        apply U_irreducible; simpl; auto.
    + destruct (uguard c <=? n) eqn:G.
      * destruct (ref_unw fuel 0 c rest) as [[o' e']|] eqn:R; [|discriminate].
        intros E; inversion E; subst. apply Nat.leb_le in G.
        apply U_guard; simpl; auto. congruence.
      * destruct (ref_unw fuel (S n) c _) as [[o' e']|] eqn:R; [|discriminate].
        intros E; inversion E; subst. apply Nat.leb_gt in G.
        eapply U_item; eauto.
    + destruct (uguard c <=? n) eqn:G.
      * destruct (ref_unw fuel 0 c rest) as [[o' e']|] eqn:R; [|discriminate].
        intros E; inversion E; subst. apply Nat.leb_le in G.
        apply U_guard; simpl; auto. congruence.
      * destruct (ref_unw fuel (S n) c _) as [[o' e']|] eqn:R; [|discriminate].
        intros E; inversion E; subst. apply Nat.leb_gt in G.
        eapply U_seq; eauto.
    + destruct (uguard c <=? n) eqn:G.
      * destruct (ref_unw fuel 0 c rest) as [[o' e']|] eqn:R; [|discriminate].
        intros E; inversion E; subst. apply Nat.leb_le in G.
        apply U_guard; simpl; auto. congruence.
      * destruct (ref_unw fuel (S n) c _) as [[o' e']|] eqn:R; [|discriminate].
        intros E; inversion E; subst. apply Nat.leb_gt in G.
        eapply U_iter; eauto.
    + destruct (ref_unw fuel 0 c rest) as [[o' e']|] eqn:R; [|discriminate].
      intros E; inversion E; subst. apply U_raise; auto.
  - destruct (uguard c <=? n) eqn:G.
    + destruct (ref_unw fuel 0 c rest) as [[o' e']|] eqn:R; [|discriminate].
      intros E; inversion E; subst. apply Nat.leb_le in G.
      apply U_guard; simpl; auto. discriminate.
    + destruct (ref_unw fuel 0 c rest) as [[o' e']|] eqn:R; [|discriminate].
      intros E; inversion E; subst. apply Nat.leb_gt in G.
      apply U_irreducible; simpl; auto.
Qed.

Lemma ref_flat_sound c ufuel : forall fuel flat r,
  ref_flat ufuel fuel c flat = Some r -> RefFlat c flat r.
Proof.
  induction fuel as [|fuel IH]; intros flat r; simpl; [discriminate|].
  destruct flat as [|[s d] rest]; [intros E; inversion E; constructor|].
  destruct s as [f|o|]; try (intros E; inversion E; subst; apply RF_leaf; reflexivity).
  assert (GO : forall hide es0 seq,
    match ref_unw ufuel 0 c seq with
    | Some (flat', es1) =>
        match ref_flat ufuel fuel c flat' with
        | Some (frs, lf, es2) => Some ((f, hide) :: frs, lf, es0 ++ es1 ++ es2)
        | None => None end
    | None => None end = Some r ->
    exists flat' es1 frs lf es2, Unw c 0 seq flat' es1 /\ RefFlat c flat' (frs, lf, es2)
      /\ r = ((f, hide) :: frs, lf, es0 ++ es1 ++ es2)).
  { intros hide es0 seq.
    destruct (ref_unw ufuel 0 c seq) as [[flat' es1]|] eqn:R; [|discriminate].
    destruct (ref_flat ufuel fuel c flat') as [[[frs lf] es2]|] eqn:F; [|discriminate].
    intros E; inversion E; subst. apply ref_unw_sound in R. apply IH in F. eauto 10. }
  assert (CL : forall e, e = elab c f -> e <> ERaise ->
    match classify e (next_of_s rest) with
    | Keep => match ref_flat ufuel fuel c rest with
              | Some (frs, lf, es) => Some ((f, prehide c f) :: frs, lf, es) | None => None end
    | Replace l =>
        match ref_unw ufuel 0 c (at_depth d l ++ survivors d rest) with
        | Some (flat', es1) =>
            match ref_flat ufuel fuel c flat' with
            | Some (frs, lf, es2) => Some ((f, prehide c f) :: frs, lf, [] ++ es1 ++ es2)
            | None => None end
        | None => None end
    | Insert l =>
        match ref_unw ufuel 0 c (at_depth d l ++ rest) with
        | Some (flat', es1) =>
            match ref_flat ufuel fuel c flat' with
            | Some (frs, lf, es2) => Some ((f, prehide c f) :: frs, lf, [] ++ es1 ++ es2)
            | None => None end
        | None => None end
    end = Some r -> RefFlat c ((SFrame f, d) :: rest) r).
  { intros e Ee Ne. destruct (classify e (next_of_s rest)) eqn:C.
    - destruct (ref_flat ufuel fuel c rest) as [[[frs lf] es]|] eqn:F; [|discriminate].
      intros E; inversion E; subst. apply RF_keep; auto.
    - intros H. apply GO in H. destruct H as (fl & es1 & frs & lf & es2 & HU & HF & ->).
      simpl. subst e. eapply RF_replace; eauto.
    - intros H. apply GO in H. destruct H as (fl & es1 & frs & lf & es2 & HU & HF & ->).
      simpl. subst e. eapply RF_insert; eauto. }
  destruct (elab c f) eqn:E.
  - apply (CL ENone); congruence.
  - apply (CL (ESeq l)); congruence.
  - apply (CL (EOne r0)); congruence.
  - intros H. apply (GO false [EElab f]) in H.
    destruct H as (fl & es1 & frs & lf & es2 & HU & HF & ->).
    simpl. eapply RF_raise; eauto.
Qed.

Lemma ref_run_sound c fuel seq r : ref_run fuel c seq = Some r -> Ref c seq r.
Proof.
  unfold ref_run.
  destruct (ref_unw fuel 0 c seq) as [[flat es1]|] eqn:R; [|discriminate].
  destruct (ref_flat fuel fuel c flat) as [[[frs lf] es2]|] eqn:F; [|discriminate].
  intros E; inversion E; subst.
  econstructor; [eapply ref_unw_sound|eapply ref_flat_sound]; eauto.
Qed.

(* ------------------------------------------------------------------ model = reference *)

(* the sub-domain of property C10: no injected faults, contexts not requested, every hook call
   site guarded (the guard facts are regenerated from the source, see C10.v) *)
Definition plain (c : cfg) : Prop :=
  (forall t, fault c t = false) /\ with_ctx c = false /\
  g_unwrap (grd c) = true /\ g_iter (grd c) = true /\ g_elab (grd c) = true.

Definition er_t (e : tent) : sent := (er (fst e), snd e).
Definition er_u (e : qent) : sent := (er (snd (fst e)), snd e).
Definition nopy (te : list tent) : Prop := forall f d, ~ In (QPy f, d) te.

Lemma nopy_nil : nopy []. Proof. intros f d H; inversion H. Qed.
Lemma nopy_tail x te : nopy (x :: te) -> nopy te.
Proof. intros H f d I. apply (H f d). right. exact I. Qed.
Lemma nopy_cons q d te : (forall f, q <> QPy f) -> nopy te -> nopy ((q, d) :: te).
Proof. intros N H f d' [E|I]; [inversion E; subst; eapply N; eauto | eapply H; eauto]. Qed.
Lemma nopy_app a b : nopy a -> nopy b -> nopy (a ++ b).
Proof. intros A B f d I. apply in_app_or in I as [I|I]; [eapply A|eapply B]; eauto. Qed.

Lemma iter_steps_plain c (NF : forall t, fault c t = false) o b : forall l t,
  exists t', iter_steps c o l b t = (l, if b then Some (EIter o) else None, t').
Proof.
  induction l as [|x l IH]; intros t; simpl; rewrite NF.
  - eauto.
  - destruct (IH (S t)) as [t' E]. rewrite E. eauto.
Qed.

Lemma er_u_push c org d l :
  map er_u (map (fun i => (better_origin c (q_of i) org, q_of i, d)) l) = at_depth d (map s_of l).
Proof.
  unfold at_depth. rewrite !map_map. apply map_ext. intros [f|o]; reflexivity.
Qed.

Lemma flatten_unw c (P : plain c) : forall fuel cnt tu te_rev errs t,
  match flatten fuel cnt c tu te_rev errs t with
  | FlFuel => True
  | FlRaised _ => False
  | FlOk te' errs' _ =>
      exists flat es, te' = rev te_rev ++ flat /\ errs' = rev es ++ errs /\
                      Unw c cnt (map er_u tu) (map er_t flat) es /\ nopy flat
  end.
Proof.
  destruct P as (NF & WC & GU & GI & GE).
  induction fuel as [|fuel IH]; intros cnt tu te_rev errs t; [exact I|].
  destruct tu as [|[[org q] d] tu'].
  { simpl. exists [], []. rewrite app_nil_r. repeat split; auto using nopy_nil. constructor. }
  assert (LEAF : forall q' es0 errs0 t0,
     (forall f, q' <> QPy f) ->
     (forall out es, Unw c 0 (map er_u tu') out es ->
                     Unw c cnt ((er q, d) :: map er_u tu') ((er q', d) :: out) (es0 ++ es)) ->
     errs0 = rev es0 ++ errs ->
     match flatten fuel 0 c tu' ((q', d) :: te_rev) errs0 t0 with
     | FlFuel => True
     | FlRaised _ => False
     | FlOk te' errs' _ =>
         exists flat es, te' = rev te_rev ++ flat /\ errs' = rev es ++ errs /\
                         Unw c cnt ((er q, d) :: map er_u tu') (map er_t flat) es /\ nopy flat
     end).
  { intros q' es0 errs0 t0 NP HU ->.
    specialize (IH 0 tu' ((q', d) :: te_rev) (rev es0 ++ errs) t0).
    destruct (flatten fuel 0 c tu' ((q', d) :: te_rev) (rev es0 ++ errs) t0); auto.
    destruct IH as (flat & es & -> & -> & HU' & HN).
    exists ((q', d) :: flat), (es0 ++ es). simpl. rewrite <- app_assoc. simpl.
    rewrite rev_app_distr, <- app_assoc. repeat split; auto using nopy_cons. }
  assert (PUSH : forall o l es0 errs0 t0,
     q = QObj o ->
     (forall out es, Unw c (S cnt) (at_depth (S d) (map s_of l) ++ map er_u tu') out es ->
                     Unw c cnt ((SObj o, d) :: map er_u tu') out (es0 ++ es)) ->
     errs0 = rev es0 ++ errs ->
     match flatten fuel (S cnt) c
             (map (fun i => (better_origin c (q_of i) org, q_of i, S d)) l ++ tu') te_rev errs0 t0 with
     | FlFuel => True
     | FlRaised _ => False
     | FlOk te' errs' _ =>
         exists flat es, te' = rev te_rev ++ flat /\ errs' = rev es ++ errs /\
                         Unw c cnt ((er q, d) :: map er_u tu') (map er_t flat) es /\ nopy flat
     end).
  { intros o l es0 errs0 t0 -> HU ->.
    specialize (IH (S cnt) (map (fun i => (better_origin c (q_of i) org, q_of i, S d)) l ++ tu')
                   te_rev (rev es0 ++ errs) t0).
    destruct (flatten fuel (S cnt) c _ te_rev (rev es0 ++ errs) t0); auto.
    destruct IH as (flat & es & -> & -> & HU' & HN).
    exists flat, (es0 ++ es). rewrite rev_app_distr, <- app_assoc.
    rewrite map_app, er_u_push in HU'. repeat split; auto. }
  destruct q as [f|f fo|o|]; cbn [map er_u fst snd].
  - (* raw python frame *)
    simpl flatten.
    apply (LEAF (QFr f (frame_origin c org f)) [] errs t); auto; try discriminate.
    intros out es H. simpl. constructor. exact H.
  - simpl flatten.
    apply (LEAF (QFr f fo) [] errs t); auto; try discriminate.
    intros out es H. simpl. constructor. exact H.
  - (* object *)
    simpl flatten. rewrite NF, GU.
    destruct (unwrap c o) eqn:U.
    + destruct (uguard c <? S cnt) eqn:G.
      * apply Nat.ltb_lt in G.
        apply (LEAF (QObj o) [ELoop (QObj o)]); auto; try discriminate.
        intros out es H. simpl. apply (U_guard c cnt (SObj o)); simpl; auto; try lia. congruence.
      * apply Nat.ltb_ge in G.
        apply (LEAF (QObj o) []); auto; try discriminate.
        intros out es H. simpl. apply (U_irreducible c cnt (SObj o)); simpl; auto; try lia.
    + destruct (uguard c <? S cnt) eqn:G.
      * apply Nat.ltb_lt in G.
        apply (LEAF (QObj o) [ELoop (QObj o)]); auto; try discriminate.
        intros out es H. simpl. apply (U_guard c cnt (SObj o)); simpl; auto; try lia. congruence.
      * apply Nat.ltb_ge in G.
        apply (PUSH o [i] []); auto.
        intros out es H. simpl. eapply U_item; eauto; lia.
    + destruct (uguard c <? S cnt) eqn:G.
      * apply Nat.ltb_lt in G.
        apply (LEAF (QObj o) [ELoop (QObj o)]); auto; try discriminate.
        intros out es H. simpl. apply (U_guard c cnt (SObj o)); simpl; auto; try lia. congruence.
      * apply Nat.ltb_ge in G.
        apply (PUSH o (somes l) []); auto.
        intros out es H. simpl. eapply U_seq; eauto; lia.
    + destruct (uguard c <? S cnt) eqn:G.
      * apply Nat.ltb_lt in G.
        apply (LEAF (QObj o) [ELoop (QObj o)]); auto; try discriminate.
        intros out es H. simpl. apply (U_guard c cnt (SObj o)); simpl; auto; try lia. congruence.
      * apply Nat.ltb_ge in G.
        destruct (iter_steps_plain c NF o raises l (S t)) as [t' E]. rewrite E.
        destruct raises.
        -- rewrite GI. apply (PUSH o l [EIter o]); auto.
           intros out es H. apply (U_iter c cnt o l true); auto; lia.
        -- apply (PUSH o l []); auto.
           intros out es H. apply (U_iter c cnt o l false); auto; lia.
    + apply (LEAF (QObj o) [EUnwrap o]); auto; try discriminate.
      intros out es H. simpl. apply U_raise; auto.
  - (* None as a stack item *)
    simpl flatten. rewrite NF, GU.
    destruct (uguard c <? S cnt) eqn:G.
    + apply Nat.ltb_lt in G.
      apply (LEAF QNone [ELoop QNone]); auto; try discriminate.
      intros out es H. simpl. apply (U_guard c cnt SNone); simpl; auto; try lia. discriminate.
    + apply Nat.ltb_ge in G.
      apply (LEAF QNone []); auto; try discriminate.
      intros out es H. simpl. apply (U_irreducible c cnt SNone); simpl; auto; try lia.
Qed.

(* ---- the elaborate step: the model's queue edit is the reference's action ---- *)

Lemma next_of_er rest : next_of_s (map er_t rest) = option_map er (next_of rest).
Proof. destruct rest as [|[q d] r]; reflexivity. Qed.

Lemma conc_er next r : er (conc next r) = conc_s (option_map er next) r.
Proof. destruct r as [[f|o]| |]; simpl; auto. destruct next; reflexivity. Qed.

Lemma ends_is_next next l :
  ends_with_next next l =
  match rev l with r :: _ => is_next (option_map er next) r | [] => false end.
Proof.
  unfold ends_with_next, last_opt. destruct (rev l) as [|r pre]; auto.
  destruct r as [[f|o]| |]; destruct next as [[]|]; reflexivity.
Qed.

Lemma removelast_rev {A} (l : list A) r pre : rev l = r :: pre -> removelast l = rev pre.
Proof.
  intros E. assert (L : l = rev pre ++ [r]).
  { rewrite <- (rev_involutive l), E. reflexivity. }
  rewrite L. apply removelast_last.
Qed.

Lemma er_u_mk c next d l :
  map er_u (map (fun q => (better_origin c q None, q, d)) (map (conc next) l))
  = at_depth d (map (conc_s (option_map er next)) l).
Proof.
  unfold at_depth. rewrite !map_map. apply map_ext. intros r. unfold er_u. simpl.
  rewrite conc_er. reflexivity.
Qed.

Lemma er_u_requeue rest : map er_u (requeue rest) = map er_t rest.
Proof. unfold requeue. rewrite map_map. apply map_ext. intros [q d]. reflexivity. Qed.

Lemma er_u_dropge d : forall q, map er_u (dropge d q) = survivors d (map er_u q).
Proof.
  induction q as [|[[o i] d'] q IH]; simpl; auto.
  unfold survivors in *. simpl. destruct (d <=? d'); auto.
Qed.

(* the model's new to_unwrap queue after a non-None hook result [l] *)
Definition edit_queue (c : cfg) (d : nat) (rest : list tent) (l : list ritem) : list qent :=
  let next := next_of rest in
  let mk q := (better_origin c q None, q, d) in
  if ends_with_next next l
  then map mk (map (conc next) (removelast l)) ++ requeue rest
  else map mk (map (conc next) l) ++ dropge d (requeue rest).

Lemma edit_queue_ref c d rest l :
  map er_u (edit_queue c d rest l) =
  match seq_action (next_of_s (map er_t rest)) l with
  | Insert l' => at_depth d l' ++ map er_t rest
  | Replace l' => at_depth d l' ++ survivors d (map er_t rest)
  | Keep => []
  end.
Proof.
  unfold edit_queue, seq_action. rewrite ends_is_next, next_of_er.
  destruct (rev l) as [|r pre] eqn:R.
  - rewrite map_app, er_u_mk, er_u_dropge, er_u_requeue.
    assert (l = []) as -> by (destruct l; auto; simpl in R; destruct (rev l); discriminate).
    reflexivity.
  - destruct (is_next (option_map er (next_of rest)) r).
    + rewrite map_app, er_u_mk, er_u_requeue, (removelast_rev _ _ _ R). reflexivity.
    + rewrite map_app, er_u_mk, er_u_dropge, er_u_requeue. reflexivity.
Qed.

Lemma seq_action_not_keep next l : seq_action next l <> Keep.
Proof. unfold seq_action. destruct (rev l); [|destruct (is_next next r)]; discriminate. Qed.

(* one iteration of the outer loop on a frame, for plain configurations *)
Lemma run_frame_step c (P : plain c) fuel tu te errs out_rev t te1 errs1 t1 f org d rest :
  flatten (S fuel) 0 c tu (rev te) errs t = FlOk te1 errs1 t1 ->
  te1 = (QFr f org, d) :: rest ->
  run (S fuel) false c tu te errs out_rev t =
  match elab c f with
  | ERaise =>
      run fuel false c (dropge d (requeue rest)) [] (EElab f :: errs1) (FOut f false org [] :: out_rev) (S t1)
  | e =>
    let out' := FOut f (prehide c f) org [] :: out_rev in
    match e with
    | ENone | EOne RNone => run fuel false c [] rest errs1 out' (S t1)
    | EOne RNext =>
        match next_of rest with
        | None | Some QNone => run fuel false c [] rest errs1 out' (S t1)
        | _ => run fuel false c (requeue rest) [] errs1 out' (S t1)
        end
    | EOne x => run fuel false c (edit_queue c d rest [x]) [] errs1 out' (S t1)
    | ESeq l => run fuel false c (edit_queue c d rest l) [] errs1 out' (S t1)
    | ERaise => (OutOfFuel, 0)
    end
  end.
Proof.
  destruct P as (NF & WC & GU & GI & GE).
  intros FL ->. cbn [run]. rewrite FL.
  unfold ctx_step. rewrite WC. cbn [negb].
  unfold elab_step. rewrite NF, GE.
  destruct (elab c f) as [|l|[i| |]|] eqn:E; try reflexivity.
Qed.

Lemma view_finish (s : stack) f h org cx out_rev frs lf pre es errs tail :
  view s = (map view_frame (rev (FOut f h org cx :: out_rev)) ++ frs, lf,
            rev (pre ++ rev es ++ errs) ++ tail) ->
  view s = (map view_frame (rev out_rev) ++ (f, h) :: frs, lf,
            rev errs ++ es ++ rev pre ++ tail).
Proof.
  intros ->. simpl. rewrite map_app. simpl. rewrite <- app_assoc. simpl.
  rewrite !rev_app_distr, rev_involutive, <- !app_assoc. reflexivity.
Qed.

Lemma run_ref c (P : plain c) : forall fuel tu te errs out_rev t,
  nopy te ->
  match run fuel false c tu te errs out_rev t with
  | (OutOfFuel, _) => True
  | (Raised _, _) => False
  | (Ok s, _) =>
      exists sflat es1 frs lf es2,
        Unw c 0 (map er_u tu) sflat es1 /\
        RefFlat c (map er_t te ++ sflat) (frs, lf, es2) /\
        view s = (map view_frame (rev out_rev) ++ frs, lf, rev errs ++ es1 ++ es2)
  end.
Proof.
  induction fuel as [|fuel IH]; intros tu te errs out_rev t NP; [exact I|].
  pose proof (flatten_unw c P (S fuel) 0 tu (rev te) errs t) as FU.
  destruct (flatten (S fuel) 0 c tu (rev te) errs t) as [te1 errs1 t1| |] eqn:FL;
    [|contradiction|cbn [run]; rewrite FL; exact I].
  destruct FU as (flat & es & E1 & E2 & HU & HN). rewrite rev_involutive in E1.
  assert (NP1 : nopy te1) by (subst te1; apply nopy_app; auto).
  assert (MAP : map er_t te ++ map er_t flat = map er_t te1) by (subst te1; rewrite map_app; auto).
  destruct te1 as [|[q d] rest] eqn:TE.
  { (* nothing left *)
    cbn [run]. rewrite FL.
    exists (map er_t flat), es, [], [], []. rewrite MAP. repeat split; auto; [constructor|].
    simpl. subst errs1. rewrite !app_nil_r, rev_app_distr, rev_involutive. reflexivity. }
  destruct q as [f|f org|o|].
  { exfalso. apply (NP1 f d). left. reflexivity. }
  2,3: (* leaf rule *)
    cbn [run]; rewrite FL;
    match type of FL with _ = FlOk ((?q, _) :: _) _ _ =>
      exists (map er_t flat), es, [], (map fst (map er_t ((q, d) :: rest))), [] end;
    rewrite MAP; (repeat split; auto; [apply RF_leaf; reflexivity|]);
    subst errs1; rewrite !app_nil_r, rev_app_distr, rev_involutive;
    destruct rest; simpl; rewrite ?map_map; reflexivity.
  (* a frame *)
  rewrite (run_frame_step c P fuel tu te errs out_rev t _ _ _ f org d rest FL eq_refl).
  assert (NPR : nopy rest) by (eapply nopy_tail; eauto).
  (* the three ways the loop continues *)
  assert (KEEP : forall h,
    elab c f <> ERaise -> classify (elab c f) (next_of_s (map er_t rest)) = Keep -> h = prehide c f ->
    match run fuel false c [] rest errs1 (FOut f h org [] :: out_rev) (S t1) with
    | (OutOfFuel, _) => True
    | (Raised _, _) => False
    | (Ok s, _) =>
        exists sflat es1 frs lf es2,
          Unw c 0 (map er_u tu) sflat es1 /\
          RefFlat c (map er_t te ++ sflat) (frs, lf, es2) /\
          view s = (map view_frame (rev out_rev) ++ frs, lf, rev errs ++ es1 ++ es2)
    end).
  { intros h NR CK ->.
    specialize (IH [] rest errs1 (FOut f (prehide c f) org [] :: out_rev) (S t1) NPR).
    destruct (run fuel false c [] rest errs1 _ (S t1)) as [[s| |] t']; auto.
    destruct IH as (sflat & es1 & frs & lf & es2 & HU' & HR & HV).
    inversion HU'; subst sflat es1. rewrite app_nil_r in HR.
    exists (map er_t flat), es, ((f, prehide c f) :: frs), lf, es2. rewrite MAP.
    repeat split; auto.
    - simpl. apply RF_keep; auto.
    - subst errs1. apply (view_finish s f (prehide c f) org [] out_rev frs lf [] es errs es2). exact HV. }
  assert (EDIT : forall l,
    elab c f <> ERaise -> classify (elab c f) (next_of_s (map er_t rest)) = seq_action (next_of_s (map er_t rest)) l ->
    match run fuel false c (edit_queue c d rest l) [] errs1 (FOut f (prehide c f) org [] :: out_rev) (S t1) with
    | (OutOfFuel, _) => True
    | (Raised _, _) => False
    | (Ok s, _) =>
        exists sflat es1 frs lf es2,
          Unw c 0 (map er_u tu) sflat es1 /\
          RefFlat c (map er_t te ++ sflat) (frs, lf, es2) /\
          view s = (map view_frame (rev out_rev) ++ frs, lf, rev errs ++ es1 ++ es2)
    end).
  { intros l NR CK.
    specialize (IH (edit_queue c d rest l) [] errs1 (FOut f (prehide c f) org [] :: out_rev) (S t1) nopy_nil).
    destruct (run fuel false c (edit_queue c d rest l) [] errs1 _ (S t1)) as [[s| |] t']; auto.
    destruct IH as (sflat & es1 & frs & lf & es2 & HU' & HR & HV).
    rewrite edit_queue_ref in HU'. simpl in HR.
    exists (map er_t flat), es, ((f, prehide c f) :: frs), lf, (es1 ++ es2). rewrite MAP.
    repeat split; auto.
    - simpl. destruct (seq_action (next_of_s (map er_t rest)) l) eqn:SA.
      + exfalso. eapply seq_action_not_keep; eauto.
      + eapply RF_replace; eauto.
      + eapply RF_insert; eauto.
    - subst errs1. apply (view_finish s f (prehide c f) org [] out_rev frs lf [] es errs (es1 ++ es2)). exact HV. }
  destruct (elab c f) as [|l|[i| |]|] eqn:E.
  - apply KEEP; auto; discriminate.
  - apply EDIT; auto; discriminate.
  - apply EDIT; auto; discriminate.
  - (* the bare next_inner *)
    destruct (next_of rest) as [[f'|f' o'|o'|]|] eqn:NX.
    3: { (* an object *)
      assert (EQ : requeue rest = edit_queue c d rest [RNext]).
      { unfold edit_queue. rewrite NX. reflexivity. }
      rewrite EQ. apply EDIT; try discriminate.
      simpl. rewrite next_of_er, NX. reflexivity. }
    3,4: apply KEEP; auto; try discriminate; simpl; rewrite next_of_er, NX; reflexivity.
    1,2: assert (EQ : requeue rest = edit_queue c d rest [RNext]) by
           (unfold edit_queue; rewrite NX; reflexivity);
         rewrite EQ; apply EDIT; try discriminate;
         simpl; rewrite next_of_er, NX; reflexivity.
  - apply KEEP; auto; discriminate.
  - (* the hook raised: frame shown (not hidden), rest pruned, error recorded *)
    specialize (IH (dropge d (requeue rest)) [] (EElab f :: errs1) (FOut f false org [] :: out_rev) (S t1) nopy_nil).
    destruct (run fuel false c (dropge d (requeue rest)) [] (EElab f :: errs1) _ (S t1)) as [[s| |] t']; auto.
    destruct IH as (sflat & es1 & frs & lf & es2 & HU' & HR & HV).
    rewrite er_u_dropge, er_u_requeue in HU'. simpl in HR.
    exists (map er_t flat), es, ((f, false) :: frs), lf, (EElab f :: es1 ++ es2). rewrite MAP.
    repeat split; auto.
    + simpl. eapply RF_raise; eauto.
    + subst errs1.
      apply (view_finish s f false org [] out_rev frs lf [EElab f] es errs (es1 ++ es2)). exact HV.
Qed.

(* ------------------------------------------------------------------ C10_model_eq_ref *)

Lemma root_q_er c root : map er_u (root_q c root) = [(s_of root, 0)].
Proof. destruct root; reflexivity. Qed.

(* run from the initial state of extract(root), any fuel, any starting tick *)
Lemma run_root_ref c root fuel t r t' :
  plain c -> run fuel false c (root_q c root) [] [] [] t = (r, t') -> r <> OutOfFuel ->
  exists s, r = Ok s /\ Ref c [(s_of root, 0)] (view s).
Proof.
  intros P E NF. pose proof (run_ref c P fuel (root_q c root) [] [] [] t nopy_nil) as H.
  rewrite E in H. destruct r as [s|e|]; [|contradiction|congruence].
  destruct H as (sflat & es1 & frs & lf & es2 & HU & HR & HV).
  exists s. split; auto. rewrite HV. simpl. rewrite root_q_er in HU. econstructor; eauto.
Qed.

Lemma model_eq_ref c root :
  plain c -> extract c root <> OutOfFuel ->
  exists s, extract c root = Ok s /\ Ref c [(s_of root, 0)] (view s).
Proof.
  unfold extract, extract_t. intros P NF.
  destruct (run default_fuel false c (root_q c root) [] [] [] 0) as [r t'] eqn:E.
  eapply run_root_ref; eauto.
Qed.

(* ... and since the reference is deterministic, it is THE reference result; in particular the
   executable reference used as second oracle in the cases files computes it *)
Lemma model_eq_ref_unique c root s r :
  plain c -> extract c root = Ok s -> Ref c [(s_of root, 0)] r -> view s = r.
Proof.
  intros P E HR. destruct (model_eq_ref c root P) as (s' & E' & HR'); [congruence|].
  rewrite E in E'. inversion E'; subst. eapply Ref_det; eauto.
Qed.

Lemma model_eq_ref_run c root s r :
  plain c -> extract c root = Ok s -> ref_extract c root = Some r -> view s = r.
Proof.
  intros P E HR. eapply model_eq_ref_unique; eauto. eapply ref_run_sound; eauto.
Qed.

(* ------------------------------------------------------------------ one frame at the head of the
   elaboration queue: what its hook result does to the rest (prune / replace / insert / keep) *)

Lemma flatten_nil c fuel te errs t : flatten (S fuel) 0 c [] (rev te) errs t = FlOk te errs t.
Proof. simpl. rewrite rev_involutive. reflexivity. Qed.

Lemma take_drop_while {A} (p : A -> bool) l : take_while p l ++ drop_while p l = l.
Proof. induction l as [|x l IH]; simpl; auto. destruct (p x); simpl; congruence. Qed.
Lemma take_while_all {A} (p : A -> bool) l : Forall (fun x => p x = true) (take_while p l).
Proof. induction l as [|x l IH]; simpl; auto. destruct (p x) eqn:E; auto. Qed.
Lemma drop_while_head {A} (p : A -> bool) l x r : drop_while p l = x :: r -> p x = false.
Proof.
  induction l as [|y l IH]; simpl; [discriminate|]. destruct (p y) eqn:E; auto.
  intros H; inversion H; subst; auto.
Qed.

(* the split of the rest at a frame of depth d: callees ++ survivors, the callees are the
   maximal following run with depth >= d *)
Lemma callees_survivors {A} d (rest : list (A * nat)) :
  rest = callees d rest ++ survivors d rest /\
  Forall (fun e => d <= snd e) (callees d rest) /\
  (forall x d' k, survivors d rest = (x, d') :: k -> d' < d).
Proof.
  unfold callees, survivors. split; [symmetry; apply take_drop_while|]. split.
  - eapply Forall_impl; [|apply take_while_all]. intros a H. apply Nat.leb_le. exact H.
  - intros x d' k H. apply drop_while_head in H. simpl in H. apply Nat.leb_gt in H. exact H.
Qed.

Lemma survivors_map d (rest : list tent) : survivors d (map er_t rest) = map er_t (survivors d rest).
Proof.
  unfold survivors. induction rest as [|[q d'] r IH]; simpl; auto. destruct (d <=? d'); auto.
Qed.

Definition run_result_is (c : cfg) (x : outcome * nat) (out : list fout) (errs : list err)
           (f : nat) (h : bool) (pre : list err) (seq : list sent) : Prop :=
  match x with
  | (Ok s, _) => exists frs lf es, Ref c seq (frs, lf, es) /\
       view s = (map view_frame (rev out) ++ (f, h) :: frs, lf, rev errs ++ pre ++ es)
  | (Raised _, _) => False
  | (OutOfFuel, _) => True
  end.

(* general form: the frames yielded so far are untouched, then the frame, then whatever the
   reference interpretation computes from the edited sequence alone *)
Lemma run_frame_ref c (P : plain c) fuel f org d rest errs out t :
  nopy rest ->
  let x := run fuel false c [] ((QFr f org, d) :: rest) errs out t in
  let next := next_of_s (map er_t rest) in
  match elab c f with
  | ERaise => run_result_is c x out errs f false [EElab f] (map er_t (survivors d rest))
  | e =>
    match classify e next with
    | Keep => run_result_is c x out errs f (prehide c f) [] (map er_t rest) \/
              (* nothing re-unwrapped: the rest is walked as it is *)
              match x with
              | (Ok s, _) => exists frs lf es, RefFlat c (map er_t rest) (frs, lf, es) /\
                   view s = (map view_frame (rev out) ++ (f, prehide c f) :: frs, lf, rev errs ++ es)
              | (Raised _, _) => False
              | (OutOfFuel, _) => True
              end
    | Replace l => run_result_is c x out errs f (prehide c f) [] (at_depth d l ++ map er_t (survivors d rest))
    | Insert l => run_result_is c x out errs f (prehide c f) [] (at_depth d l ++ map er_t rest)
    end
  end.
Proof.
  intros NP x next.
  assert (NP' : nopy ((QFr f org, d) :: rest)) by (apply nopy_cons; auto; discriminate).
  pose proof (run_ref c P fuel [] ((QFr f org, d) :: rest) errs out t NP') as H.
  fold x in H. unfold run_result_is.
  destruct x as [[s|e|] t']; try (destruct (elab c f); try destruct (classify _ next); auto; fail).
  2: { destruct (elab c f); try destruct (classify _ next); auto. }
  destruct H as (sflat & es1 & frs & lf & es2 & HU & HR & HV).
  inversion HU; subst sflat es1. rewrite app_nil_r in HR. simpl in HV. simpl in HR.
  fold next in HR.
  inversion HR; subst.
  - (* keep *)
    destruct (elab c f) eqn:E; try congruence;
      match goal with H : classify _ _ = Keep |- _ => fold next in H; rewrite H end;
      right; exists frs0, lf, es2; split; auto.
  - destruct (elab c f) eqn:E; try congruence;
      match goal with H : classify _ _ = Replace _ |- _ => fold next in H; rewrite H end;
      exists frs0, lf, (es0 ++ es3); rewrite <- survivors_map; split; auto; econstructor; eauto.
  - destruct (elab c f) eqn:E; try congruence;
      match goal with H : classify _ _ = Insert _ |- _ => fold next in H; rewrite H end;
      exists frs0, lf, (es0 ++ es3); split; auto; econstructor; eauto.
  - match goal with H : elab c f = ERaise |- _ => rewrite H end.
    exists frs0, lf, (es0 ++ es3). rewrite <- survivors_map. split; [econstructor; eauto|].
    rewrite HV. reflexivity.
Qed.
