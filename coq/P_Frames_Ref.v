(* P_Frames_Ref.v — proofs relating the executable model M_Frames (extract_iter as coded) to the
   reference interpretation M_FramesRef (documented rules), property C10. *)
Require Import Base M_Frames M_FramesRef.
From SS.gen Require Import SrcFacts.

(* ------------------------------------------------------------------ determinism of the reference *)

Ltac same_hook :=
  repeat match goal with
  | H1 : unwrap ?c ?o = _, H2 : unwrap ?c ?o = _ |- _ => rewrite H1 in H2; inversion H2; subst; clear H2
  end.

Lemma Unw_det c n seq out es :
  Unw c n seq out es -> forall out' es', Unw c n seq out' es' -> out = out' /\ es = es'.
Proof.
  induction 1; intros out' es' H'; inversion H'; subst; simpl in *;
    try discriminate; try congruence; try lia; same_hook;
    try (match goal with IH : forall _ _, Unw _ _ _ _ _ -> _, H : Unw _ _ _ _ _ |- _ =>
           destruct (IH _ _ H) as [? ?]; subst; auto end).
  all: try (split; congruence).
Qed.

Lemma RefFlat_det c flat r : RefFlat c flat r -> forall r', RefFlat c flat r' -> r = r'.
Proof.
  induction 1; intros r' H'; inversion H'; subst; simpl in *;
    try discriminate; try congruence;
    repeat match goal with
    | H1 : classify ?e ?n = _, H2 : classify ?e ?n = _ |- _ => rewrite H1 in H2; inversion H2; subst; clear H2
    end;
    repeat match goal with
    | H1 : Unw ?c ?n ?s _ _, H2 : Unw ?c ?n ?s _ _ |- _ =>
        destruct (Unw_det _ _ _ _ _ H1 _ _ H2) as [? ?]; subst; clear H2
    end;
    try (match goal with IH : forall _, RefFlat _ _ _ -> _, H : RefFlat _ _ _ |- _ =>
           specialize (IH _ H); inversion IH; subst; auto end).
  all: auto.
Qed.

Lemma Ref_det c seq r r' : Ref c seq r -> Ref c seq r' -> r = r'.
Proof.
  intros H H'. inversion H; inversion H'; subst.
  match goal with H1 : Unw _ _ _ _ _, H2 : Unw _ _ _ _ _ |- _ =>
    destruct (Unw_det _ _ _ _ _ H1 _ _ H2) as [? ?]; subst end.
  match goal with H1 : RefFlat _ _ _, H2 : RefFlat _ _ _ |- _ =>
    pose proof (RefFlat_det _ _ _ H1 _ H2) as E; inversion E; subst end.
  reflexivity.
Qed.

(* ------------------------------------------------------------------ the executable reference is sound *)

Lemma ref_unw_sound c : forall fuel n seq out es,
  ref_unw fuel n c seq = Some (out, es) -> Unw c n seq out es.
Proof.
  induction fuel as [|fuel IH]; intros n seq out es; simpl; [discriminate|].
  destruct seq as [|[s d] rest]; [intros E; inversion E; constructor|].
  destruct s as [f|o|]; simpl.
  - destruct (ref_unw fuel 0 c rest) as [[o' e']|] eqn:R; [|discriminate].
    intros E; inversion E; subst. constructor. auto.
  - destruct (unwrap c o) eqn:U.
    + destruct (uguard c <=? n) eqn:G.
      * destruct (ref_unw fuel 0 c rest) as [[o' e']|] eqn:R; [|discriminate].
        intros E; inversion E; subst. apply Nat.leb_le in G.
        apply U_guard; simpl; auto. congruence.
      * destruct (ref_unw fuel 0 c rest) as [[o' e']|] eqn:R; [|discriminate].
        intros E; inversion E; subst. apply Nat.leb_gt in G.
        apply U_irreducible; simpl; auto.
    + destruct (uguard c <=? n) eqn:G.
      * destruct (ref_unw fuel 0 c rest) as [[o' e']|] eqn:R; [|discriminate].
        intros E; inversion E; subst. apply Nat.leb_le in G.
        apply U_guard; simpl; auto. congruence.
      * destruct (ref_unw fuel (S n) c _) as [[o' e']|] eqn:R; [|discriminate].
        intros E; inversion E; subst. apply Nat.leb_gt in G.
        eapply U_item; eauto.
    + destruct (uguard c <=? n) eqn:G.
      * destruct (ref_unw fuel 0 c rest) as [[o' e']|] eqn:R; [|discriminate].
        intros E; inversion E; subst. apply Nat.leb_le in G.
        apply U_guard; simpl; auto. congruence.
      * destruct (ref_unw fuel (S n) c _) as [[o' e']|] eqn:R; [|discriminate].
        intros E; inversion E; subst. apply Nat.leb_gt in G.
        eapply U_seq; eauto.
    + destruct (uguard c <=? n) eqn:G.
      * destruct (ref_unw fuel 0 c rest) as [[o' e']|] eqn:R; [|discriminate].
        intros E; inversion E; subst. apply Nat.leb_le in G.
        apply U_guard; simpl; auto. congruence.
      * destruct (ref_unw fuel (S n) c _) as [[o' e']|] eqn:R; [|discriminate].
        intros E; inversion E; subst. apply Nat.leb_gt in G.
        eapply U_iter; eauto.
    + destruct (ref_unw fuel 0 c rest) as [[o' e']|] eqn:R; [|discriminate].
      intros E; inversion E; subst. apply U_raise; auto.
  - destruct (uguard c <=? n) eqn:G.
    + destruct (ref_unw fuel 0 c rest) as [[o' e']|] eqn:R; [|discriminate].
      intros E; inversion E; subst. apply Nat.leb_le in G.
      apply U_guard; simpl; auto. discriminate.
    + destruct (ref_unw fuel 0 c rest) as [[o' e']|] eqn:R; [|discriminate].
      intros E; inversion E; subst. apply Nat.leb_gt in G.
      apply U_irreducible; simpl; auto.
Qed.

Lemma ref_flat_sound c ufuel : forall fuel flat r,
  ref_flat ufuel fuel c flat = Some r -> RefFlat c flat r.
Proof.
  induction fuel as [|fuel IH]; intros flat r; simpl; [discriminate|].
  destruct flat as [|[s d] rest]; [intros E; inversion E; constructor|].
  destruct s as [f|o|]; try (intros E; inversion E; subst; apply RF_leaf; reflexivity).
  assert (GO : forall hide es0 seq,
    match ref_unw ufuel 0 c seq with
    | Some (flat', es1) =>
        match ref_flat ufuel fuel c flat' with
        | Some (frs, lf, es2) => Some ((f, hide) :: frs, lf, es0 ++ es1 ++ es2)
        | None => None end
    | None => None end = Some r ->
    exists flat' es1 frs lf es2, Unw c 0 seq flat' es1 /\ RefFlat c flat' (frs, lf, es2)
      /\ r = ((f, hide) :: frs, lf, es0 ++ es1 ++ es2)).
  { intros hide es0 seq.
    destruct (ref_unw ufuel 0 c seq) as [[flat' es1]|] eqn:R; [|discriminate].
    destruct (ref_flat ufuel fuel c flat') as [[[frs lf] es2]|] eqn:F; [|discriminate].
    intros E; inversion E; subst. apply ref_unw_sound in R. apply IH in F. eauto 10. }
  assert (CL : forall e, e = elab c f -> e <> ERaise ->
    match classify e (next_of_s rest) with
    | Keep => match ref_flat ufuel fuel c rest with
              | Some (frs, lf, es) => Some ((f, prehide c f) :: frs, lf, es) | None => None end
    | Replace l =>
        match ref_unw ufuel 0 c (at_depth d l ++ survivors d rest) with
        | Some (flat', es1) =>
            match ref_flat ufuel fuel c flat' with
            | Some (frs, lf, es2) => Some ((f, prehide c f) :: frs, lf, [] ++ es1 ++ es2)
            | None => None end
        | None => None end
    | Insert l =>
        match ref_unw ufuel 0 c (at_depth d l ++ redepth_s d rest) with
        | Some (flat', es1) =>
            match ref_flat ufuel fuel c flat' with
            | Some (frs, lf, es2) => Some ((f, prehide c f) :: frs, lf, [] ++ es1 ++ es2)
            | None => None end
        | None => None end
    end = Some r -> RefFlat c ((SFrame f, d) :: rest) r).
  { intros e Ee Ne. destruct (classify e (next_of_s rest)) eqn:C.
    - destruct (ref_flat ufuel fuel c rest) as [[[frs lf] es]|] eqn:F; [|discriminate].
      intros E; inversion E; subst. apply RF_keep; auto.
    - intros H. apply GO in H. destruct H as (fl & es1 & frs & lf & es2 & HU & HF & ->).
      simpl. subst e. eapply RF_replace; eauto.
    - intros H. apply GO in H. destruct H as (fl & es1 & frs & lf & es2 & HU & HF & ->).
      simpl. subst e. eapply RF_insert; eauto. }
  destruct (elab c f) eqn:E.
  - apply (CL ENone); congruence.
  - apply (CL (ESeq l)); congruence.
  - apply (CL (EOne r0)); congruence.
  - intros H. apply (GO false [EElab f]) in H.
    destruct H as (fl & es1 & frs & lf & es2 & HU & HF & ->).
    simpl. eapply RF_raise; eauto.
Qed.

Lemma ref_run_sound c fuel seq r : ref_run fuel c seq = Some r -> Ref c seq r.
Proof.
  unfold ref_run.
  destruct (ref_unw fuel 0 c seq) as [[flat es1]|] eqn:R; [|discriminate].
  destruct (ref_flat fuel fuel c flat) as [[[frs lf] es2]|] eqn:F; [|discriminate].
  intros E; inversion E; subst.
  econstructor; [eapply ref_unw_sound|eapply ref_flat_sound]; eauto.
Qed.

(* ------------------------------------------------------------------ model = reference *)

(* the sub-domain of property C10: no injected faults, contexts not requested, every hook call
   site guarded (the guard facts are regenerated from the source, see C10.v) *)
Definition plain (c : cfg) : Prop :=
  (forall t, fault c t = false) /\ with_ctx c = false /\
  g_unwrap (grd c) = true /\ g_iter (grd c) = true /\ g_elab (grd c) = true.

Definition er_t (e : tent) : sent := (er (fst e), snd e).
Definition er_u (e : qent) : sent := (er (snd (fst e)), snd e).
Definition nopy (te : list tent) : Prop := forall f d, ~ In (QPy f, d) te.

Lemma nopy_nil : nopy []. Proof. intros f d H; inversion H. Qed.
Lemma nopy_tail x te : nopy (x :: te) -> nopy te.
Proof. intros H f d I. apply (H f d). right. exact I. Qed.
Lemma nopy_cons q d te : (forall f, q <> QPy f) -> nopy te -> nopy ((q, d) :: te).
Proof. intros N H f d' [E|I]; [inversion E; subst; eapply N; eauto | eapply H; eauto]. Qed.
Lemma nopy_app a b : nopy a -> nopy b -> nopy (a ++ b).
Proof. intros A B f d I. apply in_app_or in I as [I|I]; [eapply A|eapply B]; eauto. Qed.

Lemma iter_steps_plain c (NF : forall t, fault c t = false) o b : forall l t,
  exists t', iter_steps c o l b t = (l, if b then Some (EIter o) else None, t').
Proof.
  induction l as [|x l IH]; intros t; simpl; rewrite NF.
  - eauto.
  - destruct (IH (S t)) as [t' E]. rewrite E. eauto.
Qed.

Lemma er_u_push c org d l :
  map er_u (map (fun i => (better_origin c (q_of i) org, q_of i, d)) l) = at_depth d (map s_of l).
Proof.
  unfold at_depth. rewrite !map_map. apply map_ext. intros [f|o]; reflexivity.
Qed.

Lemma flatten_unw c (P : plain c) : forall fuel cnt tu te_rev errs t,
  match flatten fuel cnt c tu te_rev errs t with
  | FlFuel => True
  | FlRaised _ => False
  | FlOk te' errs' _ =>
      exists flat es, te' = rev te_rev ++ flat /\ errs' = rev es ++ errs /\
                      Unw c cnt (map er_u tu) (map er_t flat) es /\ nopy flat
  end.
Proof.
  destruct P as (NF & WC & GU & GI & GE).
  induction fuel as [|fuel IH]; intros cnt tu te_rev errs t; [exact I|].
  destruct tu as [|[[org q] d] tu'].
  { simpl. exists [], []. rewrite app_nil_r. repeat split; auto using nopy_nil. constructor. }
  assert (LEAF : forall q' es0 errs0 t0,
     (forall f, q' <> QPy f) ->
     (forall out es, Unw c 0 (map er_u tu') out es ->
                     Unw c cnt ((er q, d) :: map er_u tu') ((er q', d) :: out) (es0 ++ es)) ->
     errs0 = rev es0 ++ errs ->
     match flatten fuel 0 c tu' ((q', d) :: te_rev) errs0 t0 with
     | FlFuel => True
     | FlRaised _ => False
     | FlOk te' errs' _ =>
         exists flat es, te' = rev te_rev ++ flat /\ errs' = rev es ++ errs /\
                         Unw c cnt ((er q, d) :: map er_u tu') (map er_t flat) es /\ nopy flat
     end).
  { intros q' es0 errs0 t0 NP HU ->.
    specialize (IH 0 tu' ((q', d) :: te_rev) (rev es0 ++ errs) t0).
    destruct (flatten fuel 0 c tu' ((q', d) :: te_rev) (rev es0 ++ errs) t0); auto.
    destruct IH as (flat & es & -> & -> & HU' & HN).
    exists ((q', d) :: flat), (es0 ++ es). simpl. rewrite <- app_assoc. simpl.
    rewrite rev_app_distr, <- app_assoc. repeat split; auto using nopy_cons. }
  assert (PUSH : forall o l es0 errs0 t0,
     q = QObj o ->
     (forall out es, Unw c (S cnt) (at_depth (S d) (map s_of l) ++ map er_u tu') out es ->
                     Unw c cnt ((SObj o, d) :: map er_u tu') out (es0 ++ es)) ->
     errs0 = rev es0 ++ errs ->
     match flatten fuel (S cnt) c
             (map (fun i => (better_origin c (q_of i) org, q_of i, S d)) l ++ tu') te_rev errs0 t0 with
     | FlFuel => True
     | FlRaised _ => False
     | FlOk te' errs' _ =>
         exists flat es, te' = rev te_rev ++ flat /\ errs' = rev es ++ errs /\
                         Unw c cnt ((er q, d) :: map er_u tu') (map er_t flat) es /\ nopy flat
     end).
  { intros o l es0 errs0 t0 -> HU ->.
    specialize (IH (S cnt) (map (fun i => (better_origin c (q_of i) org, q_of i, S d)) l ++ tu')
                   te_rev (rev es0 ++ errs) t0).
    destruct (flatten fuel (S cnt) c _ te_rev (rev es0 ++ errs) t0); auto.
    destruct IH as (flat & es & -> & -> & HU' & HN).
    exists flat, (es0 ++ es). rewrite rev_app_distr, <- app_assoc.
    rewrite map_app, er_u_push in HU'. repeat split; auto. }
  destruct q as [f|f fo|o|]; cbn [map er_u fst snd].
  - (* raw python frame *)
    simpl flatten.
    apply (LEAF (QFr f (frame_origin c org f)) [] errs t); auto; try discriminate.
    intros out es H. simpl. constructor. exact H.
  - simpl flatten.
    apply (LEAF (QFr f fo) [] errs t); auto; try discriminate.
    intros out es H. simpl. constructor. exact H.
  - (* object *)
    simpl flatten. rewrite NF, GU.
    destruct (unwrap c o) eqn:U.
    + destruct (uguard c <? S cnt) eqn:G.
      * apply Nat.ltb_lt in G.
        apply (LEAF (QObj o) [ELoop (QObj o)]); auto; try discriminate.
        intros out es H. simpl. apply (U_guard c cnt (SObj o)); simpl; auto; try lia. congruence.
      * apply Nat.ltb_ge in G.
        apply (LEAF (QObj o) []); auto; try discriminate.
        intros out es H. simpl. apply (U_irreducible c cnt (SObj o)); simpl; auto; try lia.
    + destruct (uguard c <? S cnt) eqn:G.
      * apply Nat.ltb_lt in G.
        apply (LEAF (QObj o) [ELoop (QObj o)]); auto; try discriminate.
        intros out es H. simpl. apply (U_guard c cnt (SObj o)); simpl; auto; try lia. congruence.
      * apply Nat.ltb_ge in G.
        apply (PUSH o [i] []); auto.
        intros out es H. simpl. eapply U_item; eauto; lia.
    + destruct (uguard c <? S cnt) eqn:G.
      * apply Nat.ltb_lt in G.
        apply (LEAF (QObj o) [ELoop (QObj o)]); auto; try discriminate.
        intros out es H. simpl. apply (U_guard c cnt (SObj o)); simpl; auto; try lia. congruence.
      * apply Nat.ltb_ge in G.
        apply (PUSH o (somes l) []); auto.
        intros out es H. simpl. eapply U_seq; eauto; lia.
    + destruct (uguard c <? S cnt) eqn:G.
      * apply Nat.ltb_lt in G.
        apply (LEAF (QObj o) [ELoop (QObj o)]); auto; try discriminate.
        intros out es H. simpl. apply (U_guard c cnt (SObj o)); simpl; auto; try lia. congruence.
      * apply Nat.ltb_ge in G.
        destruct (iter_steps_plain c NF o raises l (S t)) as [t' E]. rewrite E.
        destruct raises.
        -- rewrite GI. apply (PUSH o l [EIter o]); auto.
           intros out es H. apply (U_iter c cnt o l true); auto; lia.
        -- apply (PUSH o l []); auto.
           intros out es H. apply (U_iter c cnt o l false); auto; lia.
    + apply (LEAF (QObj o) [EUnwrap o]); auto; try discriminate.
      intros out es H. simpl. apply U_raise; auto.
  - (* None as a stack item *)
    simpl flatten. rewrite NF, GU.
    destruct (uguard c <? S cnt) eqn:G.
    + apply Nat.ltb_lt in G.
      apply (LEAF QNone [ELoop QNone]); auto; try discriminate.
      intros out es H. simpl. apply (U_guard c cnt SNone); simpl; auto; try lia. discriminate.
    + apply Nat.ltb_ge in G.
      apply (LEAF QNone []); auto; try discriminate.
      intros out es H. simpl. apply (U_irreducible c cnt SNone); simpl; auto; try lia.
Qed.

(* ---- the elaborate step: the model's queue edit is the reference's action ---- *)

Lemma next_of_er rest : next_of_s (map er_t rest) = option_map er (next_of rest).
Proof. destruct rest as [|[q d] r]; reflexivity. Qed.

Lemma conc_er next r : er (conc next r) = conc_s (option_map er next) r.
Proof. destruct r as [[f|o]| |]; simpl; auto. destruct next; reflexivity. Qed.

Lemma ends_is_next next l :
  ends_with_next next l =
  match rev l with r :: _ => is_next (option_map er next) r | [] => false end.
Proof.
  unfold ends_with_next, last_opt. destruct (rev l) as [|r pre]; auto.
  destruct r as [[f|o]| |]; destruct next as [[]|]; reflexivity.
Qed.

Lemma removelast_rev {A} (l : list A) r pre : rev l = r :: pre -> removelast l = rev pre.
Proof.
  intros E. assert (L : l = rev pre ++ [r]).
  { rewrite <- (rev_involutive l), E. reflexivity. }
  rewrite L. apply removelast_last.
Qed.

Lemma er_u_mk c next d l :
  map er_u (map (fun q => (better_origin c q None, q, d)) (map (conc next) l))
  = at_depth d (map (conc_s (option_map er next)) l).
Proof.
  unfold at_depth. rewrite !map_map. apply map_ext. intros r. unfold er_u. simpl.
  rewrite conc_er. reflexivity.
Qed.

Lemma er_u_requeue rest : map er_u (requeue rest) = map er_t rest.
Proof. unfold requeue. rewrite map_map. apply map_ext. intros [q d]. reflexivity. Qed.

Lemma er_u_dropge d : forall q, map er_u (dropge d q) = survivors d (map er_u q).
Proof.
  induction q as [|[[o i] d'] q IH]; simpl; auto.
  unfold survivors in *. simpl. destruct (d <=? d'); auto.
Qed.

Lemma er_u_redepth d q : map er_u (redepth d q) = redepth_s d (map er_u q).
Proof. destruct q as [|[[o i] d'] q]; reflexivity. Qed.

(* the model's new to_unwrap queue after a non-None hook result [l] *)
Definition edit_queue (c : cfg) (d : nat) (rest : list tent) (l : list ritem) : list qent :=
  let next := next_of rest in
  let mk q := (better_origin c q None, q, d) in
  if ends_with_next next l
  then map mk (map (conc next) (removelast l)) ++ redepth d (requeue rest)
  else map mk (map (conc next) l) ++ dropge d (requeue rest).

Lemma edit_queue_ref c d rest l :
  map er_u (edit_queue c d rest l) =
  match seq_action (next_of_s (map er_t rest)) l with
  | Insert l' => at_depth d l' ++ redepth_s d (map er_t rest)
  | Replace l' => at_depth d l' ++ survivors d (map er_t rest)
  | Keep => []
  end.
Proof.
  unfold edit_queue, seq_action. rewrite ends_is_next, next_of_er.
  destruct (rev l) as [|r pre] eqn:R.
  - rewrite map_app, er_u_mk, er_u_dropge, er_u_requeue.
    assert (l = []) as -> by (destruct l; auto; simpl in R; destruct (rev l); discriminate).
    reflexivity.
  - destruct (is_next (option_map er (next_of rest)) r).
    + rewrite map_app, er_u_mk, er_u_redepth, er_u_requeue, (removelast_rev _ _ _ R). reflexivity.
    + rewrite map_app, er_u_mk, er_u_dropge, er_u_requeue. reflexivity.
Qed.

Lemma seq_action_not_keep next l : seq_action next l <> Keep.
Proof. unfold seq_action. destruct (rev l); [|destruct (is_next next r)]; discriminate. Qed.

(* one iteration of the outer loop on a frame, for plain configurations *)
Lemma run_frame_step c (P : plain c) fuel tu te errs out_rev t te1 errs1 t1 f org d rest :
  flatten (S fuel) 0 c tu (rev te) errs t = FlOk te1 errs1 t1 ->
  te1 = (QFr f org, d) :: rest ->
  run (S fuel) false c tu te errs out_rev t =
  match elab c f with
  | ERaise =>
      run fuel false c (dropge d (requeue rest)) [] (EElab f :: errs1) (FOut f false org [] :: out_rev) (S t1)
  | e =>
    let out' := FOut f (prehide c f) org [] :: out_rev in
    match e with
    | ENone | EOne RNone => run fuel false c [] rest errs1 out' (S t1)
    | EOne RNext =>
        match next_of rest with
        | None | Some QNone => run fuel false c [] rest errs1 out' (S t1)
        | _ => run fuel false c (redepth d (requeue rest)) [] errs1 out' (S t1)
        end
    | EOne x => run fuel false c (edit_queue c d rest [x]) [] errs1 out' (S t1)
    | ESeq l => run fuel false c (edit_queue c d rest l) [] errs1 out' (S t1)
    | ERaise => (OutOfFuel, 0)
    end
  end.
Proof.
  destruct P as (NF & WC & GU & GI & GE).
  intros FL ->. cbn [run]. rewrite FL.
  unfold ctx_step. rewrite WC. cbn [negb].
  unfold elab_step. rewrite NF, GE.
  destruct (elab c f) as [|l|[i| |]|] eqn:E; try reflexivity.
Qed.

Lemma view_finish (s : stack) f h org cx out_rev frs lf pre es errs tail :
  view s = (map view_frame (rev (FOut f h org cx :: out_rev)) ++ frs, lf,
            rev (pre ++ rev es ++ errs) ++ tail) ->
  view s = (map view_frame (rev out_rev) ++ (f, h) :: frs, lf,
            rev errs ++ es ++ rev pre ++ tail).
Proof.
  intros ->. simpl. rewrite map_app. simpl. rewrite <- app_assoc. simpl.
  rewrite !rev_app_distr, rev_involutive, <- !app_assoc. reflexivity.
Qed.

Lemma run_ref c (P : plain c) : forall fuel tu te errs out_rev t,
  nopy te ->
  match run fuel false c tu te errs out_rev t with
  | (OutOfFuel, _) => True
  | (Raised _, _) => False
  | (Ok s, _) =>
      exists sflat es1 frs lf es2,
        Unw c 0 (map er_u tu) sflat es1 /\
        RefFlat c (map er_t te ++ sflat) (frs, lf, es2) /\
        view s = (map view_frame (rev out_rev) ++ frs, lf, rev errs ++ es1 ++ es2)
  end.
Proof.
  induction fuel as [|fuel IH]; intros tu te errs out_rev t NP; [exact I|].
  pose proof (flatten_unw c P (S fuel) 0 tu (rev te) errs t) as FU.
  destruct (flatten (S fuel) 0 c tu (rev te) errs t) as [te1 errs1 t1| |] eqn:FL;
    [|contradiction|cbn [run]; rewrite FL; exact I].
  destruct FU as (flat & es & E1 & E2 & HU & HN). rewrite rev_involutive in E1.
  assert (NP1 : nopy te1) by (subst te1; apply nopy_app; auto).
  assert (MAP : map er_t te ++ map er_t flat = map er_t te1) by (subst te1; rewrite map_app; auto).
  destruct te1 as [|[q d] rest] eqn:TE.
  { (* nothing left *)
    cbn [run]. rewrite FL.
    exists (map er_t flat), es, [], [], []. rewrite MAP. repeat split; auto; [constructor|].
    simpl. subst errs1. rewrite !app_nil_r, rev_app_distr, rev_involutive. reflexivity. }
  destruct q as [f|f org|o|].
  { exfalso. apply (NP1 f d). left. reflexivity. }
  2,3: (* leaf rule *)
    cbn [run]; rewrite FL;
    match type of FL with _ = FlOk ((?q, _) :: _) _ _ =>
      exists (map er_t flat), es, [], (map fst (map er_t ((q, d) :: rest))), [] end;
    rewrite MAP; (repeat split; auto; [apply RF_leaf; reflexivity|]);
    subst errs1; rewrite !app_nil_r, rev_app_distr, rev_involutive;
    destruct rest; simpl; rewrite ?map_map; reflexivity.
  (* a frame *)
  rewrite (run_frame_step c P fuel tu te errs out_rev t _ _ _ f org d rest FL eq_refl).
  assert (NPR : nopy rest) by (eapply nopy_tail; eauto).
  (* the three ways the loop continues *)
  assert (KEEP : forall h,
    elab c f <> ERaise -> classify (elab c f) (next_of_s (map er_t rest)) = Keep -> h = prehide c f ->
    match run fuel false c [] rest errs1 (FOut f h org [] :: out_rev) (S t1) with
    | (OutOfFuel, _) => True
    | (Raised _, _) => False
    | (Ok s, _) =>
        exists sflat es1 frs lf es2,
          Unw c 0 (map er_u tu) sflat es1 /\
          RefFlat c (map er_t te ++ sflat) (frs, lf, es2) /\
          view s = (map view_frame (rev out_rev) ++ frs, lf, rev errs ++ es1 ++ es2)
    end).
  { intros h NR CK ->.
    specialize (IH [] rest errs1 (FOut f (prehide c f) org [] :: out_rev) (S t1) NPR).
    destruct (run fuel false c [] rest errs1 _ (S t1)) as [[s| |] t']; auto.
    destruct IH as (sflat & es1 & frs & lf & es2 & HU' & HR & HV).
    inversion HU'; subst sflat es1. rewrite app_nil_r in HR.
    exists (map er_t flat), es, ((f, prehide c f) :: frs), lf, es2. rewrite MAP.
    repeat split; auto.
    - simpl. apply RF_keep; auto.
    - subst errs1. apply (view_finish s f (prehide c f) org [] out_rev frs lf [] es errs es2). exact HV. }
  assert (EDIT : forall l,
    elab c f <> ERaise -> classify (elab c f) (next_of_s (map er_t rest)) = seq_action (next_of_s (map er_t rest)) l ->
    match run fuel false c (edit_queue c d rest l) [] errs1 (FOut f (prehide c f) org [] :: out_rev) (S t1) with
    | (OutOfFuel, _) => True
    | (Raised _, _) => False
    | (Ok s, _) =>
        exists sflat es1 frs lf es2,
          Unw c 0 (map er_u tu) sflat es1 /\
          RefFlat c (map er_t te ++ sflat) (frs, lf, es2) /\
          view s = (map view_frame (rev out_rev) ++ frs, lf, rev errs ++ es1 ++ es2)
    end).
  { intros l NR CK.
    specialize (IH (edit_queue c d rest l) [] errs1 (FOut f (prehide c f) org [] :: out_rev) (S t1) nopy_nil).
    destruct (run fuel false c (edit_queue c d rest l) [] errs1 _ (S t1)) as [[s| |] t']; auto.
    destruct IH as (sflat & es1 & frs & lf & es2 & HU' & HR & HV).
    rewrite edit_queue_ref in HU'. simpl in HR.
    exists (map er_t flat), es, ((f, prehide c f) :: frs), lf, (es1 ++ es2). rewrite MAP.
    repeat split; auto.
    - simpl. destruct (seq_action (next_of_s (map er_t rest)) l) eqn:SA.
      + exfalso. eapply seq_action_not_keep; eauto.
      + eapply RF_replace; eauto.
      + eapply RF_insert; eauto.
    - subst errs1. apply (view_finish s f (prehide c f) org [] out_rev frs lf [] es errs (es1 ++ es2)). exact HV. }
  destruct (elab c f) as [|l|[i| |]|] eqn:E.
  - apply KEEP; auto; discriminate.
  - apply EDIT; auto; discriminate.
  - apply EDIT; auto; discriminate.
  - (* the bare next_inner *)
    destruct (next_of rest) as [[f'|f' o'|o'|]|] eqn:NX.
    3: { (* an object *)
      assert (EQ : redepth d (requeue rest) = edit_queue c d rest [RNext]).
      { unfold edit_queue. rewrite NX. reflexivity. }
      rewrite EQ. apply EDIT; try discriminate.
      simpl. rewrite next_of_er, NX. reflexivity. }
    3,4: apply KEEP; auto; try discriminate; simpl; rewrite next_of_er, NX; reflexivity.
    1,2: assert (EQ : redepth d (requeue rest) = edit_queue c d rest [RNext]) by
           (unfold edit_queue; rewrite NX; reflexivity);
         rewrite EQ; apply EDIT; try discriminate;
         simpl; rewrite next_of_er, NX; reflexivity.
  - apply KEEP; auto; discriminate.
  - (* the hook raised: frame shown (not hidden), rest pruned, error recorded *)
    specialize (IH (dropge d (requeue rest)) [] (EElab f :: errs1) (FOut f false org [] :: out_rev) (S t1) nopy_nil).
    destruct (run fuel false c (dropge d (requeue rest)) [] (EElab f :: errs1) _ (S t1)) as [[s| |] t']; auto.
    destruct IH as (sflat & es1 & frs & lf & es2 & HU' & HR & HV).
    rewrite er_u_dropge, er_u_requeue in HU'. simpl in HR.
    exists (map er_t flat), es, ((f, false) :: frs), lf, (EElab f :: es1 ++ es2). rewrite MAP.
    repeat split; auto.
    + simpl. eapply RF_raise; eauto.
    + subst errs1.
      apply (view_finish s f false org [] out_rev frs lf [EElab f] es errs (es1 ++ es2)). exact HV.
Qed.

(* ------------------------------------------------------------------ C10_model_eq_ref *)

Lemma root_q_er c root : map er_u (root_q c root) = [(s_of root, 0)].
Proof. destruct root; reflexivity. Qed.

(* run from the initial state of extract(root), any fuel, any starting tick *)
Lemma run_root_ref c root fuel t r t' :
  plain c -> run fuel false c (root_q c root) [] [] [] t = (r, t') -> r <> OutOfFuel ->
  exists s, r = Ok s /\ Ref c [(s_of root, 0)] (view s).
Proof.
  intros P E NF. pose proof (run_ref c P fuel (root_q c root) [] [] [] t nopy_nil) as H.
  rewrite E in H. destruct r as [s|e|]; [|contradiction|congruence].
  destruct H as (sflat & es1 & frs & lf & es2 & HU & HR & HV).
  exists s. split; auto. rewrite HV. simpl. rewrite root_q_er in HU. econstructor; eauto.
Qed.

Lemma run_root_ref_fst c root fuel :
  plain c -> fst (run fuel false c (root_q c root) [] [] [] 0) <> OutOfFuel ->
  exists s, fst (run fuel false c (root_q c root) [] [] [] 0) = Ok s /\ Ref c [(s_of root, 0)] (view s).
Proof.
  intros P NF.
  destruct (run fuel false c (root_q c root) [] [] [] 0) as [r t'] eqn:E.
  eapply run_root_ref; eauto.
Qed.

Lemma model_eq_ref c root :
  plain c -> extract c root <> OutOfFuel ->
  exists s, extract c root = Ok s /\ Ref c [(s_of root, 0)] (view s).
Proof. exact (run_root_ref_fst c root default_fuel). Qed.

(* ... and since the reference is deterministic, it is THE reference result; in particular the
   executable reference used as second oracle in the cases files computes it *)
Lemma model_eq_ref_unique c root s r :
  plain c -> extract c root = Ok s -> Ref c [(s_of root, 0)] r -> view s = r.
Proof.
  intros P E HR. destruct (model_eq_ref c root P) as (s' & E' & HR'); [congruence|].
  rewrite E in E'. inversion E'; subst. eapply Ref_det; eauto.
Qed.

Lemma model_eq_ref_run_gen c root s r fuel :
  plain c -> extract c root = Ok s -> ref_run fuel c [(s_of root, 0)] = Some r -> view s = r.
Proof.
  intros P E HR. apply (model_eq_ref_unique c root s r P E).
  exact (ref_run_sound c fuel [(s_of root, 0)] r HR).
Qed.

(* [ref_extract c root] is, by definition, [ref_run default_fuel c [(s_of root, 0)]] *)
Lemma model_eq_ref_run c root s r :
  plain c -> extract c root = Ok s -> ref_run default_fuel c [(s_of root, 0)] = Some r -> view s = r.
Proof. exact (model_eq_ref_run_gen c root s r default_fuel). Qed.

(* ------------------------------------------------------------------ one frame at the head of the
   elaboration queue: what its hook result does to the rest (prune / replace / insert / keep) *)

Lemma flatten_nil c fuel te errs t : flatten (S fuel) 0 c [] (rev te) errs t = FlOk te errs t.
Proof. simpl. rewrite rev_involutive. reflexivity. Qed.

Lemma take_drop_while {A} (p : A -> bool) l : take_while p l ++ drop_while p l = l.
Proof. induction l as [|x l IH]; simpl; auto. destruct (p x); simpl; congruence. Qed.
Lemma take_while_all {A} (p : A -> bool) l : Forall (fun x => p x = true) (take_while p l).
Proof. induction l as [|x l IH]; simpl; auto. destruct (p x) eqn:E; auto. Qed.
Lemma drop_while_head {A} (p : A -> bool) l x r : drop_while p l = x :: r -> p x = false.
Proof.
  induction l as [|y l IH]; simpl; [discriminate|]. destruct (p y) eqn:E; auto.
  intros H; inversion H; subst; auto.
Qed.

(* the split of the rest at a frame of depth d: callees ++ survivors, the callees are the
   maximal following run with depth >= d *)
Lemma callees_survivors {A} d (rest : list (A * nat)) :
  rest = callees d rest ++ survivors d rest /\
  Forall (fun e => d <= snd e) (callees d rest) /\
  (forall x d' k, survivors d rest = (x, d') :: k -> d' < d).
Proof.
  unfold callees, survivors. split; [symmetry; apply take_drop_while|]. split.
  - eapply Forall_impl; [|apply take_while_all]. intros a H. apply Nat.leb_le. exact H.
  - intros x d' k H. apply drop_while_head in H. simpl in H. apply Nat.leb_gt in H. exact H.
Qed.

Lemma survivors_map d (rest : list tent) : survivors d (map er_t rest) = map er_t (survivors d rest).
Proof.
  unfold survivors. induction rest as [|[q d'] r IH]; simpl; auto. destruct (d <=? d'); auto.
Qed.

Definition run_result_is (c : cfg) (x : outcome * nat) (out : list fout) (errs : list err)
           (f : nat) (h : bool) (pre : list err) (seq : list sent) : Prop :=
  match x with
  | (Ok s, _) => exists frs lf es, Ref c seq (frs, lf, es) /\
       view s = (map view_frame (rev out) ++ (f, h) :: frs, lf, rev errs ++ pre ++ es)
  | (Raised _, _) => False
  | (OutOfFuel, _) => True
  end.
(* Keep: nothing is re-unwrapped, the rest is walked as it is *)
Definition keep_result_is (c : cfg) (x : outcome * nat) (out : list fout) (errs : list err)
           (f : nat) (flat : list sent) : Prop :=
  match x with
  | (Ok s, _) => exists frs lf es, RefFlat c flat (frs, lf, es) /\
       view s = (map view_frame (rev out) ++ (f, prehide c f) :: frs, lf, rev errs ++ es)
  | (Raised _, _) => False
  | (OutOfFuel, _) => True
  end.

(* what the reference says about a frame f of depth d standing before the unwrapped rest *)
Definition frame_spec (c : cfg) (x : outcome * nat) (out : list fout) (errs : list err)
           (f d : nat) (rest : list sent) : Prop :=
  match elab c f with
  | ERaise => run_result_is c x out errs f false [EElab f] (survivors d rest)
  | e =>
    match classify e (next_of_s rest) with
    | Keep => keep_result_is c x out errs f rest
    | Replace l => run_result_is c x out errs f (prehide c f) [] (at_depth d l ++ survivors d rest)
    | Insert l => run_result_is c x out errs f (prehide c f) [] (at_depth d l ++ redepth_s d rest)
    end
  end.

(* general form: the frames yielded so far are untouched, then the frame, then whatever the
   reference interpretation computes from the edited sequence alone *)
Lemma run_frame_ref c (P : plain c) fuel f org d rest errs out t :
  nopy rest ->
  frame_spec c (run fuel false c [] ((QFr f org, d) :: rest) errs out t) out errs f d (map er_t rest).
Proof.
  intros NP.
  assert (NP' : nopy ((QFr f org, d) :: rest)) by (apply nopy_cons; auto; discriminate).
  pose proof (run_ref c P fuel [] ((QFr f org, d) :: rest) errs out t NP') as H.
  unfold frame_spec, run_result_is, keep_result_is.
  destruct (run fuel false c [] ((QFr f org, d) :: rest) errs out t) as [[s|e|] t'].
  2: contradiction.
  2: destruct (elab c f); try destruct (classify _ _); exact I.
  destruct H as (sflat & es1 & frs & lf & es2 & HU & HR & HV).
  inversion HU; subst sflat es1. rewrite app_nil_r in HR. cbn [map er_t fst snd er] in HR.
  rewrite HV. clear HV HU.
  inversion HR; subst; clear HR; try discriminate.
  - destruct (elab c f) eqn:E; try congruence;
      match goal with H : classify _ _ = Keep |- _ => rewrite H end; eauto 6.
  - destruct (elab c f) eqn:E; try congruence;
      match goal with H : classify _ _ = Replace _ |- _ => rewrite H end;
      (eexists _, _, _; split; [econstructor; eauto|reflexivity]).
  - destruct (elab c f) eqn:E; try congruence;
      match goal with H : classify _ _ = Insert _ |- _ => rewrite H end;
      (eexists _, _, _; split; [econstructor; eauto|reflexivity]).
  - match goal with H : elab c f = ERaise |- _ => rewrite H end.
    eexists _, _, _; split; [econstructor; eauto|reflexivity].
Qed.

(* ------------------------------------------------------------------ C10_prune_exact / replace / insert *)

Lemma prune_exact c fuel f org d rest errs out t :
  plain c -> nopy rest -> elab c f = ESeq [] ->
  let gone := callees d rest in
  let kept := survivors d rest in
  rest = gone ++ kept /\ Forall (fun e => d <= snd e) gone /\
  (forall q d' k, kept = (q, d') :: k -> d' < d) /\
  run_result_is c (run fuel false c [] ((QFr f org, d) :: rest) errs out t)
                out errs f (prehide c f) [] (map er_t kept).
Proof.
  intros P NP E gone kept.
  destruct (callees_survivors d rest) as (A & B & C).
  repeat split; auto.
  pose proof (run_frame_ref c P fuel f org d rest errs out t NP) as H.
  unfold frame_spec in H. rewrite E in H. simpl in H.
  unfold kept. rewrite <- survivors_map. exact H.
Qed.

(* `items[-1] is next_inner` *)
Definition ends_next (next : option sitem) (l : list ritem) : bool :=
  match rev l with r :: _ => is_next next r | [] => false end.

Lemma replace_rule c fuel f org d rest errs out t l :
  plain c -> nopy rest -> elab c f = ESeq l ->
  let next := next_of_s (map er_t rest) in
  ends_next next l = false ->
  run_result_is c (run fuel false c [] ((QFr f org, d) :: rest) errs out t)
                out errs f (prehide c f) []
                (at_depth d (map (conc_s next) l) ++ map er_t (survivors d rest)).
Proof.
  intros P NP E next EN.
  pose proof (run_frame_ref c P fuel f org d rest errs out t NP) as H.
  unfold frame_spec in H. rewrite E in H. fold next in H.
  unfold classify, seq_action in H. unfold ends_next in EN.
  rewrite <- survivors_map.
  destruct (rev l) as [|r pre] eqn:R.
  - assert (l = []) as -> by (destruct l; auto; simpl in R; destruct (rev l); discriminate).
    exact H.
  - rewrite EN in H. exact H.
Qed.

Lemma insert_rule c fuel f org d rest errs out t l r :
  plain c -> nopy rest -> elab c f = ESeq (l ++ [r]) ->
  let next := next_of_s (map er_t rest) in
  is_next next r = true ->
  run_result_is c (run fuel false c [] ((QFr f org, d) :: rest) errs out t)
                out errs f (prehide c f) []
                (at_depth d (map (conc_s next) l) ++ redepth_s d (map er_t rest)).
Proof.
  intros P NP E next EN.
  pose proof (run_frame_ref c P fuel f org d rest errs out t NP) as H.
  unfold frame_spec in H. rewrite E in H. fold next in H.
  unfold classify, seq_action in H. rewrite rev_app_distr in H. simpl in H.
  rewrite EN, rev_involutive in H. exact H.
Qed.

(* the depth bookkeeping of the insert form: only next_inner may change depth, to min d d' *)
Lemma redepth_s_spec d rest :
  map fst (redepth_s d rest) = map fst rest /\
  match rest, redepth_s d rest with
  | (_, d') :: r, (_, d'') :: r' => d'' = Nat.min d d' /\ r' = r
  | [], [] => True
  | _, _ => False
  end.
Proof. destruct rest as [|[s d'] r]; simpl; auto. Qed.

(* ------------------------------------------------------------------ C10_none_is_flatten *)

Fixpoint frame_prefix (c : cfg) (flat : list sent) : list (nat * bool) :=
  match flat with (SFrame f, _) :: r => (f, prehide c f) :: frame_prefix c r | _ => [] end.
Fixpoint after_frames (flat : list sent) : list sent :=
  match flat with (SFrame _, _) :: r => after_frames r | _ => flat end.

Lemma RefFlat_all_none c : (forall f, elab c f = ENone) ->
  forall flat r, RefFlat c flat r -> r = (frame_prefix c flat, map fst (after_frames flat), []).
Proof.
  intros AN flat r H. induction H; simpl; auto.
  - destruct s; try discriminate; reflexivity.
  - inversion IHRefFlat; subst. reflexivity.
  - rewrite AN in *. discriminate.
  - rewrite AN in *. discriminate.
  - rewrite AN in *. discriminate.
Qed.

Lemma none_is_flatten c root s :
  plain c -> (forall f, elab c f = ENone) -> extract c root = Ok s ->
  exists flat es, Unw c 0 [(s_of root, 0)] flat es /\
                  view s = (frame_prefix c flat, map fst (after_frames flat), es).
Proof.
  intros P AN E. destruct (model_eq_ref c root P) as (s' & E' & HR); [congruence|].
  rewrite E in E'. inversion E'; subst s'. inversion HR; subst.
  exists flat, es1. split; auto.
  match goal with H : RefFlat _ _ _ |- _ => apply (RefFlat_all_none c AN) in H; inversion H; subst end.
  rewrite app_nil_r. reflexivity.
Qed.

(* ------------------------------------------------------------------ C10_guard *)

(* a linear chain o 0 -> o 1 -> ... that reaches neither a frame nor None within [uguard c]
   unwraps: the (uguard c + 1)-th hook call is refused *)
Lemma flatten_chain c (o : nat -> nat) :
  (forall t, fault c t = false) -> g_unwrap (grd c) = true ->
  (forall k, k < uguard c -> unwrap c (o k) = UOne (IObj (o (S k)))) ->
  unwrap c (o (uguard c)) <> URaise ->
  forall m j, j + m = uguard c ->
  forall fuel org d te errs t, m + 2 <= fuel ->
  exists t', flatten fuel j c [(org, QObj (o j), d)] te errs t =
             FlOk (rev ((QObj (o (uguard c)), d + m) :: te)) (ELoop (QObj (o (uguard c))) :: errs) t'.
Proof.
  intros NF GU CH NR. induction m as [|m IH]; intros j EJ fuel org d te errs t LE.
  - assert (j = uguard c) by lia. subst j.
    destruct fuel as [|[|fuel]]; try lia. rewrite Nat.add_0_r.
    cbn [flatten]. rewrite NF, GU.
    assert (G : (uguard c <? S (uguard c)) = true) by (apply Nat.ltb_lt; lia).
    rewrite G.
    destruct (unwrap c (o (uguard c))); try congruence; eauto.
  - destruct fuel as [|fuel]; try lia.
    cbn [flatten]. rewrite NF, GU, (CH j) by lia.
    assert (G : (uguard c <? S j) = false) by (apply Nat.ltb_ge; lia).
    rewrite G. cbn [map app q_of].
    replace (d + S m) with (S d + m) by lia.
    apply IH; lia.
Qed.

Lemma guard_run c (o : nat -> nat) fuel t :
  (forall t, fault c t = false) -> g_unwrap (grd c) = true ->
  (forall k, k < uguard c -> unwrap c (o k) = UOne (IObj (o (S k)))) ->
  unwrap c (o (uguard c)) <> URaise ->
  uguard c + 2 <= fuel ->
  fst (run fuel false c (root_q c (IObj (o 0))) [] [] [] t)
  = Ok (Stack [] (LOne (QObj (o (uguard c)))) [ELoop (QObj (o (uguard c)))]).
Proof.
  intros NF GU CH NR LE. destruct fuel as [|fuel]; [lia|].
  destruct (flatten_chain c o NF GU CH NR (uguard c) 0 eq_refl (S fuel)
              (better_origin c (QObj (o 0)) None) 0 [] [] t) as [t' E]; [lia|].
  cbn [run rev app]. unfold root_q. cbn [q_of]. rewrite E. reflexivity.
Qed.

Lemma guard_extract c (o : nat -> nat) :
  (forall t, fault c t = false) -> g_unwrap (grd c) = true ->
  uguard c = SrcFacts.unwrap_guard ->
  (forall k, k < SrcFacts.unwrap_guard -> unwrap c (o k) = UOne (IObj (o (S k)))) ->
  unwrap c (o SrcFacts.unwrap_guard) <> URaise ->
  extract c (IObj (o 0))
  = Ok (Stack [] (LOne (QObj (o SrcFacts.unwrap_guard))) [ELoop (QObj (o SrcFacts.unwrap_guard))]).
Proof.
  intros NF GU UG CH NR. rewrite <- UG in *.
  unfold extract, extract_t. apply guard_run; auto.
  rewrite UG. apply Nat.leb_le. vm_compute. reflexivity.
Qed.

(* ------------------------------------------------------------------ C10_iter_keeps_prefix *)

(* c2 is c except that object o, whose hook in c returns an iterator that contributes the items l
   (the non-None values it yields) and then stops or raises, returns in c2 a plain sequence l2 with
   the same non-None entries (None entries anywhere in between) *)
Definition iter_as_seq (c c2 : cfg) (o : nat) (l : list item) : Prop :=
  (exists b, unwrap c o = UIter l b) /\ (exists l2, unwrap c2 o = USeq l2 /\ somes l2 = l) /\
  (forall o', o' <> o -> unwrap c2 o' = unwrap c o') /\
  (forall f, elab c2 f = elab c f) /\ (forall f, prehide c2 f = prehide c f) /\
  uguard c2 = uguard c.

Lemma somes_map_Some {A} (l : list A) : somes (map Some l) = l.
Proof. induction l; simpl; congruence. Qed.

Lemma Unw_iter_as_seq c c2 o l : iter_as_seq c c2 o l ->
  forall n seq out es, Unw c n seq out es -> exists es', Unw c2 n seq out es'.
Proof.
  intros ([b0 U1] & (l2 & U2 & SL) & UO & EL & PH & UG) n seq out es H.
  induction H; try destruct IHUnw as [es' IH].
  - eexists; constructor.
  - eexists; constructor; eauto.
  - destruct (Nat.eq_dec o0 o) as [->|NE]; [congruence|].
    eexists; apply U_raise; eauto. rewrite UO; auto.
  - eexists; apply U_guard; eauto; try lia.
    destruct s as [f|o0|]; simpl in *; auto.
    destruct (Nat.eq_dec o0 o) as [->|NE]; [rewrite U2; discriminate|rewrite UO; auto].
  - eexists; apply U_irreducible; eauto; try lia.
    destruct s as [f|o0|]; simpl in *; auto.
    destruct (Nat.eq_dec o0 o) as [->|NE]; [congruence|rewrite UO; auto].
  - destruct (Nat.eq_dec o0 o) as [->|NE]; [congruence|].
    eexists; eapply U_item; eauto; try lia. rewrite UO; eauto.
  - destruct (Nat.eq_dec o0 o) as [->|NE]; [congruence|].
    eexists; eapply U_seq; eauto; try lia. rewrite UO; eauto.
  - destruct (Nat.eq_dec o0 o) as [->|NE].
    + rewrite U1 in H. inversion H; subst l0 b.
      eexists; eapply U_seq; eauto; try lia. rewrite SL. eauto.
    + eexists; eapply U_iter; eauto; try lia. rewrite UO; eauto.
Qed.

Lemma RefFlat_iter_as_seq c c2 o l : iter_as_seq c c2 o l ->
  forall flat r, RefFlat c flat r ->
  exists es', RefFlat c2 flat (fst (fst r), snd (fst r), es').
Proof.
  intros IS flat r H. pose proof IS as (U1 & U2 & UO & EL & PH & UG).
  induction H; simpl in *.
  - eexists; constructor.
  - eexists; apply RF_leaf; auto.
  - destruct IHRefFlat as [es' IH]. rewrite <- PH.
    eexists; apply RF_keep; eauto; rewrite EL; auto.
  - destruct IHRefFlat as [es' IH]. rewrite <- PH.
    match goal with HU0 : Unw c _ _ _ _ |- _ =>
      destruct (Unw_iter_as_seq c c2 o l IS _ _ _ _ HU0) as [es1' HU] end.
    eexists; eapply RF_replace; eauto; rewrite EL; auto.
  - destruct IHRefFlat as [es' IH]. rewrite <- PH.
    match goal with HU0 : Unw c _ _ _ _ |- _ =>
      destruct (Unw_iter_as_seq c c2 o l IS _ _ _ _ HU0) as [es1' HU] end.
    eexists; eapply RF_insert; eauto; rewrite EL; auto.
  - destruct IHRefFlat as [es' IH].
    match goal with HU0 : Unw c _ _ _ _ |- _ =>
      destruct (Unw_iter_as_seq c c2 o l IS _ _ _ _ HU0) as [es1' HU] end.
    eexists; eapply RF_raise; eauto; rewrite EL; auto.
Qed.

Lemma iter_keeps_prefix c c2 o l root s s2 :
  plain c -> plain c2 -> iter_as_seq c c2 o l ->
  extract c root = Ok s -> extract c2 root = Ok s2 ->
  fst (view s) = fst (view s2).
Proof.
  intros P P2 IS E E2.
  destruct (model_eq_ref c root P) as (s' & E' & HR); [congruence|].
  rewrite E in E'. inversion E'; subst s'.
  inversion HR as [seq flat es1 frs lf es2 HU1 HF1 EQ1 EQ2]; subst.
  destruct (Unw_iter_as_seq c c2 o l IS _ _ _ _ HU1) as [es1' HU].
  destruct (RefFlat_iter_as_seq c c2 o l IS _ _ HF1) as [es2' HF]. simpl in HF.
  assert (R2 : Ref c2 [(s_of root, 0)] (frs, lf, es1' ++ es2')) by (econstructor; eauto).
  rewrite (model_eq_ref_unique c2 root s2 _ P2 E2 R2). reflexivity.
Qed.

(* ------------------------------------------------------------------ the configurations of the
   generated cases (no faults, no contexts, all guards) are plain, whatever the tables *)
Lemma mkcfg_plain u e a cx fl ug : plain (mkcfg u e a cx fl [] false all_guards ug).
Proof. repeat split. Qed.

Lemma guards_regenerated :
  extract_g_unwrap = g_unwrap all_guards /\ extract_g_iter = g_iter all_guards /\
  extract_g_elab = g_elab all_guards.
Proof. repeat split. Qed.

(* ------------------------------------------------------------------ Examples: the hypotheses of
   the theorems are met by non-trivial inputs *)

(* insert inside insert, then a prune issued by the (re-depthed) next_inner; a None element in a
   sequence; an iterator that raises after two items *)
Definition ex_cfg : cfg :=
  mkcfg [(0, USeq [Some (IPy 0); None; Some (IObj 1)]); (1, UIter [IPy 2; IPy 3] true)]
        [(0, (ESeq [RItem (IPy 1); RNext], true)); (1, (ESeq [RItem (IPy 4); RNext], false));
         (2, (ESeq [], false))]
        [] [] [] [] false all_guards 100.
Definition ex_cfg2 : cfg :=
  mkcfg [(0, USeq [Some (IPy 0); None; Some (IObj 1)]); (1, USeq [Some (IPy 2); Some (IPy 3)])]
        [(0, (ESeq [RItem (IPy 1); RNext], true)); (1, (ESeq [RItem (IPy 4); RNext], false));
         (2, (ESeq [], false))]
        [] [] [] [] false all_guards 100.

Example ex_plain : plain ex_cfg.
Proof. apply mkcfg_plain. Qed.

Example ex_extract :
  extract ex_cfg (IObj 0) =
  Ok (Stack [FOut 0 true None []; FOut 1 false None []; FOut 4 true None []; FOut 2 false None []]
            LNone [EIter 1]).
Proof. vm_compute. reflexivity. Qed.

Example ex_not_out_of_fuel : extract ex_cfg (IObj 0) <> OutOfFuel.
Proof. rewrite ex_extract. discriminate. Qed.

Example ex_ref_run :
  ref_run default_fuel ex_cfg [(s_of (IObj 0), 0)] =
  Some ([(0, true); (1, false); (4, true); (2, false)], [], [EIter 1]).
Proof. vm_compute. reflexivity. Qed.

(* prune_exact / replace_rule / insert_rule: frame 2 (depth 1, PRUNE) before its callee at depth 2
   and an outward entry at depth 0 *)
Example ex_prune_state :
  let rest := [(QFr 3 None, 2); (QFr 9 None, 0)] in
  nopy rest /\ elab ex_cfg 2 = ESeq [] /\
  callees 1 rest = [(QFr 3 None, 2)] /\ survivors 1 rest = [(QFr 9 None, 0)].
Proof.
  repeat split. intros f d [H|[H|[]]]; discriminate.
Qed.

Example ex_insert_state :
  let rest := [(QFr 2 None, 2); (QFr 3 None, 2)] in
  nopy rest /\ elab ex_cfg 0 = ESeq ([RItem (IPy 1)] ++ [RNext]) /\
  is_next (next_of_s (map er_t rest)) RNext = true /\
  redepth_s 1 (map er_t rest) = [(SFrame 2, 1); (SFrame 3, 2)].
Proof.
  repeat split. intros f d [H|[H|[]]]; discriminate.
Qed.

Example ex_replace_state :
  let c := mkcfg [] [(0, (ESeq [RItem (IObj 7)], true))] [] [] [] [] false all_guards 100 in
  let rest := [(QFr 2 None, 2); (QFr 3 None, 0)] in
  plain c /\ nopy rest /\ elab c 0 = ESeq [RItem (IObj 7)] /\
  ends_next (next_of_s (map er_t rest)) [RItem (IObj 7)] = false.
Proof.
  repeat split. intros f d [H|[H|[]]]; discriminate.
Qed.

Example ex_iter_as_seq : plain ex_cfg2 /\ iter_as_seq ex_cfg ex_cfg2 1 [IPy 2; IPy 3].
Proof.
  split; [apply mkcfg_plain|]. split; [exists true; reflexivity|].
  split; [exists [Some (IPy 2); Some (IPy 3)]; split; reflexivity|]. repeat split.
  intros o' NE. destruct o' as [|[|o']]; try reflexivity. congruence.
Qed.
(* the same iterator against a sequence with None entries in between *)
Definition ex_cfg3 : cfg :=
  mkcfg [(0, USeq [Some (IPy 0); None; Some (IObj 1)]); (1, USeq [None; Some (IPy 2); None; Some (IPy 3); None])]
        [(0, (ESeq [RItem (IPy 1); RNext], true)); (1, (ESeq [RItem (IPy 4); RNext], false));
         (2, (ESeq [], false))]
        [] [] [] [] false all_guards 100.
Example ex_iter_as_seq_none : plain ex_cfg3 /\ iter_as_seq ex_cfg ex_cfg3 1 [IPy 2; IPy 3].
Proof.
  split; [apply mkcfg_plain|]. split; [exists true; reflexivity|].
  split; [exists [None; Some (IPy 2); None; Some (IPy 3); None]; split; reflexivity|]. repeat split.
  intros o' NE. destruct o' as [|[|o']]; try reflexivity. congruence.
Qed.

Example ex_all_none :
  let c := mkcfg [(0, USeq [Some (IPy 0); Some (IObj 1)]); (1, UOne (IPy 1))] [] [] [] [] [] false all_guards 100 in
  plain c /\ (forall f, elab c f = ENone) /\
  extract c (IObj 0) = Ok (Stack [FOut 0 true None []; FOut 1 true None []] LNone []).
Proof. repeat split. Qed.

(* the guard: the infinite chain 0 -> 1 -> 2 -> ... *)
Definition chain_cfg : cfg :=
  {| unwrap := fun o => UOne (IObj (S o)); elab := fun _ => ENone; prehide := fun _ => false;
     attr := fun _ => default_attr; ctxs := fun _ => CtxOk []; fill := fun _ => FillOk [];
     fault := fun _ => false; with_ctx := false; grd := all_guards;
     uguard := SrcFacts.unwrap_guard |}.

Example ex_guard :
  extract chain_cfg (IObj 0)
  = Ok (Stack [] (LOne (QObj SrcFacts.unwrap_guard)) [ELoop (QObj SrcFacts.unwrap_guard)]).
Proof.
  apply (guard_extract chain_cfg (fun k => k)); try reflexivity. discriminate.
Qed.

(* ------------------------------------------------------------------ customize(): composition of
   the user's elaborate result with the prune flag *)
Lemma customized_spec hide prune :
  (* no user hook, or it returns None: PRUNE iff prune *)
  (forall h, fst (customized hide prune (Some (ENone, h))) = (if prune then ESeq [] else ENone)) /\
  fst (customized hide prune None) = (if prune then ESeq [] else ENone) /\
  snd (customized hide prune None) = hide /\
  (* any sequence result -- in particular the empty one, PRUNE -- is returned as it is, whatever prune *)
  (forall l h, customized hide prune (Some (ESeq l, h)) = (ESeq l, h)) /\
  (forall i h, customized hide prune (Some (EOne (RItem i), h)) = (EOne (RItem i), h)) /\
  (forall h, customized hide prune (Some (ERaise, h)) = (ERaise, h)).
Proof. repeat split. Qed.

(* hence a customize()d frame whose user hook returns PRUNE / () / [] prunes exactly like a directly
   registered hook, also with prune left at its default *)
Lemma customized_prune_exact u e a cx fl ug f hide h fuel org d rest errs out t :
  let c := mkcfg u ((f, customized hide false (Some (ESeq [], h))) :: e) a cx fl [] false all_guards ug in
  nopy rest ->
  run_result_is c (run fuel false c [] ((QFr f org, d) :: rest) errs out t)
                out errs f h [] (map er_t (survivors d rest)).
Proof.
  intros c NP.
  assert (E : elab c f = ESeq []) by (unfold c; simpl; rewrite Nat.eqb_refl; reflexivity).
  assert (H : prehide c f = h) by (unfold c; simpl; rewrite Nat.eqb_refl; reflexivity).
  destruct (prune_exact c fuel f org d rest errs out t (mkcfg_plain _ _ _ _ _ _) NP E) as (_ & _ & _ & R).
  rewrite H in R. exact R.
Qed.
