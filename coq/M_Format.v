(* M_Format.v — executable model of the tree formatter of stackscope/_types.py
   (Stack._format, Frame._format, Context._format, Stack._format_header, Stack._format_error,
   Context._name_and_type), definitions only.

   Text is a list of Unicode code points.  The formatter is written ONCE, over an abstract
   "line algebra" (literal line, prepend a marker, the code's `line.startswith(child_context_
   indicator)` test, the code's `not line.strip()` test) and instantiated twice:
     - strings  (what the code really builds: marker strings are prepended, the two tests look
                 at the characters), markers taken from gen/SrcFacts.v (regenerated from source);
     - structured lines  (list of markers x body), where the two tests look at the markers.
   P_Format.v proves that the string instance is the marker-wise rendering of the structured one
   and that a column-state parser reads the structured lines back into the tree's skeleton.

   Environment inputs (not computed by the model): reprs of root / leaf / context objects, type
   names, the linecache lookups (already stripped) at a frame's line and at a context's start
   line, the raw strings returned by traceback.format_exception for the error. *)
Require Import Base.
From Coq Require Import NArith String Ascii.
From SS.gen Require Import SrcFacts.

Definition text := list N.
Definition a (s : string) : text := map N_of_ascii (list_ascii_of_string s).
Definition nl : text := [10%N].
Definition text_eqb (x y : text) : bool := list_eqb N.eqb x y.

Fixpoint uint_text (u : Decimal.uint) : text :=
  match u with
  | Decimal.Nil => []
  | Decimal.D0 r => 48%N :: uint_text r | Decimal.D1 r => 49%N :: uint_text r
  | Decimal.D2 r => 50%N :: uint_text r | Decimal.D3 r => 51%N :: uint_text r
  | Decimal.D4 r => 52%N :: uint_text r | Decimal.D5 r => 53%N :: uint_text r
  | Decimal.D6 r => 54%N :: uint_text r | Decimal.D7 r => 55%N :: uint_text r
  | Decimal.D8 r => 56%N :: uint_text r | Decimal.D9 r => 57%N :: uint_text r
  end.
Definition dec (n : N) : text := uint_text (N.to_uint n).

(* str.isspace() *)
Definition is_space (c : N) : bool :=
  existsb (N.eqb c) [9;10;11;12;13;28;29;30;31;32;133;160;5760;8192;8193;8194;8195;8196;8197;8198;
                     8199;8200;8201;8202;8232;8233;8239;8287;12288]%N.
Definition all_space (t : text) : bool := forallb is_space t.
Fixpoint lstrip (t : text) : text :=
  match t with c :: r => if is_space c then lstrip r else t | [] => [] end.
Definition strip (t : text) : text := rev (lstrip (rev (lstrip t))).

(* str.splitlines() (no keepends): pieces without their terminator *)
Definition is_sep (c : N) : bool := existsb (N.eqb c) [10;11;12;13;28;29;30;133;8232;8233]%N.
Fixpoint splitn (cur : text) (s : text) : list text :=
  match s with
  | [] => match cur with [] => [] | _ => [rev cur] end
  | c :: r =>
      if N.eqb c 13 then
        match r with
        | c2 :: r' => if N.eqb c2 10 then rev cur :: splitn [] r' else rev cur :: splitn [] r
        | [] => [rev cur]
        end
      else if is_sep c then rev cur :: splitn [] r
      else splitn (c :: cur) r
  end.
Definition splitlines (s : text) : list text := splitn [] s.

Fixpoint prefix_b (p t : text) : bool :=
  match p, t with
  | [], _ => true
  | x :: p', y :: t' => N.eqb x y && prefix_b p' t'
  | _ :: _, [] => false
  end.

(* ------------------------------------------------------------------ markers *)
Inductive marker :=
  | SF    (* start_frame *)         | CF   (* continue_frame *)   | SL  (* start_leaf *)
  | SCX   (* start_context *)       | CCX  (* continue_context *) | SCC (* start_child_context *)
  | SCODE (* start_code *)          | SC   (* start_child *)      | CC  (* continue_child = "  " *)
  | ERR   (* the two blanks that indent every line of the error section *)
  | CCI   (* child_context_indicator: only ever tested, never prepended *).

Definition marker_eqb (x y : marker) : bool :=
  match x, y with
  | SF, SF | CF, CF | SL, SL | SCX, SCX | CCX, CCX | SCC, SCC | SCODE, SCODE | SC, SC
  | CC, CC | ERR, ERR | CCI, CCI => true
  | _, _ => false
  end.

Definition marker_name (m : marker) : option string :=
  match m with
  | SF => Some "start_frame" | CF => Some "continue_frame" | SL => Some "start_leaf"
  | SCX => Some "start_context" | CCX => Some "continue_context"
  | SCC => Some "start_child_context" | SCODE => Some "start_code" | SC => Some "start_child"
  | CCI => Some "child_context_indicator" | CC | ERR => None
  end%string.

Fixpoint find_marker (tbl : list (string * list N * list N)) (n : string) : option (list N * list N) :=
  match tbl with
  | [] => None
  | (k, u, asc) :: r => if String.eqb k n then Some (u, asc) else find_marker r n
  end.

(* the string a marker stands for: from the table regenerated from _types.py; the two constant
   indents are literals in the source ("  ").  A name missing from the table yields the empty
   string, which the well-formedness check of P_Format rejects. *)
Definition mstr_tbl (tbl : list (string * list N * list N)) (asc : bool) (m : marker) : text :=
  match marker_name m with
  | None => [32%N; 32%N]
  | Some n => match find_marker tbl n with
              | Some (u, x) => if asc then x else u
              | None => []
              end
  end.
Definition mstr := mstr_tbl SrcFacts.markers.

(* ------------------------------------------------------------------ trees *)
Record fopts := { ascii : bool; show_ctx : bool; show_hidden : bool }.

Inductive stack :=
  Stk (root : option text)          (* repr(root) when root is not None *)
      (frames : list frame)
      (leaf : option text)          (* repr(leaf) when leaf is not None *)
      (err : option (list text))    (* traceback.format_exception(...) when error is not None *)
with frame :=
  Frm (func : text) (cls : option text) (modn : option text) (file : text) (lineno : N)
      (src : text)                  (* linecache.getline(filename, lineno, globals).strip() *)
      (flocals : list (text * text)) (* sorted (name, repr(value)) of f_locals: only the summaries use it *)
      (hide hide_line : bool) (ctxs : list context)
with context :=
  Ctx (objty : option text)         (* type(obj).__name__ when obj is not None *)
      (is_async is_exiting : bool)
      (varname : option text) (start_line : option N) (descr : option text)
      (csrc : text)                 (* linecache.getline(parent.filename, start_line).strip() *)
      (crepr : text)                (* repr(context): only the summaries use it *)
      (orepr : text)                (* repr(obj): only the summaries use it *)
      (inner : option stack) (kids : list child) (chide : bool)
with child := KCtx (c : context) | KStk (s : stack).

Definition s_root (s : stack) := let 'Stk r _ _ _ := s in r.
Definition s_frames (s : stack) := let 'Stk _ f _ _ := s in f.
Definition s_leaf (s : stack) := let 'Stk _ _ l _ := s in l.
Definition s_err (s : stack) := let 'Stk _ _ _ e := s in e.
Definition f_hide (f : frame) := let 'Frm _ _ _ _ _ _ _ h _ _ := f in h.
Definition f_ctxs (f : frame) := let 'Frm _ _ _ _ _ _ _ _ _ c := f in c.
Definition c_hide (c : context) := let 'Ctx _ _ _ _ _ _ _ _ _ _ _ h := c in h.
Definition c_exiting (c : context) := let 'Ctx _ _ e _ _ _ _ _ _ _ _ _ := c in e.

Definition nonempty {A} (l : list A) : bool := match l with [] => false | _ => true end.
Definition truthy (o : option text) : bool := match o with Some (_ :: _) => true | _ => false end.

(* ------------------------------------------------------------------ the texts of single lines *)
Definition header_text (root : option text) : text :=
  match root with
  | Some r => a "stackscope.Stack of " ++ r ++ a " (most recent call last):" ++ nl
  | None => a "stackscope.Stack (most recent call last):" ++ nl
  end.

Definition tb_header : text := a "Traceback (most recent call last):" ++ nl.
Definition err_sublines (raw : list text) : list text :=
  (* `for subline in line.splitlines(): yield "  " + subline + "\n"` *)
  flat_map (fun l => if text_eqb l tb_header then [] else map (fun p => p ++ nl) (splitlines l)) raw.
Definition err_title : text := a "Error while extracting stack:" ++ nl.

Definition frame_header (f : frame) : text :=
  let 'Frm fn cls md file ln _ _ _ _ _ := f in
  (match cls with Some c => c ++ a "." ++ fn | None => fn end)
  ++ a " in " ++ (if truthy md then match md with Some m => m | None => [] end else a "unknown module")
  ++ a " at " ++ file ++ a ":" ++ dec ln ++ nl.

(* Frame.linetext *)
Definition frame_linetext (f : frame) : text :=
  let 'Frm _ _ _ _ ln src _ _ hl _ := f in
  if N.eqb ln 0 || hl then [] else src.

(* Context._name_and_type *)
Definition name_and_type (c : context) : text :=
  let 'Ctx ty _ _ vn _ _ _ _ _ _ _ _ := c in
  match ty with
  | Some t => (if truthy vn then match vn with Some v => v | None => [] end else a "_") ++ a ": " ++ t
  | None => match vn with Some v => v | None => [] end
  end.

Fixpoint join_sp (l : list text) : text :=
  match l with [] => [] | [x] => x | x :: r => x ++ a " " ++ join_sp r end.

(* first line of Context._format *)
Definition ctx_line (has_parent show_lineno : bool) (c : context) : text :=
  let 'Ctx _ asy _ _ sl ds cs _ _ _ _ _ := c in
  let lt0 := match sl with Some _ => if has_parent then cs else [] | None => [] end in
  let lt := if nonempty lt0 then lt0
            else if truthy ds then match ds with Some d => d | None => [] end
            else if asy then a "async with <???>:" else a "with <???>:" in
  let info := name_and_type c in
  let parts := (if nonempty info then [info] else [])
               ++ (match sl with
                   | Some n => if show_lineno then [a "(line " ++ dec n ++ a ")"] else []
                   | None => [] end) in
  (if nonempty parts then lt ++ a "  # " ++ join_sp parts else lt) ++ nl.

Definition child_root_line (root : option text) : text :=
  match root with Some r => r ++ nl | None => a "<unidentified child>" ++ nl end.

Definition last_exiting (cs : list context) : bool :=
  match last_opt cs with Some c => c_exiting c | None => false end.

(* ------------------------------------------------------------------ the formatter, generically *)
Section Fmt.
  Variable L : Type.
  Variable lit : text -> L.              (* a line without marker; the text ends with its newline *)
  Variable add : marker -> L -> L.        (* marker + line *)
  Variable is_child : L -> bool.          (* line.startswith(child_context_indicator) *)
  Variable is_blank : L -> bool.          (* not line.strip() *)
  Variables sc sh : bool.              (* show_contexts, show_hidden_frames *)

  (* `marker = A if idx == 0 else B` over enumerate(lines) *)
  Definition prefix_block (A B : marker) (ls : list L) : list L :=
    match ls with [] => [] | l0 :: r => add A l0 :: map (add B) r end.

  (* the three-way choice of Frame._format *)
  Definition prefix_ctx (ls : list L) : list L :=
    match ls with
    | [] => []
    | l0 :: r => add SCX l0 :: map (fun l => if is_child l then add SCC l else add CCX l) r
    end.

  Definition err_lines (e : option (list text)) : list L :=
    match e with
    | None => []
    | Some raw => add ERR (lit err_title) :: map (fun s => add ERR (lit s)) (err_sublines raw)
    end.

  Definition leaf_lines (l : option text) : list L :=
    match l with Some r => [add SL (lit (r ++ nl))] | None => [] end.

  Definition code_lines (f : frame) : list L :=
    if last_exiting (f_ctxs f) then []
    else let lt := frame_linetext f in
         if nonempty lt then [add SCODE (lit (lt ++ nl))] else [].

  Definition last_blank (sub : list L) : bool :=
    match last_opt sub with Some l => is_blank l | None => false end.

  (* the loop over Context.children; [fc] formats a child context, [fb] the body of a child stack *)
  Section Kids.
    Variables (fc : context -> list L) (fb : stack -> list L).
    (* (blank line put before the child, the child's `sublines`) *)
    Definition kid_lines (did_blank : bool) (k : child) : list L * list L :=
      match k with
      | KCtx c' => ([], fc c')
      | KStk s =>
          let sub0 := lit (child_root_line (s_root s)) :: fb s in
          if nonempty (s_frames s)
          then ((if did_blank then [] else [add CC (lit nl)]), sub0 ++ [lit nl])
          else ([], sub0)
      end.
    Fixpoint fmt_kids (did_blank : bool) (ks : list child) : list L :=
      match ks with
      | [] => []
      | k :: r =>
          fst (kid_lines did_blank k) ++ prefix_block SC CC (snd (kid_lines did_blank k))
          ++ fmt_kids (last_blank (snd (kid_lines did_blank k))) r
      end.
  End Kids.

  (* Stack._format without its first (header) line *)
  Fixpoint fmt_body (s : stack) : list L :=
    let 'Stk _ fs lf er := s in
    flat_map (fun f => if f_hide f && negb sh then []
                       else prefix_block SF CF (fmt_frame f)) fs
    ++ leaf_lines lf ++ err_lines er
  with fmt_frame (f : frame) : list L :=
    lit (frame_header f)
    :: (if sc then flat_map (fun c => prefix_ctx (fmt_ctx true true c)) (f_ctxs f) else [])
    ++ code_lines f
  with fmt_ctx (has_parent show_lineno : bool) (c : context) : list L :=
    if c_hide c && negb sh then []
    else
      let 'Ctx _ _ _ _ _ _ _ _ _ inn ks _ := c in
      lit (ctx_line has_parent show_lineno c)
      :: (match inn with Some s => fmt_body s | None => [] end)
      ++ fmt_kids (fmt_ctx false false) fmt_body false ks.

  Definition fmt_stack (s : stack) : list L := lit (header_text (s_root s)) :: fmt_body s.
End Fmt.

(* ---- instance 1: strings, exactly as the code composes them *)
Definition str_add (asc : bool) (m : marker) (l : text) : text := mstr asc m ++ l.
Definition str_is_child (asc : bool) (l : text) : bool := prefix_b (mstr asc CCI) l.

Definition fmt_stack_str (o : fopts) := fmt_stack text (fun t => t) (str_add (ascii o)) (str_is_child (ascii o)) all_space (show_ctx o) (show_hidden o).
Definition fmt_frame_str (o : fopts) := fmt_frame text (fun t => t) (str_add (ascii o)) (str_is_child (ascii o)) all_space (show_ctx o) (show_hidden o).
Definition fmt_ctx_str (o : fopts) := fmt_ctx text (fun t => t) (str_add (ascii o)) (str_is_child (ascii o)) all_space (show_ctx o) (show_hidden o).

(* ---- instance 2: structured lines = marker chain (outermost first) x body *)
Definition sline := (list marker * text)%type.
Definition sl_lit (t : text) : sline := ([], t).
Definition sl_add (m : marker) (l : sline) : sline := (m :: fst l, snd l).
Definition sl_is_child (l : sline) : bool := match fst l with SC :: _ => true | _ => false end.
Definition spacey (m : marker) : bool := match m with CC | ERR => true | _ => false end.
Definition sl_is_blank (l : sline) : bool := forallb spacey (fst l) && all_space (snd l).

Definition fmt_stack_sl (o : fopts) := fmt_stack sline sl_lit sl_add sl_is_child sl_is_blank (show_ctx o) (show_hidden o).
Definition fmt_frame_sl (o : fopts) := fmt_frame sline sl_lit sl_add sl_is_child sl_is_blank (show_ctx o) (show_hidden o).
Definition fmt_ctx_sl (o : fopts) := fmt_ctx sline sl_lit sl_add sl_is_child sl_is_blank (show_ctx o) (show_hidden o).
Definition fmt_body_sl (o : fopts) := fmt_body sline sl_lit sl_add sl_is_child sl_is_blank (show_ctx o) (show_hidden o).

Definition render (asc : bool) (l : sline) : text := flat_map (mstr asc) (fst l) ++ snd l.

(* ------------------------------------------------------------------ skeleton and read-back *)
(* What the text is expected to encode: per node the body of its own line and the nesting.
   Inner stack None and an empty inner stack are the same skeleton; a child task stack and a
   child context are both a [SkNode] (own line, frames/leaf/error below it, children). *)
Inductive sk_stack := SkStack (fs : list sk_frame) (lf : option text) (er : list text)
with sk_frame := SkFrame (hdr : text) (cx : list sk_node) (code : option text)
with sk_node := SkNode (line : text) (inner : sk_stack) (kids : list sk_node).

Definition vis (o : fopts) (h : bool) : bool := negb h || show_hidden o.


Fixpoint sk_body (o : fopts) (s : stack) : sk_stack :=
  let 'Stk _ fs lf er := s in
  SkStack (flat_map (fun f => if vis o (f_hide f) then [sk_of_frame o f] else []) fs)
          (match lf with Some r => Some (r ++ nl) | None => None end)
          (match er with Some raw => err_title :: err_sublines raw | None => [] end)
with sk_of_frame (o : fopts) (f : frame) : sk_frame :=
  SkFrame (frame_header f)
          (if show_ctx o
           then flat_map (fun c => if vis o (c_hide c) then [sk_of_ctx o true true c] else []) (f_ctxs f)
           else [])
          (if last_exiting (f_ctxs f) then None
           else if nonempty (frame_linetext f) then Some (frame_linetext f ++ nl) else None)
with sk_of_ctx (o : fopts) (hp sl : bool) (c : context) : sk_node :=
  let 'Ctx _ _ _ _ _ _ _ _ _ inn ks _ := c in
  SkNode (ctx_line hp sl c)
         (match inn with Some s => sk_body o s | None => SkStack [] None [] end)
         (flat_map (fun k => match k with
                             | KCtx c' => if vis o (c_hide c') then [sk_of_ctx o false false c'] else []
                             | KStk s => [SkNode (child_root_line (s_root s)) (sk_body o s) []]
                             end) ks).

Definition skeleton_visible (o : fopts) (s : stack) : text * sk_stack :=
  (header_text (s_root s), sk_body o s).

(* -- column-state parser over structured lines.  [blocks A cont ls] cuts [ls] into blocks: a
   line whose first marker is [A] opens a block, the following lines whose first marker
   satisfies [cont] belong to it; the first marker is removed.  Anything else: None. *)
Definition head_m (l : sline) : option marker := match fst l with m :: _ => Some m | [] => None end.
Definition strip1 (l : sline) : sline := (tl (fst l), snd l).
Definition head_is (p : marker -> bool) (l : sline) : bool :=
  match head_m l with Some m => p m | None => false end.

Fixpoint blocks_aux (A : marker) (cont : marker -> bool) (ls : list sline)
  : option (list sline * list (list sline)) :=
  match ls with
  | [] => Some ([], [])
  | l :: r =>
      match blocks_aux A cont r with
      | None => None
      | Some (pend, bs) =>
          if head_is (marker_eqb A) l then Some ([], (strip1 l :: pend) :: bs)
          else if head_is cont l then Some (strip1 l :: pend, bs)
          else None
      end
  end.
Definition blocks (A : marker) (cont : marker -> bool) (ls : list sline) : option (list (list sline)) :=
  match blocks_aux A cont ls with
  | Some ([], bs) => Some bs
  | _ => None
  end.

Fixpoint span {A} (p : A -> bool) (l : list A) : list A * list A :=
  match l with
  | [] => ([], [])
  | x :: r => if p x then let '(u, v) := span p r in (x :: u, v) else ([], l)
  end.

Fixpoint all_some {A} (l : list (option A)) : option (list A) :=
  match l with
  | [] => Some []
  | Some x :: r => match all_some r with Some r' => Some (x :: r') | None => None end
  | None :: _ => None
  end.

Definition is_m (m : marker) : marker -> bool := marker_eqb m.
Definition body_head (m : marker) : bool := match m with SF | CF | SL | ERR => true | _ => false end.
Definition ctx_cont (m : marker) : bool := match m with CCX | SCC => true | _ => false end.
Definition is_blank_line (l : sline) : bool :=
  match fst l with [CC] => text_eqb (snd l) nl | _ => false end.
(* a continuation line of a context inside a frame must say "child start" exactly when the
   next marker is start_child *)
Definition ctx_cont_ok (l : sline) : bool :=
  match fst l with
  | CCX :: SC :: _ => false
  | CCX :: _ => true
  | SCC :: SC :: _ => true
  | SCX :: _ => true
  | _ => false
  end.

(* the lines of a stack body: frame blocks, then at most one leaf line, then error lines *)
Section ParseBody.
  Variable parse_node : list sline -> option sk_node.

  Definition parse_frame (blk : list sline) : option sk_frame :=
    match blk with
    | ([], hdr) :: rest =>
        let '(cxl, tail) := span (head_is (fun m => is_m SCX m || ctx_cont m)) rest in
        if forallb ctx_cont_ok cxl then
          match blocks SCX ctx_cont cxl with
          | Some bs =>
              match all_some (map parse_node bs) with
              | Some ns =>
                  match tail with
                  | [] => Some (SkFrame hdr ns None)
                  | [([SCODE], t)] => Some (SkFrame hdr ns (Some t))
                  | _ => None
                  end
              | None => None
              end
          | None => None
          end
        else None
    | _ => None
    end.

  Definition parse_body (ls : list sline) : option sk_stack :=
    let '(fl, rest) := span (head_is (fun m => is_m SF m || is_m CF m)) ls in
    match blocks SF (is_m CF) fl with
    | Some bs =>
        match all_some (map parse_frame bs) with
        | Some fs =>
            let '(lf, rest') := match rest with
                                | ([SL], t) :: r' => (Some t, r')
                                | _ => (None, rest)
                                end in
            if forallb (fun l => match fst l with [ERR] => true | _ => false end) rest'
            then Some (SkStack fs lf (map snd rest'))
            else None
        | None => None
        end
    | None => None
    end.
End ParseBody.

(* a node = own line (no marker), the body of its inner stack, its children (blank lines are
   decoration and skipped).  Fuel bounds the nesting depth only. *)
Fixpoint parse_node (fuel : nat) (blk : list sline) : option sk_node :=
  match fuel with
  | O => None
  | S n =>
      match blk with
      | ([], line) :: rest =>
          let '(bl, kl) := span (head_is body_head) rest in
          match parse_body (parse_node n) bl with
          | Some inner =>
              match blocks SC (is_m CC) (filter (fun l => negb (is_blank_line l)) kl) with
              | Some bs =>
                  match all_some (map (parse_node n) bs) with
                  | Some ks => Some (SkNode line inner ks)
                  | None => None
                  end
              | None => None
              end
          | None => None
          end
      | _ => None
      end
  end.

Definition read_back_fuel (fuel : nat) (ls : list sline) : option (text * sk_stack) :=
  match ls with
  | ([], hdr) :: body =>
      match parse_body (parse_node fuel) body with
      | Some s => Some (hdr, s)
      | None => None
      end
  | _ => None
  end.

Definition max_markers (ls : list sline) : nat := fold_right (fun l m => Nat.max (List.length (fst l)) m) 0 ls.
(* every level of nesting costs at least one marker, so this fuel always suffices *)
Definition read_back (ls : list sline) : option (text * sk_stack) := read_back_fuel (S (max_markers ls)) ls.

(* ------------------------------------------------------------------ equality of skeletons *)
Definition otext_eqb := option_eqb text_eqb.
Section ListEqb.
  Context {A : Type} (eq : A -> A -> bool).
  Fixpoint leqb (x y : list A) : bool :=
    match x, y with
    | [], [] => true
    | u :: x', v :: y' => eq u v && leqb x' y'
    | _, _ => false
    end.
End ListEqb.
Fixpoint sk_stack_eqb (x y : sk_stack) : bool :=
  match x, y with SkStack f1 l1 e1, SkStack f2 l2 e2 =>
    leqb sk_frame_eqb f1 f2 && otext_eqb l1 l2 && list_eqb text_eqb e1 e2 end
with sk_frame_eqb (x y : sk_frame) : bool :=
  match x, y with SkFrame h1 c1 d1, SkFrame h2 c2 d2 =>
    text_eqb h1 h2 && leqb sk_node_eqb c1 c2 && otext_eqb d1 d2 end
with sk_node_eqb (x y : sk_node) : bool :=
  match x, y with SkNode a1 i1 k1, SkNode a2 i2 k2 =>
    text_eqb a1 a2 && sk_stack_eqb i1 i2 && leqb sk_node_eqb k1 k2 end.

(* ------------------------------------------------------------------ correspondence cases *)
Inductive subject := OfStack (s : stack) | OfFrame (f : frame) | OfCtx (c : context).

Definition fmt_subject (o : fopts) (x : subject) : list text :=
  match x with
  | OfStack s => fmt_stack_str o s
  | OfFrame f => fmt_frame_str o f
  | OfCtx c => fmt_ctx_str o false true c          (* Context.format(): no parent, show_lineno *)
  end.

(* one subject, the observed format() output under several option sets *)
Definition fobs := (subject * list (fopts * list text))%type.
(* one descriptor = the Stack, its first frame and that frame's first context, each formatted *)
Definition fcase := list fobs.
Definition lines_eqb := list_eqb text_eqb.

(* besides the byte comparison: the structured lines of the model render to the same text and
   read back to the skeleton (cheap cross-check of the theorems on every observed tree) *)
Definition obs_ok (x : subject) (ol : fopts * list text) : bool :=
  let '(o, obs) := ol in
  lines_eqb (fmt_subject o x) obs
  && match x with
     | OfStack s =>
         lines_eqb (map (render (ascii o)) (fmt_stack_sl o s)) obs
         && match read_back (fmt_stack_sl o s) with
            | Some (h, k) => text_eqb h (fst (skeleton_visible o s))
                             && sk_stack_eqb k (snd (skeleton_visible o s))
            | None => false
            end
     | _ => true
     end.

Definition fcase_ok (k : fcase) : bool := forallb (fun so : fobs => forallb (obs_ok (fst so)) (snd so)) k.
Definition mismatches (cases : list fcase) : list nat := false_indices 0 (map fcase_ok cases).

(* non-trivial: the rendering has a line nested at least two markers deep *)
Definition fobs_nontrivial (k : fobs) : bool :=
  match fst k with
  | OfStack s => Nat.leb 2 (max_markers (fmt_stack_sl {| ascii := false; show_ctx := true; show_hidden := true |} s))
  | OfFrame f => Nat.leb 1 (max_markers (fmt_frame_sl {| ascii := false; show_ctx := true; show_hidden := true |} f))
  | OfCtx c => Nat.leb 1 (max_markers (fmt_ctx_sl {| ascii := false; show_ctx := true; show_hidden := true |} false true c))
  end.
Definition fcase_nontrivial (k : fcase) : bool := existsb fobs_nontrivial k.
Definition count_nontrivial (cases : list fcase) : nat := count_true (map fcase_nontrivial cases).
