(* C01 — contexts of a suspended frame are exactly the entered-but-not-exited managers.
   Property theorems only (proved in P_Cert.v / P_ExcTable.v). *)
Require Import Base M_Bytecode M_Analysis M_WithMachine M_Cert P_Cert X_WMExample.

(* For a code object whose certificate passes [check]: in EVERY state the with-machine can
   reach (all branch outcomes, loops, exceptions, throws, any manager instances) and at EVERY
   suspension point (yield / await, including an await inside a manager's __aenter__ or
   __aexit__), the model of stackscope's trickery analysis returns exactly the managers whose
   enter has completed and whose exit has not, outermost first, each with the identical
   manager instance, the right is_async, is_exiting for the one whose exit is in progress —
   and no warning. *)
Theorem C01_exact_suspended : forall v c t ct, checkk v KSusp c t ct = true ->
  forall s, reach v c t s ->
  forall lasti st tr, In (false, lasti, st, tr) (obs c s) ->
  trickery v c t false lasti st = TOk (expected tr).
Proof. intros v c t ct Hc s Hr lasti st tr Hin. exact (analysis_exact v KSusp c t ct Hc s Hr false lasti st tr Hin (or_introl (conj eq_refl eq_refl))). Qed.
Print Assumptions C01_exact_suspended.

(* what [expected] says, spelled out: one entry per truth entry that is not still entering,
   in order; the object is the truth's instance unless exiting; exiting flag iff phase Exiting *)
Theorem C01_expected_spec : forall (tr : list (tent nat)),
  map (fun x => (c_site x, c_async x, c_exiting x)) (expected tr)
  = map (fun e => (t_site e, t_async e, phase_eqb (t_phase e) Exiting))
        (filter (fun e => negb (phase_eqb (t_phase e) Entering)) tr)
  /\ forall x, In x (expected tr) ->
       (c_exiting x = false -> exists e, In e tr /\ t_phase e = Active /\ c_obj x = Some (t_inst e) /\ c_site x = t_site e)
       /\ (c_exiting x = true -> c_obj x = None).
Proof. exact expected_spec. Qed.
Print Assumptions C01_expected_spec.

(* the instance invariant behind "the identical manager object" *)
Theorem C01_site_determines_instance : forall v c t ct, checkk v KSusp c t ct = true ->
  forall s, reach v c t s -> Inv s.
Proof. intros v. exact (inv_reach v KSusp). Qed.
Print Assumptions C01_site_determines_instance.

(* non-vacuity: a real 3.12 code object (two nested async with, then a with), its certificate
   passes, and the machine reaches a suspension inside both managers / inside __aexit__ *)
Example C01_example_check : checkk V312 KSusp ex_code ex_table ex_cert = true.
Proof. vm_compute. reflexivity. Qed.
Example C01_example_suspended_in_body :
  exists s, reach V312 ex_code ex_table s /\ length (truth s) = 2 /\
            exists lasti st tr, In (false, lasti, st, tr) (obs ex_code s) /\ length (expected tr) = 2.
Proof.
  destruct (exec V312 ex_code ex_table ex_path_body (mk 0 [] [])) as [s|] eqn:E; [|vm_compute in E; discriminate].
  exists s. split; [eapply exec_reach; [apply reach_init|exact E]|].
  vm_compute in E. inversion E; subst; clear E. split; [reflexivity|].
  eexists _, _, _. split; [left; reflexivity|reflexivity].
Qed.
Example C01_example_suspended_in_aexit :
  exists s, reach V312 ex_code ex_table s /\
            exists lasti st tr, In (false, lasti, st, tr) (obs ex_code s)
                                /\ map (@c_exiting nat) (expected tr) = [false; true].
Proof.
  destruct (exec V312 ex_code ex_table ex_path_aexit (mk 0 [] [])) as [s|] eqn:E; [|vm_compute in E; discriminate].
  exists s. split; [eapply exec_reach; [apply reach_init|exact E]|].
  vm_compute in E. inversion E; subst; clear E.
  eexists _, _, _. split; [left; reflexivity|reflexivity].
Qed.

(* Layer A: stackscope's exception-table parser inverts CPython's writer, for all entry lists
   with fields below 2^30 (the writer's own bound) *)
Require Import M_ExcTable P_ExcTable.
Theorem C01_exctable_roundtrip : forall es, Forall ok_ent es ->
  parse_exception_table (enc_table es) = map ent_of_raw es.
Proof. exact exctable_roundtrip. Qed.
Print Assumptions C01_exctable_roundtrip.

(* ---------------------------------------------------------------------------------------------
   CPython 3.9 / 3.10 (block-stack interpreters).  PARTIAL: there is no with-protocol machine for
   these versions, so exactness of the whole context list is not a theorem there (runtime
   ground-truth leg).  What is proved is the part of the analysis that needs an argument about
   every execution: which block an exit call in progress belongs to.  For a code object whose
   block-stack certificate Coq's [check_bcert] accepts (run on every corpus code object under
   3.10 and 3.9, kind `bs`), whenever the model of currently_exiting_context answers
   "exiting, handler h" because the frame rests behind a POP_BLOCK, then on EVERY execution of the
   block-stack machine (all branch outcomes, loops, an exception at any instruction) that reaches
   this POP_BLOCK the innermost open SETUP_* block is the one with handler h — the block that
   POP_BLOCK pops; and some execution does reach it. *)
Require Import M_BlockStack P_BlockStack.
Theorem C01_py310_exiting_block_partial : forall c ce lasti a h,
  check_bcert c ce = true ->
  exiting310 c lasti = EExit a h ->
  scan c lasti = ScHandler a h \/
  exists pop, scan c lasti = ScPop a pop /\ bat c pop = BPopBlock /\
              (exists st, breach c (pop, st)) /\
              forall st, breach c (pop, st) -> last_opt st = Some h.
Proof. exact exiting310_sound. Qed.
Print Assumptions C01_py310_exiting_block_partial.

(* the certificate really is an invariant of all executions of the block-stack machine *)
Theorem C01_py310_cert_sound : forall c ce s,
  check_bcert c ce = true -> breach c s -> cat ce (fst s) = Some (snd s).
Proof. exact cert_sound. Qed.
Print Assumptions C01_py310_cert_sound.

(* analyze_with_blocks before 3.11: one entry per SETUP_WITH / SETUP_ASYNC_WITH, keyed by its
   handler, is_async iff SETUP_ASYNC_WITH *)
Theorem C01_py310_with_info : forall c h a,
  In (h, a) (with_info c) <-> exists p, p < length c /\ bat c p = BSetup (if a then WAsyncWith else WWith) h.
Proof. exact with_info_spec. Qed.
Print Assumptions C01_py310_with_info.

(* non-vacuity: a with block, its exit call, its handler *)
Example C01_py310_example :
  check_bcert P_BlockStack.ex_code P_BlockStack.ex_cert = true /\
  exiting310 P_BlockStack.ex_code 6 = EExit false 9 /\ exiting310 P_BlockStack.ex_code 9 = EExit false 9 /\
  exiting310 P_BlockStack.ex_code 1 = ENone.
Proof. vm_compute. repeat split. Qed.

(* the block-stack walk of the 3.9/3.10 branch terminates: the fuel [exiting310] gives the model
   of the `while todo:` loop (4 * units + 8) is never exhausted, for ANY code and position, so the
   out-of-fuel value cannot make a comparison or a theorem above hold for the wrong reason *)
Theorem C01_py310_walk_terminates : forall c lasti, exiting310 c lasti <> EFuel.
Proof. exact exiting310_total. Qed.
Print Assumptions C01_py310_walk_terminates.

(* completeness of the walk: the "POP_BLOCK ... doesn't appear reachable" InspectionWarning of the
   3.9/3.10 branch is only given when no path of the walk's control-flow graph (jump edges,
   SETUP_* -> handler edges, fall-through after every instruction that is not an unconditional
   transfer; EXTENDED_ARG prefixes skipped) leads from offset 0 to that POP_BLOCK — i.e. for dead
   code only (the 3.9 compiler leaves such code behind `raise` / `return` at the end of a with
   body; example [dead_code]).  Together with C01_py310_walk_terminates: on a reachable POP_BLOCK
   the walk answers (a handler) or crashes (an empty simulated stack: excluded for code whose
   certificate checks by C01_py310_exiting_block_partial's premise in the case files). *)
Require Import P_BlockStackC.
Theorem C01_py310_walk_complete : forall c pop fuel,
  walk fuel c pop [(0, [])] [] = WNotFound ->
  forall q, oreach c q -> ~ (bat c (skip_ext c q) = BPopBlock /\ skip_ext c q = pop).
Proof. exact walk_complete. Qed.
Print Assumptions C01_py310_walk_complete.
Example C01_py310_dead_code_example :
  walk (walk_fuel dead_code) dead_code 2 [(0, [])] [] = WNotFound /\ exiting310 dead_code 6 = EWarn.
Proof. vm_compute. split; reflexivity. Qed.

(* ... and every POP_BLOCK that SOME execution of the block-stack machine reaches is reachable in
   the walk's graph (P_BlockStackR.v: the machine's exception edge leads to the handler of an open
   block, which is a SETUP_* -> handler edge of the walk).  Hence, for ANY code (no certificate
   needed): the model of the 3.9/3.10 branch never gives the "POP_BLOCK ... doesn't appear
   reachable" InspectionWarning for an exit call that an execution can actually be in. *)
Require Import P_BlockStackR.
Theorem C01_py310_no_unreachable_warning : forall c pop st fuel,
  breach c (pop, st) -> bat c pop = BPopBlock ->
  walk fuel c pop [(0, [])] [] <> WNotFound.
Proof. exact walk_never_gives_up_on_reachable. Qed.
Print Assumptions C01_py310_no_unreachable_warning.
(* non-vacuity: the POP_BLOCK of the example with block is reached by the machine *)
Example C01_py310_reachable_pop_example :
  breach P_BlockStack.ex_code (2, [9]) /\ bat P_BlockStack.ex_code 2 = BPopBlock.
Proof.
  split; [|reflexivity].
  eapply BR_step; [eapply BR_step; [apply BR_start|]|].
  - apply BS_normal. simpl. left. reflexivity.
  - apply BS_normal. simpl. left. reflexivity.
Qed.

(* Total correctness of the exit-call attribution on CPython 3.9 / 3.10, for certified code
   ([check_bcert] now also demands that a reachable POP_BLOCK has a block to pop): whenever the
   frame rests behind the POP_BLOCK of an inlined exit call that SOME execution reaches with block
   stack st, the model of currently_exiting_context answers — no InspectionWarning, no exception,
   no fuel exhaustion — "exiting, handler h" with h the innermost block of st, i.e. the block that
   execution has just popped.  (Still partial w.r.t. the property: that the exit call behind that
   POP_BLOCK belongs to the popped with block is the compiler's convention, checked by the runtime
   ground-truth leg on 3.9 / 3.10.) *)
Theorem C01_py310_exit_call_resolved : forall c ce lasti a pop st,
  check_bcert c ce = true ->
  scan c lasti = ScPop a pop ->
  breach c (pop, st) ->
  exists h, exiting310 c lasti = EExit a h /\ last_opt st = Some h.
Proof. exact exit_call_resolved. Qed.
Print Assumptions C01_py310_exit_call_resolved.
Example C01_py310_exit_call_resolved_example :
  check_bcert P_BlockStack.ex_code P_BlockStack.ex_cert = true /\
  scan P_BlockStack.ex_code 6 = ScPop false 2 /\ breach P_BlockStack.ex_code (2, [9]).
Proof. split; [vm_compute; reflexivity|]. split; [vm_compute; reflexivity|]. exact (proj1 C01_py310_reachable_pop_example). Qed.
