(* C13 — extraction options are scoped to their call tree and thread; stubs honoured.
   Property theorems only (proved in P_Options.v / P_Options_Frames.v).

   [facts_disc] is the storage discipline of the code as it is now, regenerated from the source
   (gen/SrcFacts.v: c13_options_thread_local, c13_push_restores_in_finally); [run] is the store
   machine the correspondence evaluates on every generated case; [spec_obs] is the lexically
   scoped reference semantics written from the property text.  All theorems hold for any number
   of threads, all programs / histories and ALL schedules. *)
Require Import Base M_Options P_Options.
Require M_Frames P_Options_Frames.
From SS.gen Require Import SrcFacts.

(* the code has the discipline the theorems need (breaks when the source changes) *)
Theorem C13_instance :
  facts_disc = good /\ SrcFacts.c13_entry_points_push = true
  /\ SrcFacts.c13_fresh_result_lists = true.
Proof. exact (conj facts_disc_good (conj code_entry_points_push code_fresh_result_lists)). Qed.
Print Assumptions C13_instance.

(* every thread observes a prefix of -- and, once its history is finished, exactly -- the
   lexically scoped semantics of its own program; afterwards it is outside any extraction *)
Theorem C13_scoped :
  forall progs sched t,
    let st := run facts_disc (init (map flatten progs)) sched in
    let p := nth t progs PNil in
    (exists l, spec_obs None p = obs_of st t ++ l)
    /\ (length (flatten p) <= cnt sched t ->
        obs_of st t = spec_obs None p /\ cell_of facts_disc st t = None).
Proof. exact code_scoped. Qed.
Print Assumptions C13_scoped.

(* the same for histories given as operation lists: every balanced list is the flattening of
   a program tree, hence covered *)
Theorem C13_scoped_histories :
  forall hists sched t, forallb (balanced 0) hists = true ->
    exists p, nth t hists [] = flatten p
      /\ (exists l, spec_obs None p = obs_of (run facts_disc (init hists) sched) t ++ l)
      /\ (length (nth t hists []) <= cnt sched t ->
          obs_of (run facts_disc (init hists) sched) t = spec_obs None p
          /\ cell_of facts_disc (run facts_disc (init hists) sched) t = None).
Proof. exact code_scoped_histories. Qed.
Print Assumptions C13_scoped_histories.

(* non-interference: observations and visible options of t depend only on t's own history and
   on how often t was scheduled -- other threads may run anything (not even well-nested) *)
Theorem C13_noninterference :
  forall hists hists' sched sched' t,
    nth t hists [] = nth t hists' [] -> cnt sched t = cnt sched' t ->
    obs_of (run facts_disc (init hists) sched) t = obs_of (run facts_disc (init hists') sched') t
    /\ cell_of facts_disc (run facts_disc (init hists) sched) t
       = cell_of facts_disc (run facts_disc (init hists') sched') t.
Proof. exact code_noninterference. Qed.
Print Assumptions C13_noninterference.

(* ... stated as equality with the single-thread run *)
Theorem C13_equals_single_thread_run :
  forall hists sched t,
    obs_of (run facts_disc (init hists) sched) t
    = obs_of (run facts_disc (init [nth t hists []]) (repeat 0 (cnt sched t))) 0.
Proof. exact code_single_thread. Qed.
Print Assumptions C13_equals_single_thread_run.

(* after a call has returned OR has been left by an exception the thread sees the options it
   saw before the call (h1: arbitrary prefix, calls may still be open: any depth) *)
Theorem C13_restored :
  forall hists t h1 blk h2 sched1 sched2,
    nth t hists [] = h1 ++ flatten blk ++ h2 ->
    cnt sched1 t = length h1 ->
    cnt sched2 t = length h1 + length (flatten blk) ->
    cell_of facts_disc (run facts_disc (init hists) sched2) t
    = cell_of facts_disc (run facts_disc (init hists) sched1) t
    /\ kstack (thr (run facts_disc (init hists) sched2) t)
       = kstack (thr (run facts_disc (init hists) sched1) t)
    /\ todo (thr (run facts_disc (init hists) sched2) t) = h2.
Proof. exact code_restored. Qed.
Print Assumptions C13_restored.

(* extract_child(for_task) under a tower of extract calls of any height: a frameless stub iff
   for_task and the INNERMOST call did not request recursion; outer levels do not matter *)
Theorem C13_stub :
  forall progs sched t lv w rc e ft,
    nth t progs PNil = nest (lv ++ [((w, rc), e)]) (PChild ft PNil) ->
    length (flatten (nth t progs PNil)) <= cnt sched t ->
    obs_of (run facts_disc (init (map flatten progs)) sched) t
    = [OChild (if ft && negb rc then CStub else CFull)].
Proof. exact code_stub. Qed.
Print Assumptions C13_stub.

(* outside any extraction extract_child refuses: before, between and after top-level calls *)
Theorem C13_refuses_outside :
  forall progs sched t before ft after,
    nth t progs PNil = papp before (PChild ft after) ->
    length (flatten (nth t progs PNil)) <= cnt sched t ->
    obs_of (run facts_disc (init (map flatten progs)) sched) t
    = spec_obs None before ++ OChild CRefuse :: spec_obs None after.
Proof. exact code_refuses_outside. Qed.
Print Assumptions C13_refuses_outside.

(* with_contexts: the innermost call decides whether contexts are filled, at every depth ... *)
Theorem C13_with_contexts_off :
  forall progs sched t lv w rc e,
    nth t progs PNil = nest (lv ++ [((w, rc), e)]) (PRead PNil) ->
    length (flatten (nth t progs PNil)) <= cnt sched t ->
    obs_of (run facts_disc (init (map flatten progs)) sched) t = [ORead (if w then RCtx else REmpty)].
Proof. exact code_contexts_flag. Qed.
Print Assumptions C13_with_contexts_off.

(* ... and in the frame model of extract_iter (M_Frames, all hook tables) with_ctx = false
   yields no contexts on any frame *)
Theorem C13_with_contexts_off_frames :
  forall c root frs lf es,
    M_Frames.with_ctx c = false ->
    M_Frames.extract c root = M_Frames.Ok (M_Frames.Stack frs lf es) ->
    P_Options_Frames.no_cx frs.
Proof. exact P_Options_Frames.frames_model_contexts_off. Qed.
Print Assumptions C13_with_contexts_off_frames.

(* ... and the frames do not change: for every fault-free configuration (all hook tables, any
   fuel inside extract), if the extraction WITH contexts returns a stack then the extraction
   with with_ctx := false (same tables) returns a stack with the same frame ids, hide flags,
   origins and the same leaf, and none of its frames carries contexts.  Fault-free because the
   contexts step consumes ticks, so k-th-invocation faults would hit different hook calls in
   the two runs; error lists may differ (context-hook errors exist only in the first run). *)
Theorem C13_frames_independent_of_with_contexts :
  forall c root s,
    P_Options_Frames.fault_free c ->
    M_Frames.extract c root = M_Frames.Ok s ->
    exists s', M_Frames.extract (P_Options_Frames.ctx_off c) root = M_Frames.Ok s'
      /\ map P_Options_Frames.core (P_Options_Frames.frames_of s')
         = map P_Options_Frames.core (P_Options_Frames.frames_of s)
      /\ P_Options_Frames.leaf_of s' = P_Options_Frames.leaf_of s
      /\ P_Options_Frames.no_cx (P_Options_Frames.frames_of s').
Proof. exact P_Options_Frames.frames_independent_of_with_contexts. Qed.
Print Assumptions C13_frames_independent_of_with_contexts.

(* both parameters of the discipline are needed: with a plain global object, or without the
   `finally`, the machine produces an observation that violates the reference semantics *)
Theorem C13_global_store_refuted :
  exists progs sched t,
    obs_of (run {| thread_local := false; restore_finally := true |} (init (map flatten progs)) sched) t
    <> spec_obs None (nth t progs PNil)
    /\ length (flatten (nth t progs PNil)) <= cnt sched t.
Proof. exact global_store_refuted. Qed.
Print Assumptions C13_global_store_refuted.

Theorem C13_no_finally_refuted :
  exists progs sched t,
    obs_of (run {| thread_local := true; restore_finally := false |} (init (map flatten progs)) sched) t
    <> spec_obs None (nth t progs PNil)
    /\ length (flatten (nth t progs PNil)) <= cnt sched t.
Proof. exact no_finally_refuted. Qed.
Print Assumptions C13_no_finally_refuted.

(* the schedule enumeration the exhaustive correspondence cases are checked against contains
   every interleaving of the threads' operations *)
Theorem C13_schedules_complete :
  forall progs s,
    (forall t, cnt s t = length (flatten (nth t progs PNil))) -> In s (schedules_of progs).
Proof. exact schedules_of_complete. Qed.
Print Assumptions C13_schedules_complete.
