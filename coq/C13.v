(* C13 — property theorems only (proved in P_Options.v). *)
Require Import Base M_Options P_Options.
From SS.gen Require Import SrcFacts.

Theorem C13_instance : facts_disc = good.
Proof. exact facts_disc_good. Qed.
Print Assumptions C13_instance.
