(* C20 — the fallback (referents) analysis is a sound ordered over-approximation; failures of
   the trickery analysis only warn.  Property theorems only (proved in P_Ref.v). *)
Require Import Base M_Bytecode M_Analysis M_WithMachine M_Cert P_Cert P_Ref X_WMExample.
From SS.gen Require Import SrcFacts.

(* For a code object whose certificate passes [checkk KRef]: at EVERY suspension point of
   EVERY execution the referents-mode answer contains every truly active manager, in order, with
   the identical instance and the right is_async; each entry is a manager of this frame's truth,
   at most once — so an additional entry can only be one the frame is currently entering or
   exiting; and there is an is_exiting entry (last, once, right is_async) exactly when an exit
   call is in progress. *)
Theorem C20_fallback_sound : forall v c t ct, checkk v KRef c t ct = true ->
  forall s, reach v c t s ->
  forall lasti st tr, In (false, lasti, st, tr) (obs c s) ->
  ref_sound tr (referents v c t lasti st).
Proof. exact referents_sound. Qed.
Print Assumptions C20_fallback_sound.

(* the call of the trickery analysis sits in a try/except Exception that warns and falls back:
   regenerated from /repo's source on every run *)
Theorem C20_guard_present : SrcFacts.trickery_failure_guarded = true.
Proof. reflexivity. Qed.
Print Assumptions C20_guard_present.

(* with that guard, contexts_active_in_frame never raises, whatever fails inside the trickery
   branch, and a failure yields exactly the referents-mode answer plus a warning *)
Theorem C20_failure_warns : forall v enabled c t running lasti (st : list (val nat)),
  contexts_active v SrcFacts.trickery_failure_guarded enabled c t running lasti st <> CafRaise
  /\ (trickery v c t running lasti st = TFail ->
      contexts_active v SrcFacts.trickery_failure_guarded true c t running lasti st
      = CafRef (referents v c t lasti st) true)
  /\ contexts_active v SrcFacts.trickery_failure_guarded false c t running lasti st
     = CafRef (referents v c t lasti st) false.
Proof.
  intros. change SrcFacts.trickery_failure_guarded with true.
  split; [apply caf_never_raises|]. split; [apply caf_failure_falls_back|reflexivity].
Qed.
Print Assumptions C20_failure_warns.

(* every write of the switch happens under its lock, and auto-detection re-checks the switch under
   the lock before storing its result (regenerated from /repo's source): this is what makes the
   register below sequentially consistent *)
Theorem C20_switch_under_lock : SrcFacts.trickery_switch_locked = true.
Proof. reflexivity. Qed.
Print Assumptions C20_switch_under_lock.

(* set_trickery_enabled(v): all later reads (on any thread: the register is only accessed
   under its lock, so operations are totally ordered) see v; None restores auto-detection *)
Theorem C20_mode_switch : forall detect s v ops,
  Forall (fun o => o = TCheck) ops ->
  tr_run detect s (TSet (Some v) :: ops) = None :: map (fun _ => Some v) ops
  /\ tr_run detect s (TSet None :: ops) = None :: map (fun _ => Some detect) ops.
Proof. intros. split; [apply tr_run_after_set|apply tr_run_after_reset]; assumption. Qed.
Print Assumptions C20_mode_switch.

(* ... and None really re-runs the detection: the next check tests again (warning iff the self-test fails on
   this interpreter), whatever was set or detected before; an explicit value never tests and never warns *)
Theorem C20_reset_redetects : forall detect s v ops,
  Forall (fun o => o = TCheck) ops ->
  tr_warns detect s (TSet None :: TCheck :: ops) = false :: negb detect :: map (fun _ => false) ops
  /\ tr_warns detect s (TSet (Some v) :: ops) = false :: map (fun _ => false) ops.
Proof. intros. split; [apply tr_warns_after_reset|apply tr_warns_after_set]; assumption. Qed.
Print Assumptions C20_reset_redetects.

Example C20_example_check : checkk V312 KRef ex_code ex_table ex_cert = true.
Proof. vm_compute. reflexivity. Qed.
Example C20_example_in_aexit :
  exists s, reach V312 ex_code ex_table s /\
            exists lasti st tr, In (false, lasti, st, tr) (obs ex_code s)
              /\ map (@r_exiting nat) (referents V312 ex_code ex_table lasti st) = [false; false; true].
Proof.
  destruct (exec V312 ex_code ex_table ex_path_aexit (mk 0 [] [])) as [s|] eqn:E; [|vm_compute in E; discriminate].
  exists s. split; [eapply exec_reach; [apply reach_init|exact E]|].
  vm_compute in E. inversion E; subst; clear E.
  eexists _, _, _. split; [left; reflexivity|vm_compute; reflexivity].
Qed.
