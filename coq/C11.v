(* C11 — context hooks: elaborate, unwrap, re-elaborate until a steady state.
   Property theorems only (proved in P_Contexts.v) about the model M_Contexts.fill that the
   correspondence (harness/c11.py) evaluates against the real fill_context. *)
Require Import Base M_Contexts P_Contexts.
From SS.gen Require Import SrcFacts.

(* facts regenerated from /repo's source on every run *)
Theorem C11_guard_constant : SrcFacts.context_guard = 100.
Proof. exact eq_refl. Qed.
Print Assumptions C11_guard_constant.

Theorem C11_push_restores : SrcFacts.push_restores_in_finally = true.
Proof. exact eq_refl. Qed.
Print Assumptions C11_push_restores.

(* the model computes exactly the outcome and hook-call log of the reference relation [Ref]
   (forward reachability of loop iterations + one final rule per clause of the property),
   for all hook tables, options and initial contexts; the reference is deterministic *)
Theorem C11_model_eq_ref : forall cf o c x l,
  fst (fill cf o c) = (x, l) <-> Ref cf (opts_in o) c x l.
Proof. exact fill_ref. Qed.
Print Assumptions C11_model_eq_ref.

Theorem C11_ref_deterministic : forall cf o c x l x' l',
  Ref cf o c x l -> Ref cf o c x' l' -> x = x' /\ l = l'.
Proof. exact Ref_fun. Qed.
Print Assumptions C11_ref_deterministic.

(* hook-call sequence = elab o0, unwrap o0', elab o1, unwrap o1', ... computed from the tables
   alone, up to the first None / PRUNE / raise (or the extra unwrap when the guard runs out) *)
Theorem C11_trace : forall cf o c,
  syn_only cf -> snd (fst (fill cf o c)) = trace cf (opts_in o) (guard cf) (obj c).
Proof. exact fill_trace. Qed.
Print Assumptions C11_trace.

Theorem C11_trace_plain : forall cf o c,
  syn_only cf -> plain cf -> snd (fst (fill cf o c)) = ptrace cf (opts_in o) (guard cf) (obj c).
Proof. exact fill_trace_plain. Qed.
Print Assumptions C11_trace_plain.

(* final Context = what the LAST elaboration produced from a context whose obj is the last
   manager and whose inner_stack/children were reset; hide set iff the chain ended in PRUNE *)
Theorem C11_result : forall cf o c0 c' log o',
  fill cf o c0 = (Done c', log, o') ->
  exists k start logk c1 l1 r l2,
    Iter cf (opts_in o) c0 k start logk
    /\ k < guard cf
    /\ (k = 0 -> start = c0)
    /\ (k > 0 -> inner start = None /\ children start = [])
    /\ elab1 cf (opts_in o) start = (c1, l1, false)
    /\ unwrap1 cf (opts_in o) c1 = (r, l2, None)
    /\ log = logk ++ l1 ++ l2
    /\ ((r = UNone /\ c' = c1) \/ (is_prune cf r = true /\ c' = set_hidden c1))
    /\ hidden c1 = hidden c0.
Proof. exact result_spec. Qed.
Print Assumptions C11_result.

Theorem C11_result_last_manager : forall cf o c0 k ck log,
  Iter cf o c0 (S k) ck log ->
  exists cprev lp, unwrap1 cf o cprev = (UTo (obj ck), lp, None) /\ eqprune (mattrs cf (obj ck)) = false.
Proof. exact Iter_last_target. Qed.
Print Assumptions C11_result_last_manager.

Theorem C11_hidden_iff_prune : forall cf o c0 c' log o',
  no_eqprune cf -> fill cf o c0 = (Done c', log, o') ->
  exists c1 r l2, unwrap1 cf (opts_in o) c1 = (r, l2, None) /\ (r = UNone \/ r = UPrune)
    /\ hidden c' = (hidden c0 || match r with UPrune => true | _ => false end).
Proof. exact hidden_iff_prune. Qed.
Print Assumptions C11_hidden_iff_prune.

(* the naive reading fails for a manager that compares equal to (): it is taken for PRUNE *)
Theorem C11_eqprune_refuted :
  exists cf c m c', unwrapt cf (obj c) = UTo m /\ fst (fst (fill cf None c)) = Done c'
                    /\ obj c' <> m /\ hidden c' = true.
Proof. exact eqprune_refuted. Qed.
Print Assumptions C11_eqprune_refuted.

(* cycles: an error, never a hang.  (a) at most 2*100+1 user hook calls for any table;
   (b) the RuntimeError is raised exactly when 100 unwrap steps succeeded; (c) tables in which
   every manager unwraps to a manager (self-, 2-, n-cycles) always end in the RuntimeError *)
Theorem C11_cycle_bound : forall cf o c,
  guard cf = SrcFacts.context_guard -> length (snd (fst (fill cf o c))) <= 201.
Proof. exact fill_bound_src. Qed.
Print Assumptions C11_cycle_bound.

Theorem C11_cycle_iff : forall cf o c x l,
  fst (fill cf o c) = (x, l) ->
  ((exists ck r, x = RaisedLoop ck r) <->
   (exists ck log r l2, Iter cf (opts_in o) c (guard cf) ck log /\ unwrap1 cf (opts_in o) ck = (r, l2, None))).
Proof. exact loop_error_iff. Qed.
Print Assumptions C11_cycle_iff.

Theorem C11_cycle : forall cf o c,
  endless cf -> exists ck r, fst (fst (fill cf o c)) = RaisedLoop ck r.
Proof. exact endless_fill. Qed.
Print Assumptions C11_cycle.

(* fill_context outside any extract = inside extract(with_contexts=True,
   recurse_child_tasks=False); options unset again afterwards (also after an error) *)
Theorem C11_outside_eq_inside : forall cf c,
  restores cf = SrcFacts.push_restores_in_finally ->
  fst (fill cf None c) = fst (fill cf (Some (true, false)) c)
  /\ snd (fill cf None c) = None
  /\ snd (fill cf (Some (true, false)) c) = Some (true, false).
Proof. exact outside_inside_src. Qed.
Print Assumptions C11_outside_eq_inside.

Theorem C11_hooks_see_options : forall cf o c,
  Forall (fun e => ev_opts e = opts_in o) (snd (fst (fill cf o c))).
Proof. exact fill_opts. Qed.
Print Assumptions C11_hooks_see_options.

(* generator-based managers: under with_contexts=True the exiting and the non-exiting lookup
   path call the registered hook with the same frame carrying the same contexts, so the verdict
   (also of a hook that answers `frame.contexts[0].obj`) does not depend on the path *)
Theorem C11_gcm_paths : forall cf o c,
  gcm (mattrs cf (obj c)) = true -> inner c = None -> wc_of o = true ->
  let m := obj c in
  let c1 := fst (fst (elab1 cf o c)) in
  snd (elab1 cf o c) = false /\ snd (fst (elab1 cf o c)) = [] /\ obj c1 = m
  /\ inner c1 = (if exiting c then None
                 else Some (map (fun f => (f, fctx cf f)) (gframes (mattrs cf m))))
  /\ children c1 = children c
  /\ fst (fst (unwrap1 cf o c1)) =
     match greg cf (code (mattrs cf m)), gframes (mattrs cf m) with
     | Some _, f :: _ =>
         match greg cf (fcode cf f) with
         | Some r => gverdict cf (fcode cf f) (fctx cf f) r
         | None => UNone
         end
     | _, _ => UNone
     end
  /\ Forall (fun e => match e with VGen _ f _ cx _ => cx = fctx cf f | _ => True end)
            (snd (fst (unwrap1 cf o c1))).
Proof. exact gcm_paths. Qed.
Print Assumptions C11_gcm_paths.

(* the hypothesis with_contexts=True is needed: inside extract(with_contexts=False) only the
   exiting path (extract_outermost) analyses contexts, and a hook answering from
   frame.contexts unwraps the manager when exiting but not otherwise *)
Theorem C11_gcm_paths_need_contexts :
  exists cf c, gcm (mattrs cf (obj c)) = true /\ inner c = None /\
    fst (fst (fill cf (Some (false, false)) c))
    <> match fst (fst (fill cf (Some (false, false)) (mkctx (obj c) None [] false None true))) with
       | Done c' => Done (mkctx (obj c') (inner c') (children c') (hidden c') (descr c') false)
       | x => x
       end
    /\ (forall c', fst (fst (fill cf (Some (false, false)) c)) = Done c' -> obj c' = obj c).
Proof. exact paths_differ_without_contexts. Qed.
Print Assumptions C11_gcm_paths_need_contexts.

(* several contexts in one frame (extract_iter's per-context try/except): every context comes
   out exactly as fill_context gives it in isolation, whatever happened to earlier ones; the
   frame's errors are the failures in order; the hook calls are the concatenation *)
Theorem C11_frame_isolated : forall cf rc cs,
  frame_fill cf rc cs =
  (map (iso_ctx cf (Some (true, rc))) cs, somes (map (iso_err cf (Some (true, rc))) cs),
   concat (map (iso_log cf (Some (true, rc))) cs)).
Proof. exact frame_isolated. Qed.
Print Assumptions C11_frame_isolated.

Theorem C11_frame_nth : forall cf rc cs i c,
  nth_error cs i = Some c ->
  nth_error (fst (fst (frame_fill cf rc cs))) i = Some (iso_ctx cf (Some (true, rc)) c).
Proof. exact frame_nth. Qed.
Print Assumptions C11_frame_nth.

(* histories: the verdict on a step is independent of the steps before it (each step is
   evaluated against the hook tables in force at that time, nothing else is remembered) *)
Theorem C11_history_stateless : forall a b, hcase_ok (a ++ b) = hcase_ok a && hcase_ok b.
Proof. exact history_stateless. Qed.
Print Assumptions C11_history_stateless.
