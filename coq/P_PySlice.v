(* P_PySlice.v -- M_Slice.py_slice (CPython's index arithmetic: PySlice_AdjustIndices, slice
   length, copy loop) equals a direct recursive definition of Python's slice semantics, for all
   lists, all start/stop in {None} + Z (negative and out of range included) and every step. *)
From Coq Require Import ZArith String Lia.
Require Import Base M_Slice P_Slice.

(* ---- reference definition *)
(* every k-th element, starting with the first; c = elements still to be skipped *)
Fixpoint every_aux {A} (k c : nat) (l : list A) : list A :=
  match l with
  | [] => []
  | x :: r => match c with 0 => x :: every_aux k (k - 1) r | S c' => every_aux k c' r end
  end.
Definition every {A} (k : nat) (l : list A) : list A := every_aux k 0 l.

(* where a bound lands: counted from the end if negative, then cut to the list *)
Definition norm_fwd (len v : Z) : Z := if (v <? 0)%Z then Z.max 0 (v + len) else Z.min v len.
Definition norm_bwd (len v : Z) : Z := if (v <? 0)%Z then Z.max (-1) (v + len) else Z.min v (len - 1).

Definition py_slice_spec {A} (l : list A) (a b : option Z) (step : Z) : list A :=
  let len := Z.of_nat (length l) in
  if (0 <? step)%Z then
    let lo := match a with None => 0%Z | Some v => norm_fwd len v end in
    let hi := match b with None => len | Some v => norm_fwd len v end in
    (* l[lo], l[lo+step], ... below hi *)
    every (Z.to_nat step) (skipn (Z.to_nat lo) (firstn (Z.to_nat hi) l))
  else if (step <? 0)%Z then
    let hi := match a with None => (len - 1)%Z | Some v => norm_bwd len v end in
    let lo := match b with None => (-1)%Z | Some v => norm_bwd len v end in
    (* l[hi], l[hi+step], ... above lo: walk the reversed segment l[lo+1 .. hi] *)
    every (Z.to_nat (- step)) (rev (skipn (Z.to_nat (lo + 1)) (firstn (Z.to_nat (hi + 1)) l)))
  else [].

(* ---- list facts *)
Lemma every_aux_skipn {A} k c (l : list A) : every_aux k c l = every k (skipn c l).
Proof.
  revert c. induction l as [|x r IH]; intros c; [destruct c; reflexivity|].
  destruct c as [|c]; [reflexivity|]. simpl. apply IH.
Qed.

Lemma every_cons {A} k x (r : list A) : every k (x :: r) = x :: every k (skipn (k - 1) r).
Proof. unfold every at 1. simpl. rewrite every_aux_skipn. reflexivity. Qed.

Lemma every_nil {A} k : every k (@nil A) = [].
Proof. reflexivity. Qed.

Lemma every_1 {A} (l : list A) : every 1 l = l.
Proof. induction l as [|x r IH]; [reflexivity|]. rewrite every_cons. simpl. rewrite IH. reflexivity. Qed.

Lemma skipn_skipn' {A} a b (l : list A) : skipn a (skipn b l) = skipn (b + a) l.
Proof.
  revert l. induction b as [|b IH]; intros l; [reflexivity|].
  destruct l as [|x l]; [destruct a; reflexivity|]. simpl. apply IH.
Qed.

Lemma skipn_cons_nth {A} (l : list A) s x : nth_error l s = Some x -> skipn s l = x :: skipn (S s) l.
Proof.
  revert s. induction l as [|y l IH]; intros [|s]; simpl; try discriminate.
  - intros [= ->]. reflexivity.
  - apply IH.
Qed.

Lemma nth_error_firstn {A} (l : list A) s h : s < h -> nth_error (firstn h l) s = nth_error l s.
Proof.
  revert s h. induction l as [|y l IH]; intros s h H; [destruct h, s; reflexivity|].
  destruct h; [lia|]. destruct s; [reflexivity|]. simpl. apply IH. lia.
Qed.

Lemma gather_S {A} (l : list A) n cur step :
  gather l (S n) cur step =
  match nth_error l (Z.to_nat cur) with
  | Some x => x :: gather l n (cur + step)%Z step
  | None => gather l n (cur + step)%Z step
  end.
Proof. reflexivity. Qed.

(* ---- the copy loop, forward *)
Lemma gather_fwd {A} (l : list A) (k hi : nat) : 1 <= k -> hi <= length l ->
  forall n s,
  (Z.of_nat hi - Z.of_nat s <= Z.of_nat n * Z.of_nat k)%Z ->
  (forall m, n = S m -> (Z.of_nat m * Z.of_nat k < Z.of_nat hi - Z.of_nat s)%Z) ->
  gather l n (Z.of_nat s) (Z.of_nat k) = every k (skipn s (firstn hi l)).
Proof.
  intros Hk Hhi. induction n as [|n IH]; intros s H1 H2.
  - simpl. rewrite skipn_all2; [reflexivity|]. rewrite firstn_length. lia.
  - pose proof (H2 n eq_refl) as H3.
    assert (Hs : s < hi) by lia.
    destruct (nth_error_Some_lt l s) as [x Hx]; [lia|].
    rewrite gather_S. rewrite Nat2Z.id. rewrite Hx.
    assert (Hx' : nth_error (firstn hi l) s = Some x) by (rewrite nth_error_firstn; assumption).
    rewrite (skipn_cons_nth _ _ _ Hx'). rewrite every_cons. f_equal.
    rewrite skipn_skipn'. replace (S s + (k - 1)) with (s + k) by lia.
    rewrite <- Nat2Z.inj_add. apply IH.
    + rewrite Nat2Z.inj_succ in H1. rewrite Z.mul_succ_l in H1. lia.
    + intros m ->. rewrite Nat2Z.inj_succ in H3. rewrite Z.mul_succ_l in H3. lia.
Qed.

(* ---- the copy loop, backward: h = number of elements of the prefix still in play,
   a = lower cut; the current index is h - 1 *)
Lemma rev_seg_snoc {A} (l : list A) a h x :
  nth_error l h = Some x -> a <= h ->
  rev (skipn a (firstn (S h) l)) = x :: rev (skipn a (firstn h l)).
Proof.
  intros Hx Ha. rewrite (firstn_S_snoc l h x Hx). rewrite skipn_app.
  rewrite firstn_length. assert (h < length l) by (apply nth_error_Some; congruence).
  replace (a - Nat.min h (length l)) with 0 by lia. simpl. rewrite rev_app_distr. reflexivity.
Qed.

Lemma skipn_rev_seg {A} (l : list A) a h c : h <= length l ->
  skipn c (rev (skipn a (firstn h l))) = rev (skipn a (firstn (h - c) l)).
Proof.
  intros Hh. rewrite skipn_rev. f_equal. rewrite skipn_length, firstn_length.
  replace (Nat.min h (length l)) with h by lia.
  destruct (le_lt_dec a (h - c)) as [Hc|Hc].
  - rewrite firstn_skipn_comm. rewrite firstn_firstn.
    replace (Nat.min (a + (h - a - c)) h) with (h - c) by lia. reflexivity.
  - replace (h - a - c) with 0 by lia. simpl.
    rewrite skipn_all2; [reflexivity|]. rewrite firstn_length. lia.
Qed.

Lemma gather_bwd {A} (l : list A) (k a : nat) : 1 <= k ->
  forall n h, h <= length l ->
  (Z.of_nat h - Z.of_nat a <= Z.of_nat n * Z.of_nat k)%Z ->
  (forall m, n = S m -> (Z.of_nat m * Z.of_nat k < Z.of_nat h - Z.of_nat a)%Z) ->
  gather l n (Z.of_nat h - 1)%Z (- Z.of_nat k)%Z = every k (rev (skipn a (firstn h l))).
Proof.
  intros Hk. induction n as [|n IH]; intros h Hh H1 H2.
  - simpl. rewrite skipn_all2; [reflexivity|]. rewrite firstn_length. lia.
  - pose proof (H2 n eq_refl) as H3.
    assert (Ha : a < h) by lia.
    destruct h as [|h0]; [lia|].
    destruct (nth_error_Some_lt l h0) as [x Hx]; [lia|].
    rewrite gather_S. replace (Z.of_nat (S h0) - 1)%Z with (Z.of_nat h0) by lia.
    rewrite Nat2Z.id. rewrite Hx.
    rewrite (rev_seg_snoc l a h0 x Hx) by lia. rewrite every_cons. f_equal.
    rewrite skipn_rev_seg by lia.
    destruct n as [|n'].
    + change (Z.of_nat 1) with 1%Z in H1. rewrite Z.mul_1_l in H1.
      simpl gather. rewrite skipn_all2; [reflexivity|]. rewrite firstn_length. lia.
    + repeat rewrite Nat2Z.inj_succ in H1. repeat rewrite Z.mul_succ_l in H1.
      repeat rewrite Nat2Z.inj_succ in H3. repeat rewrite Z.mul_succ_l in H3.
      replace (Z.of_nat h0 + - Z.of_nat k)%Z with (Z.of_nat (h0 - (k - 1)) - 1)%Z by lia.
      apply IH.
      * lia.
      * repeat rewrite Nat2Z.inj_succ. repeat rewrite Z.mul_succ_l. lia.
      * intros m Hm. injection Hm as <-. lia.
Qed.

(* ---- index normalisation and count *)
Lemma clamp_fwd len v step : (0 <= len)%Z -> (0 < step)%Z -> clamp len v step = norm_fwd len v.
Proof.
  intros Hl Hs. unfold clamp, norm_fwd.
  destruct (Z.ltb_spec step 0); [lia|].
  destruct (Z.ltb_spec v 0).
  - destruct (Z.ltb_spec (v + len) 0); lia.
  - destruct (Z.leb_spec len v); lia.
Qed.

Lemma clamp_bwd len v step : (0 <= len)%Z -> (step < 0)%Z -> clamp len v step = norm_bwd len v.
Proof.
  intros Hl Hs. unfold clamp, norm_bwd.
  destruct (Z.ltb_spec step 0); [|lia].
  destruct (Z.ltb_spec v 0).
  - destruct (Z.ltb_spec (v + len) 0); lia.
  - destruct (Z.leb_spec len v); lia.
Qed.

Lemma count_bounds d k : (0 < k)%Z -> (0 < d)%Z ->
  let n := ((d - 1) / k + 1)%Z in
  (d <= n * k)%Z /\ ((n - 1) * k < d)%Z /\ (1 <= n)%Z.
Proof.
  intros Hk Hd n. subst n.
  pose proof (Z.mul_div_le (d - 1) k Hk). pose proof (Z.mul_succ_div_gt (d - 1) k Hk).
  pose proof (Z.div_pos (d - 1) k). nia.
Qed.

Lemma slice_fwd_nat {A} (l : list A) (lon hin k : nat) : 1 <= k -> hin <= length l ->
  gather l (Z.to_nat (if (Z.of_nat lon <? Z.of_nat hin)%Z
                      then ((Z.of_nat hin - Z.of_nat lon - 1) / Z.of_nat k + 1)%Z else 0%Z))
         (Z.of_nat lon) (Z.of_nat k)
  = every k (skipn lon (firstn hin l)).
Proof.
  intros Hk Hh. destruct (Z.ltb_spec (Z.of_nat lon) (Z.of_nat hin)) as [Hlt|Hge].
  - destruct (count_bounds (Z.of_nat hin - Z.of_nat lon) (Z.of_nat k)) as [B1 [B2 B3]]; [lia|lia|].
    apply gather_fwd; [exact Hk|exact Hh| |].
    + rewrite Z2Nat.id by lia. exact B1.
    + intros m Hm.
      assert (E : Z.of_nat m = ((Z.of_nat hin - Z.of_nat lon - 1) / Z.of_nat k + 1 - 1)%Z) by lia.
      rewrite E. exact B2.
  - simpl gather. rewrite skipn_all2; [reflexivity|]. rewrite firstn_length. lia.
Qed.

Lemma slice_bwd_nat {A} (l : list A) (h a k : nat) : 1 <= k -> h <= length l ->
  gather l (Z.to_nat (if (Z.of_nat a <? Z.of_nat h)%Z
                      then ((Z.of_nat h - Z.of_nat a - 1) / Z.of_nat k + 1)%Z else 0%Z))
         (Z.of_nat h - 1)%Z (- Z.of_nat k)%Z
  = every k (rev (skipn a (firstn h l))).
Proof.
  intros Hk Hh. destruct (Z.ltb_spec (Z.of_nat a) (Z.of_nat h)) as [Hlt|Hge].
  - destruct (count_bounds (Z.of_nat h - Z.of_nat a) (Z.of_nat k)) as [B1 [B2 B3]]; [lia|lia|].
    apply gather_bwd; [exact Hk|exact Hh| |].
    + rewrite Z2Nat.id by lia. exact B1.
    + intros m Hm.
      assert (E : Z.of_nat m = ((Z.of_nat h - Z.of_nat a - 1) / Z.of_nat k + 1 - 1)%Z) by lia.
      rewrite E. exact B2.
  - simpl gather. rewrite skipn_all2; [reflexivity|]. rewrite firstn_length. lia.
Qed.

Theorem py_slice_correct {A} (l : list A) (a b : option Z) (step : Z) :
  py_slice l a b step = py_slice_spec l a b step.
Proof.
  unfold py_slice, py_slice_spec.
  set (len := Z.of_nat (length l)).
  assert (Hlen : (0 <= len)%Z) by (unfold len; lia).
  destruct (Z.eqb_spec step 0) as [->|Hnz]; [reflexivity|].
  destruct (Z.ltb_spec 0 step) as [Hpos|Hnp].
  - (* forward *)
    set (lo := match a with None => 0%Z | Some v => norm_fwd len v end).
    set (hi := match b with None => len | Some v => norm_fwd len v end).
    assert (Ea : adj_start len a step = lo).
    { unfold adj_start, lo. destruct a; [apply clamp_fwd; assumption|].
      destruct (Z.ltb_spec step 0); [lia|reflexivity]. }
    assert (Eb : adj_stop len b step = hi).
    { unfold adj_stop, hi. destruct b; [apply clamp_fwd; assumption|].
      destruct (Z.ltb_spec step 0); [lia|reflexivity]. }
    rewrite Ea, Eb.
    assert (Hlo : (0 <= lo <= len)%Z).
    { unfold lo, norm_fwd. destruct a as [v|]; [|lia]. destruct (Z.ltb_spec v 0); lia. }
    assert (Hhi : (0 <= hi <= len)%Z).
    { unfold hi, norm_fwd. destruct b as [v|]; [|lia]. destruct (Z.ltb_spec v 0); lia. }
    clearbody lo hi.
    unfold slice_len. destruct (Z.ltb_spec step 0); [lia|].
    rewrite <- (slice_fwd_nat l (Z.to_nat lo) (Z.to_nat hi) (Z.to_nat step)) by (unfold len in *; lia).
    rewrite !Z2Nat.id by lia. reflexivity.
  - (* backward *)
    assert (Hneg : (step < 0)%Z) by lia.
    destruct (Z.ltb_spec step 0) as [_|]; [|lia].
    set (hi := match a with None => (len - 1)%Z | Some v => norm_bwd len v end).
    set (lo := match b with None => (-1)%Z | Some v => norm_bwd len v end).
    assert (Ea : adj_start len a step = hi).
    { unfold adj_start, hi. destruct a; [apply clamp_bwd; assumption|].
      destruct (Z.ltb_spec step 0); [reflexivity|lia]. }
    assert (Eb : adj_stop len b step = lo).
    { unfold adj_stop, lo. destruct b; [apply clamp_bwd; assumption|].
      destruct (Z.ltb_spec step 0); [reflexivity|lia]. }
    rewrite Ea, Eb.
    assert (Hhi : (-1 <= hi <= len - 1)%Z).
    { unfold hi, norm_bwd. destruct a as [v|]; [|lia]. destruct (Z.ltb_spec v 0); lia. }
    assert (Hlo : (-1 <= lo <= len - 1)%Z).
    { unfold lo, norm_bwd. destruct b as [v|]; [|lia]. destruct (Z.ltb_spec v 0); lia. }
    clearbody lo hi.
    unfold slice_len. destruct (Z.ltb_spec step 0); [|lia].
    rewrite <- (slice_bwd_nat l (Z.to_nat (hi + 1)) (Z.to_nat (lo + 1)) (Z.to_nat (- step)))
      by (unfold len in *; lia).
    rewrite !Z2Nat.id by lia.
    replace (hi + 1 - 1)%Z with hi by lia.
    replace (hi + 1 - (lo + 1) - 1)%Z with (hi - lo - 1)%Z by lia.
    rewrite Z.opp_involutive.
    destruct (Z.ltb_spec lo hi); destruct (Z.ltb_spec (lo + 1) (hi + 1)); try lia; reflexivity.
Qed.

(* the two steps the code uses, spelled out *)
Corollary py_slice_step_1 {A} (l : list A) a b :
  py_slice l a b 1 =
  skipn (Z.to_nat (match a with None => 0%Z | Some v => norm_fwd (Z.of_nat (length l)) v end))
        (firstn (Z.to_nat (match b with None => Z.of_nat (length l) | Some v => norm_fwd (Z.of_nat (length l)) v end)) l).
Proof. rewrite py_slice_correct. unfold py_slice_spec. simpl (0 <? 1)%Z. cbv iota. apply every_1. Qed.

Corollary py_slice_step_m1 {A} (l : list A) a b :
  py_slice l a b (-1) =
  rev (skipn (Z.to_nat (match b with None => (-1)%Z | Some v => norm_bwd (Z.of_nat (length l)) v end + 1))
             (firstn (Z.to_nat (match a with None => (Z.of_nat (length l) - 1)%Z | Some v => norm_bwd (Z.of_nat (length l)) v end + 1)) l)).
Proof. rewrite py_slice_correct. unfold py_slice_spec. simpl. apply every_1. Qed.

Example py_slice_spec_examples :
  py_slice_spec [0;1;2;3;4;5;6] (Some (-2)%Z) (Some (-100)%Z) (-2) = [5; 3; 1]
  /\ py_slice_spec [0;1;2;3;4;5;6] (Some 1%Z) None 3 = [1; 4]
  /\ py_slice_spec [0;1;2;3;4;5;6] None (Some 2%Z) (-1) = [6; 5; 4; 3].
Proof. repeat split; reflexivity. Qed.
