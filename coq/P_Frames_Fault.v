(* P_Frames_Fault.v — lemmas and proofs for C05 (and the run-level lemmas reused by C16).
   Everything is about the functions of M_Frames.v that the case files evaluate
   ([flatten], [fill_all], [ctx_step], [elab_step], [run], [extract], [outermost]). *)
Require Import Base M_Frames M_Frames_Fault.
From SS.gen Require Import SrcFacts.

(* ------------------------------------------------------------------------------------- *)
(* 0. the regenerated guard record                                                        *)

Lemma src_guards_all : src_guards = all_guards.
Proof. reflexivity. Qed.

Lemma all_guards_fields c :
  grd c = all_guards ->
  g_unwrap (grd c) = true /\ g_iter (grd c) = true /\ g_ctx (grd c) = true
  /\ g_fill (grd c) = true /\ g_elab (grd c) = true.
Proof. intros ->. repeat split. Qed.

(* ------------------------------------------------------------------------------------- *)
(* 1. totality: with every call site guarded, no exception escapes                         *)

Ltac split_matches :=
  repeat match goal with
         | |- context [if ?b then _ else _] => destruct b eqn:?
         | |- context [match ?x with _ => _ end] => destruct x eqn:?
         end.

Lemma flatten_total fuel : forall cnt c tu te errs t e,
  g_unwrap (grd c) = true -> g_iter (grd c) = true ->
  flatten fuel cnt c tu te errs t <> FlRaised e.
Proof.
  induction fuel as [|fuel IH]; intros cnt c tu te errs t e Hu Hi; simpl; [discriminate|].
  destruct tu as [|[[org cur] d] tu']; [discriminate|].
  destruct cur; try (apply IH; assumption).
  - (* QObj *)
    rewrite Hu, Hi.
    destruct (fault c t); [apply IH; assumption|].
    destruct (unwrap c o) eqn:Eu; try (apply IH; assumption);
      destruct (uguard c <? S cnt); try (apply IH; assumption).
    destruct (iter_steps c o l raises (S t)) as [[k er] t2].
    destruct er; apply IH; assumption.
  - (* QNone *)
    rewrite Hu.
    destruct (fault c t); [apply IH; assumption|].
    destruct (uguard c <? S cnt); apply IH; assumption.
Qed.

Definition runner_total (runner : item -> nat -> outcome * nat) : Prop :=
  forall k t e, fst (runner k t) <> Raised e.

Lemma run_kids_from_runner runner : forall kids acc t ks bad t',
  run_kids runner kids acc t = (ks, Some bad, t') ->
  exists k t0, runner k t0 = (bad, t') /\ (forall s, bad <> Ok s).
Proof.
  induction kids as [|k r IH]; intros acc t ks bad t' H; simpl in H; [discriminate|].
  destruct (runner k t) as [o t1] eqn:E.
  destruct o.
  - eapply IH; eauto.
  - inversion H; subst. exists k, t. split; [assumption|discriminate].
  - inversion H; subst. exists k, t. split; [assumption|discriminate].
Qed.

Lemma fill_all_total c runner : runner_total runner -> g_fill (grd c) = true ->
  forall l acc errs t cx errs' t' bad e,
  fill_all c runner l acc errs t = (cx, errs', t', Some bad) -> bad <> Raised e.
Proof.
  intros Hr Hg. induction l as [|cid r IH]; intros acc errs t cx errs' t' bad e H; simpl in H; [discriminate|].
  rewrite Hg in H.
  destruct (fault c t); [eapply IH; eauto|].
  destruct (fill c cid); [|eapply IH; eauto].
  destruct (run_kids runner kids [] (S t)) as [[ks ob] t1] eqn:Ek.
  destruct ob as [b|]; [|eapply IH; eauto].
  destruct b; try (eapply IH; eauto; fail).
  - inversion H; subst. discriminate.
  - inversion H; subst. discriminate.
Qed.

Lemma ctx_step_total c runner : runner_total runner ->
  g_fill (grd c) = true -> g_ctx (grd c) = true ->
  forall f errs t cx errs' t' bad e,
  ctx_step c runner f errs t = (cx, errs', t', Some bad) -> bad <> Raised e.
Proof.
  intros Hr Hf Hc f errs t cx errs' t' bad e H. unfold ctx_step in H. rewrite Hc in H.
  destruct (negb (with_ctx c)); [discriminate|].
  destruct (fault c t); [discriminate|].
  destruct (ctxs c f); [|discriminate].
  eapply fill_all_total; eauto.
Qed.

Lemma elab_step_total c f errs t : g_elab (grd c) = true ->
  forall r errs' h t' e, elab_step c f errs t <> (r, errs', h, t', Some e).
Proof.
  intros Hg r errs' h t' e. unfold elab_step. rewrite Hg.
  destruct (fault c t); [discriminate|]. destruct (elab c f); discriminate.
Qed.

Lemma run_total fuel : forall first c tu te errs out t e,
  grd c = all_guards -> fst (run fuel first c tu te errs out t) <> Raised e.
Proof.
  induction fuel as [|fuel IH]; intros first c tu te errs out t e Hg; [simpl; discriminate|].
  destruct (all_guards_fields c Hg) as (Hu & Hi & Hc & Hf & He).
  cbn [run].
  destruct (flatten (S fuel) 0 c tu (rev te) errs t) as [te1 errs1 t1|e1|] eqn:Efl; [| |simpl; discriminate].
  2:{ exfalso. eapply flatten_total; eauto. }
  destruct te1 as [|[q d] rest]; [simpl; discriminate|].
  destruct q; try (simpl; discriminate).
  set (runner := fun k t => run fuel false c [(better_origin c (q_of k) None, q_of k, 0)] [] [] [] t).
  assert (Hr : runner_total runner) by (intros k t0 e0; apply IH; assumption).
  destruct (ctx_step c runner f errs1 t1) as [[[cx errs2] t2] ob] eqn:Ecx.
  destruct ob as [bad|].
  { simpl. eapply ctx_step_total; eauto. }
  destruct (elab_step c f errs2 t2) as [[[[r errs3] hide] t3] oe] eqn:Eel.
  destruct oe as [e3|]; [exfalso; eapply elab_step_total; eauto|].
  destruct first; [simpl; discriminate|].
  destruct r as [|l|[i| |]|]; try (apply IH; assumption).
  destruct (next_of rest) as [[| | |]|]; apply IH; assumption.
Qed.

Lemma extract_total c root e : grd c = src_guards -> extract c root <> Raised e.
Proof. intros Hg. unfold extract, extract_t. apply run_total. rewrite Hg. apply src_guards_all. Qed.

Lemma outermost_total c root e : grd c = src_guards -> outermost c root <> OEscaped e.
Proof.
  intros Hg. unfold outermost.
  pose proof (run_total default_fuel true c (root_q c root) [] [] [] 0) as H.
  destruct (run default_fuel true c (root_q c root) [] [] [] 0) as [o t].
  cbn [fst] in *.
  destruct o as [[[|x fr] lf es]|e'|]; try discriminate.
  intros Heq. inversion Heq; subst. eapply H; [rewrite Hg; apply src_guards_all|reflexivity].
Qed.

(* ------------------------------------------------------------------------------------- *)
(* 2. nothing already produced is ever dropped: error lists and yielded frames only grow   *)

Definition grows {A} (l l' : list A) : Prop := exists n, l' = n ++ l.

Lemma grows_refl {A} (l : list A) : grows l l.
Proof. exists []. reflexivity. Qed.
Lemma grows_cons {A} (x : A) l : grows l (x :: l).
Proof. exists [x]. reflexivity. Qed.
Lemma grows_trans {A} (a b c : list A) : grows a b -> grows b c -> grows a c.
Proof. intros [n ->] [m ->]. exists (m ++ n). rewrite app_assoc. reflexivity. Qed.
#[export] Hint Resolve grows_refl grows_cons : grows.

Lemma flatten_grows fuel : forall cnt c tu te errs t te' errs' t',
  flatten fuel cnt c tu te errs t = FlOk te' errs' t' -> grows errs errs'.
Proof.
  induction fuel as [|fuel IH]; intros cnt c tu te errs t te' errs' t' H; simpl in H; [discriminate|].
  destruct tu as [|[[org cur] d] tu'].
  { inversion H; subst. apply grows_refl. }
  destruct cur; try (eapply IH; eassumption).
  - destruct (g_unwrap (grd c)), (g_iter (grd c));
    (destruct (fault c t);
     [try discriminate; try (eapply grows_trans; [|eapply IH; eassumption]; auto with grows)|]);
    (destruct (unwrap c o) eqn:Eu;
     try (destruct (uguard c <? S cnt));
     try discriminate;
     try (eapply IH; eassumption);
     try (eapply grows_trans; [|eapply IH; eassumption]; auto with grows; fail));
    destruct (iter_steps c o l raises (S t)) as [[k er] t2]; destruct er;
    try discriminate;
    try (eapply IH; eassumption);
    try (eapply grows_trans; [|eapply IH; eassumption]; auto with grows; fail).
  - destruct (g_unwrap (grd c));
    (destruct (fault c t);
     [try discriminate; try (eapply grows_trans; [|eapply IH; eassumption]; auto with grows)|]);
    destruct (uguard c <? S cnt);
    try discriminate;
    try (eapply IH; eassumption);
    try (eapply grows_trans; [|eapply IH; eassumption]; auto with grows; fail).
Qed.

Lemma fill_all_grows c runner : forall l acc errs t cx errs' t' ob,
  fill_all c runner l acc errs t = (cx, errs', t', ob) -> grows errs errs'.
Proof.
  induction l as [|cid r IH]; intros acc errs t cx errs' t' ob H; simpl in H.
  { inversion H; subst. apply grows_refl. }
  destruct (g_fill (grd c));
  (destruct (fault c t);
   [first [eapply grows_trans; [|eapply IH; eassumption]; auto with grows
          | inversion H; subst; apply grows_refl]|]);
  (destruct (fill c cid);
   [|first [eapply grows_trans; [|eapply IH; eassumption]; auto with grows
           | inversion H; subst; apply grows_refl]]);
  destruct (run_kids runner kids [] (S t)) as [[ks ob1] t1];
  (destruct ob1 as [b|]; [destruct b|]);
  first [eapply IH; eassumption
        | eapply grows_trans; [|eapply IH; eassumption]; auto with grows
        | inversion H; subst; apply grows_refl].
Qed.

Lemma ctx_step_grows c runner f errs t cx errs' t' ob :
  ctx_step c runner f errs t = (cx, errs', t', ob) -> grows errs errs'.
Proof.
  unfold ctx_step. intros H.
  destruct (negb (with_ctx c)); [inversion H; subst; apply grows_refl|].
  destruct (g_ctx (grd c));
  (destruct (fault c t); [inversion H; subst; auto with grows|]);
  (destruct (ctxs c f); [eapply fill_all_grows; eassumption|inversion H; subst; auto with grows]).
Qed.

Lemma elab_step_grows c f errs t r errs' h t' oe :
  elab_step c f errs t = (r, errs', h, t', oe) -> grows errs errs'.
Proof.
  unfold elab_step. intros H.
  destruct (g_elab (grd c));
  (destruct (fault c t); [inversion H; subst; auto with grows|]);
  destruct (elab c f); inversion H; subst; auto with grows.
Qed.

Lemma fill_all_bad_not_ok c runner : forall l acc errs t cx errs' t' bad s,
  fill_all c runner l acc errs t = (cx, errs', t', Some bad) -> bad <> Ok s.
Proof.
  induction l as [|cid r IH]; intros acc errs t cx errs' t' bad s H; simpl in H; [discriminate|].
  destruct (g_fill (grd c));
  (destruct (fault c t); [first [eapply IH; eassumption | inversion H; subst; discriminate]|]);
  (destruct (fill c cid); [|first [eapply IH; eassumption | inversion H; subst; discriminate]]);
  destruct (run_kids runner kids [] (S t)) as [[ks ob1] t1] eqn:Ek;
  (destruct ob1 as [b|]; [|eapply IH; eassumption]);
  apply run_kids_from_runner in Ek; destruct Ek as (k0 & t0 & _ & Nok);
  destruct b; first [eapply IH; eassumption | inversion H; subst; apply Nok | inversion H; subst; discriminate].
Qed.

Lemma ctx_step_bad_not_ok c runner f errs t cx errs' t' bad s :
  ctx_step c runner f errs t = (cx, errs', t', Some bad) -> bad <> Ok s.
Proof.
  unfold ctx_step. intros H.
  destruct (negb (with_ctx c)); [discriminate|].
  destruct (g_ctx (grd c));
  (destruct (fault c t); [inversion H; subst; discriminate|]);
  (destruct (ctxs c f); [eapply fill_all_bad_not_ok; eassumption|inversion H; subst; discriminate]).
Qed.

Lemma grows_rev {A} (l l' : list A) : grows l l' -> exists n, rev l' = rev l ++ n.
Proof. intros [n ->]. exists (rev n). apply rev_app_distr. Qed.

(* frames already yielded ([out]) and errors already recorded ([errs]) are a prefix of the
   final result, whatever the rest of the traversal does (any tables, any faults, any guards) *)
Lemma run_keeps fuel : forall first c tu te errs out t frs lf es t',
  run fuel first c tu te errs out t = (Ok (Stack frs lf es), t') ->
  (exists nf, frs = rev out ++ nf) /\ (exists ne, es = rev errs ++ ne).
Proof.
  induction fuel as [|fuel IH]; intros first c tu te errs out t frs lf es t' H; [discriminate|].
  cbn [run] in H.
  destruct (flatten (S fuel) 0 c tu (rev te) errs t) as [te1 errs1 t1|e1|] eqn:Efl; try discriminate.
  pose proof (flatten_grows _ _ _ _ _ _ _ _ _ _ Efl) as G1.
  assert (Hleaf : forall lf0, (Ok (Stack (rev out) lf0 (rev errs1)), t1) = (Ok (Stack frs lf es), t') ->
            (exists nf, frs = rev out ++ nf) /\ (exists ne, es = rev errs ++ ne)).
  { intros lf0 E. inversion E; subst. split; [exists []; symmetry; apply app_nil_r|apply grows_rev; assumption]. }
  destruct te1 as [|[q d] rest]; [eapply Hleaf; eassumption|].
  destruct q; try (eapply Hleaf; eassumption).
  set (runner := fun k t => run fuel false c [(better_origin c (q_of k) None, q_of k, 0)] [] [] [] t) in H.
  destruct (ctx_step c runner f errs1 t1) as [[[cx errs2] t2] ob] eqn:Ecx.
  pose proof (ctx_step_grows _ _ _ _ _ _ _ _ _ Ecx) as G2.
  destruct ob as [bad|].
  { (* a nested extraction ran out of fuel / raised: not an Ok result of this run *)
    inversion H; subst. exfalso. eapply ctx_step_bad_not_ok; eauto. }
  destruct (elab_step c f errs2 t2) as [[[[r errs3] hide] t3] oe] eqn:Eel.
  pose proof (elab_step_grows _ _ _ _ _ _ _ _ _ Eel) as G3.
  destruct oe as [e3|]; [discriminate|].
  assert (G : grows errs errs3) by (eapply grows_trans; [eassumption|eapply grows_trans; eassumption]).
  assert (Hrec : forall first' tu' te',
            run fuel first' c tu' te' errs3 (FOut f hide org cx :: out) t3 = (Ok (Stack frs lf es), t') ->
            (exists nf, frs = rev out ++ nf) /\ (exists ne, es = rev errs ++ ne)).
  { intros first' tu' te' E. apply IH in E. destruct E as [[nf ->] [ne ->]]. split.
    - exists (FOut f hide org cx :: nf). simpl. rewrite <- app_assoc. reflexivity.
    - destruct (grows_rev _ _ G) as [n ->]. exists (n ++ ne). rewrite app_assoc. reflexivity. }
  destruct first.
  { inversion H; subst. split.
    - exists [FOut f hide org cx]. reflexivity.
    - apply grows_rev; assumption. }
  destruct r as [|l|[i| |]|]; try (eapply Hrec; eassumption).
  destruct (next_of rest) as [[| | |]|]; eapply Hrec; eassumption.
Qed.

(* ------------------------------------------------------------------------------------- *)
(* 3. exactness: the fault ticks reported in the result tree are exactly those that fired  *)

(* tick k lies in [a, b) and the k-th hook invocation is one that was made to raise *)
Definition Fk (c : cfg) (a b k : nat) : Prop := a <= k < b /\ fault c k = true.

Lemma Fk_split c a m b k : a <= m -> m <= b -> (Fk c a b k <-> Fk c a m k \/ Fk c m b k).
Proof. unfold Fk. intros. split; [intros [? ?]; destruct (Nat.lt_ge_cases k m); [left|right]; split; auto; lia | intros [[? ?]|[? ?]]; split; auto; lia]. Qed.
Lemma Fk_none c a k : ~ Fk c a a k.
Proof. unfold Fk. lia. Qed.
Lemma Fk_tick_f c a k : fault c a = false -> ~ Fk c a (S a) k.
Proof. unfold Fk. intros H [H1 H2]. assert (k = a) by lia. subst. congruence. Qed.
Lemma Fk_tick_t c a k : fault c a = true -> (Fk c a (S a) k <-> k = a).
Proof. unfold Fk. intros H. split; [lia|intros ->; split; [lia|assumption]]. Qed.

(* [acct c X errs t X' errs' t']: going from tick t to t', the fault ticks present in the error
   list and in the structure built so far (X -> X') grew by exactly the faults fired in [t,t') *)
Definition acct (c : cfg) (X : list nat) (errs : list err) (t : nat)
           (X' : list nat) (errs' : list err) (t' : nat) : Prop :=
  t <= t' /\ forall x, In x (efaults errs' ++ X') <-> (In x (efaults errs ++ X) \/ Fk c t t' x).

Lemma acct_refl c X errs t : acct c X errs t X errs t.
Proof. split; [lia|]. intros x. split; [auto|intros [H|H]; [assumption|exfalso; eapply Fk_none; eauto]]. Qed.

Lemma acct_trans c X0 e0 t0 X1 e1 t1 X2 e2 t2 :
  acct c X0 e0 t0 X1 e1 t1 -> acct c X1 e1 t1 X2 e2 t2 -> acct c X0 e0 t0 X2 e2 t2.
Proof.
  intros [L1 H1] [L2 H2]. split; [lia|]. intros x.
  rewrite H2, H1, (Fk_split c t0 t1 t2 x L1 L2). tauto.
Qed.

Lemma acct_equiv c X0 X0' e0 t0 X1 X1' e1 t1 :
  (forall x, In x X0 <-> In x X0') -> (forall x, In x X1 <-> In x X1') ->
  acct c X0 e0 t0 X1 e1 t1 -> acct c X0' e0 t0 X1' e1 t1.
Proof.
  intros A B [L H]. split; [assumption|]. intros x.
  specialize (H x). rewrite !in_app_iff in *. rewrite <- A, <- B. assumption.
Qed.

Lemma acct_tick_f c X errs t : fault c t = false -> acct c X errs t X errs (S t).
Proof.
  intros F. split; [lia|]. intros x. split; [auto|intros [H|H]; [assumption|exfalso; eapply Fk_tick_f; eauto]].
Qed.

Definition not_fault (e : err) : Prop := match e with EFault _ => False | _ => True end.

Lemma acct_tick_f_err c X errs t e : fault c t = false -> not_fault e -> acct c X errs t X (e :: errs) (S t).
Proof.
  intros F N. split; [lia|]. intros x.
  assert (E : efaults (e :: errs) = efaults errs) by (destruct e; simpl in *; tauto).
  rewrite E. split; [auto|intros [H|H]; [assumption|exfalso; eapply Fk_tick_f; eauto]].
Qed.

Lemma acct_err c X errs t e : not_fault e -> acct c X errs t X (e :: errs) t.
Proof.
  intros N. split; [lia|]. intros x.
  assert (E : efaults (e :: errs) = efaults errs) by (destruct e; simpl in *; tauto).
  rewrite E. split; [auto|intros [H|H]; [assumption|exfalso; eapply Fk_none; eauto]].
Qed.

Lemma acct_tick_t c X errs t : fault c t = true -> acct c X errs t X (EFault t :: errs) (S t).
Proof.
  intros F. split; [lia|]. intros x. simpl. rewrite (Fk_tick_t c t x F). split.
  - intros [->|H]; auto.
  - intros [H| ->]; auto.
Qed.

Lemma acct_iter c X errs o : forall l raises t k e t',
  iter_steps c o l raises t = (k, e, t') ->
  acct c X errs t X (match e with Some e => e :: errs | None => errs end) t'.
Proof.
  induction l as [|i l IH]; intros raises t k e t' H; simpl in H.
  - destruct (fault c t) eqn:F; inversion H; subst.
    + apply acct_tick_t; assumption.
    + destruct raises; [apply acct_tick_f_err; simpl; auto|apply acct_tick_f; assumption].
  - destruct (fault c t) eqn:F.
    + inversion H; subst. apply acct_tick_t; assumption.
    + destruct (iter_steps c o l raises (S t)) as [[k1 e1] t1] eqn:E. inversion H; subst.
      eapply acct_trans; [apply acct_tick_f; eassumption|eapply IH; eassumption].
Qed.

Lemma flatten_acct fuel : forall cnt c tu te errs t te' errs' t' X,
  flatten fuel cnt c tu te errs t = FlOk te' errs' t' -> acct c X errs t X errs' t'.
Proof.
  induction fuel as [|fuel IH]; intros cnt c tu te errs t te' errs' t' X H; simpl in H; [discriminate|].
  destruct tu as [|[[org cur] d] tu'].
  { inversion H; subst. apply acct_refl. }
  destruct cur; try (eapply IH; eassumption).
  - destruct (fault c t) eqn:F.
    { destruct (g_unwrap (grd c)); [|discriminate].
      eapply acct_trans; [apply acct_tick_t; eassumption|eapply IH; eassumption]. }
    assert (T : acct c X errs t X errs (S t)) by (apply acct_tick_f; assumption).
    assert (Te : forall e, not_fault e -> acct c X errs t X (e :: errs) (S t)) by (intros; apply acct_tick_f_err; assumption).
    destruct (unwrap c o) eqn:Eu.
    + destruct (uguard c <? S cnt).
      * destruct (g_unwrap (grd c)); [|discriminate].
        (eapply acct_trans; [|eapply IH; eassumption]); apply Te; exact I.
      * eapply acct_trans; [apply T|eapply IH; eassumption].
    + destruct (uguard c <? S cnt).
      * destruct (g_unwrap (grd c)); [|discriminate].
        (eapply acct_trans; [|eapply IH; eassumption]); apply Te; exact I.
      * eapply acct_trans; [apply T|eapply IH; eassumption].
    + destruct (uguard c <? S cnt).
      * destruct (g_unwrap (grd c)); [|discriminate].
        (eapply acct_trans; [|eapply IH; eassumption]); apply Te; exact I.
      * eapply acct_trans; [apply T|eapply IH; eassumption].
    + destruct (uguard c <? S cnt).
      * destruct (g_unwrap (grd c)); [|discriminate].
        (eapply acct_trans; [|eapply IH; eassumption]); apply Te; exact I.
      * destruct (iter_steps c o l raises (S t)) as [[k er] t2] eqn:Ei.
        pose proof (acct_iter c X errs o _ _ _ _ _ _ Ei) as Ti.
        destruct er.
        -- destruct (g_iter (grd c)); [|discriminate].
           eapply acct_trans; [apply T|]. eapply acct_trans; [apply Ti|eapply IH; eassumption].
        -- eapply acct_trans; [apply T|]. eapply acct_trans; [apply Ti|eapply IH; eassumption].
    + destruct (g_unwrap (grd c)); [|discriminate].
      (eapply acct_trans; [|eapply IH; eassumption]); apply Te; exact I.
  - destruct (fault c t) eqn:F.
    { destruct (g_unwrap (grd c)); [|discriminate].
      eapply acct_trans; [apply acct_tick_t; eassumption|eapply IH; eassumption]. }
    destruct (uguard c <? S cnt).
    + destruct (g_unwrap (grd c)); [|discriminate].
      (eapply acct_trans; [|eapply IH; eassumption]); apply acct_tick_f_err; [assumption|exact I].
    + eapply acct_trans; [apply acct_tick_f; eassumption|eapply IH; eassumption].
Qed.

Lemma efaults_app a b : efaults (a ++ b) = efaults a ++ efaults b.
Proof. induction a as [|[] a IH]; simpl; auto. rewrite IH. reflexivity. Qed.

Lemma efaults_rev_in l x : In x (efaults (rev l)) <-> In x (efaults l).
Proof.
  induction l as [|e l IH]; simpl; [tauto|].
  rewrite efaults_app, in_app_iff, IH. destruct e; simpl; tauto.
Qed.

Lemma tree_faults_eq fr lf es : tree_faults (Stack fr lf es) = efaults es ++ fouts_faults fr.
Proof.
  simpl. f_equal.
  induction fr as [|[f h o cx] fr IH]; simpl; [reflexivity|]. rewrite IH. f_equal.
  unfold couts_faults.
  induction cx as [|[cid ks] cx IHc]; simpl; [reflexivity|]. rewrite IHc. reflexivity.
Qed.

Lemma flat_map_rev_in {A} (g : A -> list nat) l x : In x (flat_map g (rev l)) <-> In x (flat_map g l).
Proof.
  rewrite !in_flat_map. split; intros (y & Hy & Hx); exists y; split; auto; [apply in_rev|apply -> in_rev]; assumption.
Qed.

(* what a nested extraction must satisfy: never raises, and its tree reports exactly the faults
   fired while it ran *)
Definition runner_ok (c : cfg) (runner : item -> nat -> outcome * nat) : Prop :=
  forall k t o t', runner k t = (o, t') ->
    match o with
    | Ok s => t <= t' /\ forall x, In x (tree_faults s) <-> Fk c t t' x
    | Raised _ => False
    | OutOfFuel => True
    end.

Lemma run_kids_acct c runner : runner_ok c runner -> forall kids acc t ks t',
  run_kids runner kids acc t = (ks, None, t') ->
  t <= t' /\ forall x, In x (stacks_faults ks) <-> (In x (stacks_faults (rev acc)) \/ Fk c t t' x).
Proof.
  intros Hr. induction kids as [|k r IH]; intros acc t ks t' H; simpl in H.
  - inversion H; subst. split; [lia|]. intros x. split; [auto|intros [?|F]; [assumption|exfalso; eapply Fk_none; eauto]].
  - destruct (runner k t) as [o t1] eqn:E. pose proof (Hr _ _ _ _ E) as Ho.
    destruct o as [s| |]; try discriminate.
    destruct Ho as [L1 Hs]. apply IH in H. destruct H as [L2 H]. split; [lia|]. intros x.
    rewrite H. simpl. unfold stacks_faults at 1. rewrite flat_map_app, in_app_iff. simpl. rewrite app_nil_r, Hs.
    rewrite (Fk_split c t t1 t' x L1 L2). unfold stacks_faults. tauto.
Qed.

Lemma couts_snoc_in acc cid ks x :
  In x (couts_faults (rev (COut cid ks :: acc))) <-> In x (couts_faults (rev acc)) \/ In x (stacks_faults ks).
Proof.
  simpl. unfold couts_faults. rewrite flat_map_app, in_app_iff. simpl. rewrite app_nil_r. tauto.
Qed.

(* growing the structure by stacks whose faults are exactly those fired in [t1,t2) *)
Lemma acct_struct c X errs t1 t2 Y :
  t1 <= t2 -> (forall x, In x Y <-> (In x X \/ Fk c t1 t2 x)) -> acct c X errs t1 Y errs t2.
Proof.
  intros L H. split; [assumption|]. intros x. rewrite !in_app_iff, H. tauto.
Qed.

Lemma fill_all_acct c runner : runner_ok c runner -> g_fill (grd c) = true ->
  forall l acc errs t cx errs' t',
  fill_all c runner l acc errs t = (cx, errs', t', None) ->
  acct c (couts_faults (rev acc)) errs t (couts_faults cx) errs' t'.
Proof.
  intros Hr Hg. induction l as [|cid r IH]; intros acc errs t cx errs' t' H; simpl in H.
  { inversion H; subst. apply acct_refl. }
  rewrite Hg in H.
  assert (Hsame : forall e t0, acct c (couts_faults (rev acc)) errs t (couts_faults (rev acc)) (e :: errs) t0 ->
             fill_all c runner r (COut cid [] :: acc) (e :: errs) t0 = (cx, errs', t', None) ->
             acct c (couts_faults (rev acc)) errs t (couts_faults cx) errs' t').
  { intros e t0 A E. apply IH in E. eapply acct_trans; [exact A|].
    eapply acct_equiv; [| |exact E]; intros x; [|tauto].
    rewrite couts_snoc_in. simpl. tauto. }
  destruct (fault c t) eqn:F.
  { eapply Hsame; [apply acct_tick_t; assumption|eassumption]. }
  destruct (fill c cid) eqn:Ef.
  2:{ eapply Hsame; [|eassumption]. apply acct_tick_f_err; [assumption|exact I]. }
  destruct (run_kids runner kids [] (S t)) as [[ks ob] t1] eqn:Ek.
  destruct ob as [b|].
  - apply run_kids_from_runner in Ek. destruct Ek as (k0 & t0 & E0 & Nok).
    pose proof (Hr _ _ _ _ E0) as Hb.
    destruct b; [exfalso; eapply Nok; reflexivity|contradiction|discriminate].
  - apply (run_kids_acct c runner Hr) in Ek. destruct Ek as [L Hk].
    apply IH in H.
    eapply acct_trans; [apply acct_tick_f; eassumption|].
    eapply acct_trans; [|exact H].
    apply acct_struct; [assumption|]. intros x. rewrite couts_snoc_in, Hk. simpl. tauto.
Qed.

Lemma ctx_step_acct c runner : runner_ok c runner -> g_fill (grd c) = true ->
  forall f errs t cx errs' t' X,
  ctx_step c runner f errs t = (cx, errs', t', None) ->
  acct c X errs t (X ++ couts_faults cx) errs' t'.
Proof.
  intros Hr Hg f errs t cx errs' t' X H. unfold ctx_step in H.
  assert (Hnil : forall e0 t0, acct c X errs t X e0 t0 -> acct c X errs t (X ++ couts_faults []) e0 t0).
  { intros e0 t0 A. eapply acct_equiv; [| |exact A]; intros x; [tauto|]. simpl. rewrite app_nil_r. tauto. }
  destruct (negb (with_ctx c)).
  { inversion H; subst. apply Hnil, acct_refl. }
  destruct (fault c t) eqn:F.
  { destruct (g_ctx (grd c)); inversion H; subst. apply Hnil, acct_tick_t; assumption. }
  destruct (ctxs c f).
  2:{ destruct (g_ctx (grd c)); inversion H; subst. apply Hnil, acct_tick_f_err; [assumption|exact I]. }
  apply (fill_all_acct c runner Hr Hg) in H. simpl in H.
  eapply acct_trans; [apply acct_tick_f; eassumption|].
  destruct H as [L H]. split; [assumption|]. intros x. specialize (H x).
  rewrite !in_app_iff in *. simpl in H. tauto.
Qed.

Lemma elab_step_acct c f errs t r errs' h t' X :
  elab_step c f errs t = (r, errs', h, t', None) -> acct c X errs t X errs' t'.
Proof.
  unfold elab_step. intros H.
  destruct (fault c t) eqn:F.
  { destruct (g_elab (grd c)); inversion H; subst. apply acct_tick_t; assumption. }
  destruct (elab c f); try (inversion H; subst; apply acct_tick_f; assumption).
  destruct (g_elab (grd c)); inversion H; subst. apply acct_tick_f_err; [assumption|exact I].
Qed.

(* the run-level statement: result tree = what was there + exactly the faults fired since *)
Lemma run_acct fuel : forall first c tu te errs out t s t',
  grd c = all_guards ->
  run fuel first c tu te errs out t = (Ok s, t') ->
  t <= t' /\ forall x, In x (tree_faults s) <-> (In x (efaults errs ++ fouts_faults out) \/ Fk c t t' x).
Proof.
  induction fuel as [|fuel IH]; intros first c tu te errs out t s t' Hg H; [discriminate|].
  destruct (all_guards_fields c Hg) as (Hu & Hi & Hc & Hf & He).
  cbn [run] in H.
  destruct (flatten (S fuel) 0 c tu (rev te) errs t) as [te1 errs1 t1|e1|] eqn:Efl; try discriminate.
  pose proof (flatten_acct _ _ _ _ _ _ _ _ _ _ (fouts_faults out) Efl) as A1.
  assert (Hfin : forall errsN tN outN lf0,
            acct c (fouts_faults out) errs t (fouts_faults outN) errsN tN ->
            (Ok (Stack (rev outN) lf0 (rev errsN)), tN) = (Ok s, t') ->
            t <= t' /\ forall x, In x (tree_faults s) <-> (In x (efaults errs ++ fouts_faults out) \/ Fk c t t' x)).
  { intros errsN tN outN lf0 [L A] E. inversion E; subst. split; [assumption|]. intros x.
    rewrite tree_faults_eq, <- A, !in_app_iff, efaults_rev_in. unfold fouts_faults. rewrite flat_map_rev_in. tauto. }
  destruct te1 as [|[q d] rest]; [eapply Hfin; eassumption|].
  destruct q; try (eapply Hfin; eassumption).
  set (runner := fun k t => run fuel false c [(better_origin c (q_of k) None, q_of k, 0)] [] [] [] t) in H.
  assert (Hr : runner_ok c runner).
  { intros k t0 o t0' E. unfold runner in E. destruct o as [s0|e0|]; [|exfalso|exact I].
    - apply IH in E; [|assumption]. simpl in E. destruct E as [L E]. split; [assumption|].
      intros x. rewrite E. simpl. tauto.
    - eapply (run_total fuel false c); [exact Hg|]. rewrite E. reflexivity. }
  destruct (ctx_step c runner f errs1 t1) as [[[cx errs2] t2] ob] eqn:Ecx.
  destruct ob as [bad|].
  { inversion H; subst. exfalso. eapply ctx_step_bad_not_ok; eauto. }
  pose proof (ctx_step_acct c runner Hr Hf _ _ _ _ _ _ (fouts_faults out) Ecx) as A2.
  destruct (elab_step c f errs2 t2) as [[[[r errs3] hide] t3] oe] eqn:Eel.
  destruct oe as [e3|]; [discriminate|].
  pose proof (elab_step_acct _ _ _ _ _ _ _ _ (fouts_faults out ++ couts_faults cx) Eel) as A3.
  assert (A : acct c (fouts_faults out) errs t (fouts_faults (FOut f hide org cx :: out)) errs3 t3).
  { eapply acct_equiv; [| |eapply acct_trans; [exact A1|eapply acct_trans; [exact A2|exact A3]]]; intros x; [tauto|].
    simpl. rewrite !in_app_iff. tauto. }
  assert (Hrec : forall first' tu' te',
            run fuel first' c tu' te' errs3 (FOut f hide org cx :: out) t3 = (Ok s, t') ->
            t <= t' /\ forall x, In x (tree_faults s) <-> (In x (efaults errs ++ fouts_faults out) \/ Fk c t t' x)).
  { intros first' tu' te' E. apply IH in E; [|assumption]. destruct E as [L E]. destruct A as [LA A].
    split; [lia|]. intros x. rewrite E, A, (Fk_split c t t3 t' x LA L). tauto. }
  destruct first; [eapply Hfin; eassumption|].
  destruct r as [|l|[i| |]|]; try (eapply Hrec; eassumption).
  destruct (next_of rest) as [[| | |]|]; eapply Hrec; eassumption.
Qed.

(* ------------------------------------------------------------------------------------- *)
(* 4. statements used by C05.v                                                            *)

Lemma run_root_errors_exact fuel first c tu te s t' :
  grd c = src_guards -> run fuel first c tu te [] [] 0 = (Ok s, t') ->
  forall k, In k (tree_faults s) <-> (k < t' /\ fault c k = true).
Proof.
  intros Hg E. apply run_acct in E; [|rewrite Hg; apply src_guards_all]. destruct E as [_ E].
  intros k. rewrite E. unfold Fk. split.
  - intros [[]|[[_ ?] ?]]; auto.
  - intros [? ?]; right; split; [lia|assumption].
Qed.

Lemma extract_errors_exact c root s :
  grd c = src_guards -> extract c root = Ok s ->
  exists t', extract_t c root 0 = (Ok s, t') /\
             forall k, In k (tree_faults s) <-> (k < t' /\ fault c k = true).
Proof.
  intros Hg. unfold extract, extract_t.
  generalize (run_root_errors_exact default_fuel false c (root_q c root) []).
  generalize (run default_fuel false c (root_q c root) [] [] [] 0).
  intros [o t'] G H. cbn [fst] in H. subst o.
  exists t'. split; [reflexivity|]. apply G; [assumption|reflexivity].
Qed.

Lemma dropge_spec d : forall q, exists p,
  q = p ++ dropge d q /\ Forall (fun e : qent => d <= snd e) p
  /\ match dropge d q with [] => True | e :: _ => snd e < d end.
Proof.
  induction q as [|[[o i] d'] q IH]; simpl.
  - exists []. repeat split; constructor.
  - destruct (d <=? d') eqn:E.
    + destruct IH as (p & Hq & Hp & Hd). exists ((o, i, d') :: p). repeat split; auto.
      * simpl. f_equal. assumption.
      * constructor; [apply Nat.leb_le in E; assumption|assumption].
    + exists []. repeat split; [constructor|]. simpl. apply Nat.leb_gt in E. assumption.
Qed.

(* a failing contexts step (the hook raises by itself, or the injected fault hits it): the frame
   gets no contexts, exactly one error is recorded, nothing is aborted *)
Lemma ctx_step_fail c runner f errs t :
  with_ctx c = true -> g_ctx (grd c) = true ->
  (fault c t = true \/ ctxs c f = CtxRaise) ->
  ctx_step c runner f errs t = ([], (if fault c t then EFault t else ECtx f) :: errs, S t, None).
Proof.
  intros Hw Hg H. unfold ctx_step. rewrite Hw, Hg. simpl.
  destruct (fault c t); [reflexivity|]. destruct H as [H|H]; [discriminate|]. rewrite H. reflexivity.
Qed.

Lemma elab_step_fail c f errs t :
  g_elab (grd c) = true -> (fault c t = true \/ elab c f = ERaise) ->
  elab_step c f errs t = (ESeq [], (if fault c t then EFault t else EElab f) :: errs, false, S t, None).
Proof.
  intros Hg H. unfold elab_step. rewrite Hg.
  destruct (fault c t); [reflexivity|]. destruct H as [H|H]; [discriminate|]. rewrite H. reflexivity.
Qed.

(* a failing elaborate_frame on the frame at the head of the elaboration queue: the frame is
   yielded un-hidden with the contexts it had obtained, one error is recorded, and the traversal
   continues with the rest minus the maximal run of entries at depth >= the frame's depth *)
Lemma run_elab_fail fuel c tu te errs out t f org d rest errs1 t1 cx errs2 t2 :
  g_elab (grd c) = true ->
  flatten (S fuel) 0 c tu (rev te) errs t = FlOk ((QFr f org, d) :: rest) errs1 t1 ->
  ctx_step c (fun k t => run fuel false c [(better_origin c (q_of k) None, q_of k, 0)] [] [] [] t) f errs1 t1
    = (cx, errs2, t2, None) ->
  (fault c t2 = true \/ elab c f = ERaise) ->
  run (S fuel) false c tu te errs out t =
  run fuel false c (dropge d (requeue rest)) []
      ((if fault c t2 then EFault t2 else EElab f) :: errs2) (FOut f false org cx :: out) (S t2).
Proof.
  intros Hg Efl Ecx H. cbn [run]. rewrite Efl, Ecx, (elab_step_fail c f errs2 t2 Hg H). reflexivity.
Qed.

Lemma run_elab_fail_result fuel c tu te errs out t f org d rest errs1 t1 cx errs2 t2 frs lf es t' :
  g_elab (grd c) = true ->
  flatten (S fuel) 0 c tu (rev te) errs t = FlOk ((QFr f org, d) :: rest) errs1 t1 ->
  ctx_step c (fun k t => run fuel false c [(better_origin c (q_of k) None, q_of k, 0)] [] [] [] t) f errs1 t1
    = (cx, errs2, t2, None) ->
  (fault c t2 = true \/ elab c f = ERaise) ->
  run (S fuel) false c tu te errs out t = (Ok (Stack frs lf es), t') ->
  (exists nf, frs = rev out ++ FOut f false org cx :: nf) /\
  (exists ne, es = rev errs2 ++ (if fault c t2 then EFault t2 else EElab f) :: ne) /\
  (exists pruned, requeue rest = pruned ++ dropge d (requeue rest)
                  /\ Forall (fun e : qent => d <= snd e) pruned
                  /\ match dropge d (requeue rest) with [] => True | e :: _ => snd e < d end).
Proof.
  intros Hg Efl Ecx H R. rewrite (run_elab_fail _ _ _ _ _ _ _ _ _ _ _ _ _ _ _ _ Hg Efl Ecx H) in R.
  apply run_keeps in R. destruct R as [[nf ->] [ne ->]]. repeat split.
  - exists nf. simpl. rewrite <- app_assoc. reflexivity.
  - exists ne. simpl. rewrite <- app_assoc. reflexivity.
  - apply dropge_spec.
Qed.

(* ------------------------------------------------------------------------------------- *)
(* 5. order: within one Stack the fault ticks appear in the order in which they fired      *)

(* reading from the newest entry: strictly decreasing ticks, all below [b] *)
Fixpoint desc_below (b : nat) (l : list nat) : Prop :=
  match l with [] => True | x :: r => x < b /\ desc_below x r end.

Lemma desc_below_mono b b' l : b <= b' -> desc_below b l -> desc_below b' l.
Proof. destruct l; simpl; [auto|]. intros L [H1 H2]. split; [lia|assumption]. Qed.

Definition ord (errs : list err) (t : nat) : Prop := desc_below t (efaults errs).
(* [step errs t errs' t'] : ticks advance and the order invariant is carried along *)
Definition step (errs : list err) (t : nat) (errs' : list err) (t' : nat) : Prop :=
  t <= t' /\ (ord errs t -> ord errs' t').

Lemma step_refl errs t : step errs t errs t.
Proof. split; [lia|auto]. Qed.
Lemma step_trans e0 t0 e1 t1 e2 t2 : step e0 t0 e1 t1 -> step e1 t1 e2 t2 -> step e0 t0 e2 t2.
Proof. intros [L1 H1] [L2 H2]. split; [lia|auto]. Qed.
Lemma step_tick errs t : step errs t errs (S t).
Proof. split; [lia|]. apply desc_below_mono. lia. Qed.
Lemma step_fault errs t : step errs t (EFault t :: errs) (S t).
Proof. split; [lia|]. unfold ord. simpl. intros H. split; [lia|assumption]. Qed.
Lemma step_nf errs t e : not_fault e -> step errs t (e :: errs) t.
Proof. intros N. split; [lia|]. unfold ord. destruct e; simpl in *; tauto. Qed.
Lemma step_tick_nf errs t e : not_fault e -> step errs t (e :: errs) (S t).
Proof. intros N. eapply step_trans; [apply step_nf; eassumption|apply step_tick]. Qed.
Lemma step_mono errs t t' : t <= t' -> step errs t errs t'.
Proof. intros L. split; [assumption|]. apply desc_below_mono. assumption. Qed.

Lemma iter_step_ord c o errs : forall l raises t k e t',
  iter_steps c o l raises t = (k, e, t') ->
  step errs t (match e with Some e => e :: errs | None => errs end) t'.
Proof.
  induction l as [|i l IH]; intros raises t k e t' H; simpl in H.
  - destruct (fault c t); inversion H; subst; [apply step_fault|].
    destruct raises; [apply step_tick_nf; exact I|apply step_tick].
  - destruct (fault c t); [inversion H; subst; apply step_fault|].
    destruct (iter_steps c o l raises (S t)) as [[k1 e1] t1] eqn:E. inversion H; subst.
    eapply step_trans; [apply step_tick|eapply IH; eassumption].
Qed.

Lemma flatten_ord fuel : forall cnt c tu te errs t te' errs' t',
  flatten fuel cnt c tu te errs t = FlOk te' errs' t' -> step errs t errs' t'.
Proof.
  induction fuel as [|fuel IH]; intros cnt c tu te errs t te' errs' t' H; simpl in H; [discriminate|].
  destruct tu as [|[[org cur] d] tu'].
  { inversion H; subst. apply step_refl. }
  destruct cur; try (eapply IH; eassumption).
  - destruct (fault c t).
    { destruct (g_unwrap (grd c)); [|discriminate].
      eapply step_trans; [apply step_fault|eapply IH; eassumption]. }
    destruct (unwrap c o) eqn:Eu;
      try (destruct (uguard c <? S cnt));
      try (destruct (g_unwrap (grd c)); [|discriminate]);
      try ((eapply step_trans; [|eapply IH; eassumption]); first [apply step_tick_nf; exact I|apply step_tick]; fail).
    match type of H with context [iter_steps c o ?l ?r ?tt] => destruct (iter_steps c o l r tt) as [[k er] t2] eqn:Ei end.
    pose proof (iter_step_ord c o errs _ _ _ _ _ _ Ei) as Ti.
    destruct er; try (destruct (g_iter (grd c)); [|discriminate]);
      (eapply step_trans; [apply step_tick|]; eapply step_trans; [apply Ti|eapply IH; eassumption]).
  - destruct (fault c t).
    { destruct (g_unwrap (grd c)); [|discriminate].
      eapply step_trans; [apply step_fault|eapply IH; eassumption]. }
    destruct (uguard c <? S cnt); try (destruct (g_unwrap (grd c)); [|discriminate]);
      (eapply step_trans; [|eapply IH; eassumption]); first [apply step_tick_nf; exact I|apply step_tick].
Qed.

Definition runner_mono (runner : item -> nat -> outcome * nat) : Prop :=
  forall k t o t', runner k t = (o, t') -> t <= t'.

Lemma run_kids_mono runner : runner_mono runner -> forall kids acc t ks ob t',
  run_kids runner kids acc t = (ks, ob, t') -> t <= t'.
Proof.
  intros Hm. induction kids as [|k r IH]; intros acc t ks ob t' H; simpl in H.
  - inversion H; subst. lia.
  - destruct (runner k t) as [o t1] eqn:E. apply Hm in E.
    destruct o; [apply IH in H; lia| |]; inversion H; subst; assumption.
Qed.

Lemma fill_all_ord c runner : runner_mono runner -> runner_total runner -> g_fill (grd c) = true ->
  forall l acc errs t cx errs' t' ob,
  fill_all c runner l acc errs t = (cx, errs', t', ob) -> step errs t errs' t'.
Proof.
  intros Hm Ht Hg. induction l as [|cid r IH]; intros acc errs t cx errs' t' ob H; simpl in H.
  { inversion H; subst. apply step_refl. }
  rewrite Hg in H.
  destruct (fault c t).
  { eapply step_trans; [apply step_fault|eapply IH; eassumption]. }
  destruct (fill c cid).
  2:{ (eapply step_trans; [|eapply IH; eassumption]); apply step_tick_nf; exact I. }
  destruct (run_kids runner kids [] (S t)) as [[ks ob1] t1] eqn:Ek.
  pose proof (run_kids_mono runner Hm _ _ _ _ _ _ Ek) as L1.
  destruct ob1 as [b|].
  - apply run_kids_from_runner in Ek. destruct Ek as (k0 & t0 & E0 & Nok).
    destruct b.
    + exfalso. eapply Nok. reflexivity.
    + exfalso. eapply (Ht k0 t0 e). rewrite E0. reflexivity.
    + inversion H; subst. apply step_mono. lia.
  - eapply step_trans; [apply (step_mono errs t t1); lia|eapply IH; eassumption].
Qed.

Lemma ctx_step_ord c runner : runner_mono runner -> runner_total runner ->
  g_fill (grd c) = true -> g_ctx (grd c) = true ->
  forall f errs t cx errs' t' ob,
  ctx_step c runner f errs t = (cx, errs', t', ob) -> step errs t errs' t'.
Proof.
  intros Hm Ht Hf Hc f errs t cx errs' t' ob H. unfold ctx_step in H. rewrite Hc in H.
  destruct (negb (with_ctx c)); [inversion H; subst; apply step_refl|].
  destruct (fault c t); [inversion H; subst; apply step_fault|].
  destruct (ctxs c f); [|inversion H; subst; apply step_tick_nf; exact I].
  eapply step_trans; [apply step_tick|eapply fill_all_ord; eassumption].
Qed.

Lemma elab_step_ord c f errs t r errs' h t' oe : g_elab (grd c) = true ->
  elab_step c f errs t = (r, errs', h, t', oe) -> step errs t errs' t'.
Proof.
  intros Hg H. unfold elab_step in H. rewrite Hg in H.
  destruct (fault c t); [inversion H; subst; apply step_fault|].
  destruct (elab c f); inversion H; subst; first [apply step_tick|apply step_tick_nf; exact I].
Qed.

Lemma efaults_rev l : efaults (rev l) = rev (efaults l).
Proof.
  induction l as [|e l IH]; simpl; [reflexivity|]. rewrite efaults_app, IH.
  destruct e; simpl; try apply app_nil_r; reflexivity.
Qed.

Lemma run_ord fuel : forall first c tu te errs out t o t',
  grd c = all_guards ->
  run fuel first c tu te errs out t = (o, t') ->
  t <= t' /\ forall frs lf es, o = Ok (Stack frs lf es) -> ord errs t -> desc_below t' (rev (efaults es)).
Proof.
  induction fuel as [|fuel IH]; intros first c tu te errs out t o t' Hg H.
  { inversion H; subst. split; [lia|discriminate]. }
  destruct (all_guards_fields c Hg) as (Hu & Hi & Hc & Hf & He).
  cbn [run] in H.
  destruct (flatten (S fuel) 0 c tu (rev te) errs t) as [te1 errs1 t1|e1|] eqn:Efl;
    [|inversion H; subst; split; [lia|discriminate]|inversion H; subst; split; [lia|discriminate]].
  pose proof (flatten_ord _ _ _ _ _ _ _ _ _ _ Efl) as S1.
  assert (Hfin : forall errsN tN outN lf0, step errs t errsN tN ->
            (Ok (Stack (rev outN) lf0 (rev errsN)), tN) = (o, t') ->
            t <= t' /\ forall frs lf es, o = Ok (Stack frs lf es) -> ord errs t -> desc_below t' (rev (efaults es))).
  { intros errsN tN outN lf0 [L S] E. inversion E; subst. split; [assumption|].
    intros frs lf es E2 Ho. inversion E2; subst. rewrite efaults_rev, rev_involutive. apply S. assumption. }
  destruct te1 as [|[q d] rest]; [eapply Hfin; eassumption|].
  destruct q; try (eapply Hfin; eassumption).
  set (runner := fun k t => run fuel false c [(better_origin c (q_of k) None, q_of k, 0)] [] [] [] t) in H.
  assert (Hm : runner_mono runner) by (intros k t0 o0 t0' E; apply IH in E; [tauto|assumption]).
  assert (Ht : runner_total runner) by (intros k t0 e0; apply run_total; assumption).
  destruct (ctx_step c runner f errs1 t1) as [[[cx errs2] t2] ob] eqn:Ecx.
  pose proof (ctx_step_ord c runner Hm Ht Hf Hc _ _ _ _ _ _ _ Ecx) as S2.
  destruct ob as [bad|].
  { inversion H; subst. split; [destruct S1, S2; lia|].
    intros frs lf es E. exfalso. eapply ctx_step_bad_not_ok; eauto. }
  destruct (elab_step c f errs2 t2) as [[[[r errs3] hide] t3] oe] eqn:Eel.
  pose proof (elab_step_ord _ _ _ _ _ _ _ _ _ He Eel) as S3.
  destruct oe as [e3|]; [exfalso; eapply elab_step_total; eauto|].
  assert (S : step errs t errs3 t3) by (eapply step_trans; [exact S1|eapply step_trans; eassumption]).
  assert (Hrec : forall first' tu' te' outN,
            run fuel first' c tu' te' errs3 outN t3 = (o, t') ->
            t <= t' /\ forall frs lf es, o = Ok (Stack frs lf es) -> ord errs t -> desc_below t' (rev (efaults es))).
  { intros first' tu' te' outN E. apply IH in E; [|assumption]. destruct E as [L E]. destruct S as [LS S].
    split; [lia|]. intros frs lf es E2 Ho. eapply E; [eassumption|]. apply S. assumption. }
  destruct first; [eapply Hfin; eassumption|].
  destruct r as [|l|[i| |]|]; try (eapply Hrec; eassumption).
  destruct (next_of rest) as [[| | |]|]; eapply Hrec; eassumption.
Qed.

Lemma extract_errors_ordered c root frs lf es :
  grd c = src_guards -> extract c root = Ok (Stack frs lf es) ->
  exists t', snd (extract_t c root 0) = t' /\ desc_below t' (rev (efaults es)).
Proof.
  intros Hg. unfold extract, extract_t.
  generalize (run_ord default_fuel false c (root_q c root) [] [] [] 0).
  generalize (run default_fuel false c (root_q c root) [] [] [] 0).
  intros [o t'] G H. cbn [fst snd] in *. subst o. exists t'. split; [reflexivity|].
  destruct (G _ _ (eq_trans Hg src_guards_all) eq_refl) as [_ G2]. eapply G2; [reflexivity|exact I].
Qed.

(* ------------------------------------------------------------------------------------- *)
(* 6. shape of Stack.error                                                                 *)

Lemma error_shape l :
  errs_of (error_of l) = l /\
  (error_of l = ENoError <-> l = []) /\
  (forall e, error_of l = ESingle e <-> l = [e]) /\
  (forall g, error_of l = EGroup g <-> (g = l /\ 2 <= length l)).
Proof.
  destruct l as [|a [|b r]]; simpl; repeat split; intros;
    repeat match goal with H : _ /\ _ |- _ => destruct H end;
    subst; simpl in *; try discriminate; try reflexivity; try lia;
    try (match goal with H : _ = _ |- _ => inversion H; subst; clear H end;
         try reflexivity; try discriminate; simpl; try lia).
Qed.

(* ------------------------------------------------------------------------------------- *)
(* 7. location: a fault fired during a nested extraction is recorded inside that nested     *)
(*    Stack and not in the error list of the Stack around it                               *)

(* k is the result of an extract_child run started with empty lists at tick a, ended at b *)
Definition fresh_run (c : cfg) (k : stack) (a b : nat) : Prop :=
  exists fuel' item, run fuel' false c (root_q c item) [] [] [] a = (Ok k, b).

Definition QL (c : cfg) (P : stack -> Prop) (errs : list err) (t : nat) : Prop :=
  (forall x, In x (efaults errs) -> x < t) /\
  forall k, P k -> exists a b, a <= b /\ b <= t /\ fresh_run c k a b
                               /\ forall x, In x (efaults errs) -> ~ (a <= x < b).

Lemma QL_equiv c (P P' : stack -> Prop) errs t : (forall k, P' k -> P k) -> QL c P errs t -> QL c P' errs t.
Proof. intros H [B Q]. split; [assumption|]. intros k Hk. apply Q, H, Hk. Qed.

Lemma QL_nf c P errs t e : not_fault e -> QL c P errs t -> QL c P (e :: errs) t.
Proof.
  intros N. assert (E : efaults (e :: errs) = efaults errs) by (destruct e; simpl in *; tauto).
  unfold QL. rewrite E. auto.
Qed.

Lemma QL_tick c P errs t t2 : t <= t2 -> QL c P errs t -> QL c P errs t2.
Proof.
  intros L [B Q]. split; [intros x Hx; apply B in Hx; lia|].
  intros k Hk. destruct (Q k Hk) as (a & b & L1 & L2 & F & A). exists a, b. repeat split; auto. lia.
Qed.

Lemma QL_fault c P errs t : QL c P errs t -> QL c P (EFault t :: errs) (S t).
Proof.
  intros [B Q]. split.
  - simpl. intros x [<-|Hx]; [lia|apply B in Hx; lia].
  - intros k Hk. destruct (Q k Hk) as (a & b & L1 & L2 & F & A). exists a, b. repeat split; auto.
    simpl. intros x [<-|Hx]; [lia|apply A; assumption].
Qed.

Lemma QL_tick_nf c P errs t e : not_fault e -> QL c P errs t -> QL c P (e :: errs) (S t).
Proof. intros N H. apply QL_nf; [assumption|]. eapply QL_tick; [|eassumption]. lia. Qed.

Lemma QL_kid c P errs t k a b :
  QL c P errs t -> t <= a -> a <= b -> fresh_run c k a b -> QL c (fun x => P x \/ x = k) errs b.
Proof.
  intros [B Q] L1 L2 F. split; [intros x Hx; apply B in Hx; lia|].
  intros k' [Hk| ->].
  - destruct (Q k' Hk) as (a' & b' & M1 & M2 & F' & A). exists a', b'. repeat split; auto. lia.
  - exists a, b. repeat split; auto. intros x Hx. apply B in Hx. lia.
Qed.

Lemma iter_steps_QL c P o errs : forall l raises t k e t',
  iter_steps c o l raises t = (k, e, t') -> QL c P errs t ->
  QL c P (match e with Some e => e :: errs | None => errs end) t'.
Proof.
  induction l as [|i l IH]; intros raises t k e t' H Q; simpl in H.
  - destruct (fault c t); inversion H; subst; [apply QL_fault; assumption|].
    destruct raises; [apply QL_tick_nf; [exact I|assumption]|eapply QL_tick; [|eassumption]; lia].
  - destruct (fault c t); [inversion H; subst; apply QL_fault; assumption|].
    destruct (iter_steps c o l raises (S t)) as [[k1 e1] t1] eqn:E. inversion H; subst.
    eapply IH; [eassumption|]. eapply QL_tick; [|eassumption]. lia.
Qed.

Lemma flatten_QL fuel : forall cnt c P tu te errs t te' errs' t',
  flatten fuel cnt c tu te errs t = FlOk te' errs' t' -> QL c P errs t -> QL c P errs' t'.
Proof.
  induction fuel as [|fuel IH]; intros cnt c P tu te errs t te' errs' t' H Q; simpl in H; [discriminate|].
  destruct tu as [|[[org cur] d] tu'].
  { inversion H; subst. assumption. }
  assert (T : QL c P errs (S t)) by (eapply QL_tick; [|eassumption]; lia).
  destruct cur; try (eapply IH; eassumption).
  - destruct (fault c t).
    { destruct (g_unwrap (grd c)); [|discriminate]. eapply IH; [eassumption|]. apply QL_fault. assumption. }
    destruct (unwrap c o) eqn:Eu;
      try (destruct (uguard c <? S cnt));
      try (destruct (g_unwrap (grd c)); [|discriminate]);
      try (eapply IH; [eassumption|]; first [exact T|apply QL_tick_nf; [exact I|assumption]]; fail).
    match type of H with context [iter_steps c o ?l ?r ?tt] => destruct (iter_steps c o l r tt) as [[k er] t2] eqn:Ei end.
    pose proof (iter_steps_QL c P o errs _ _ _ _ _ _ Ei T) as Ti.
    destruct er; try (destruct (g_iter (grd c)); [|discriminate]); (eapply IH; [eassumption|exact Ti]).
  - destruct (fault c t).
    { destruct (g_unwrap (grd c)); [|discriminate]. eapply IH; [eassumption|]. apply QL_fault. assumption. }
    destruct (uguard c <? S cnt); try (destruct (g_unwrap (grd c)); [|discriminate]);
      (eapply IH; [eassumption|]; first [exact T|apply QL_tick_nf; [exact I|assumption]]).
Qed.

(* a nested extraction: goes forward in time and, when it returns a Stack, that Stack is a fresh run *)
Definition runner_fresh (c : cfg) (runner : item -> nat -> outcome * nat) : Prop :=
  forall k t o t', runner k t = (o, t') -> t <= t' /\ forall s, o = Ok s -> fresh_run c s t t'.

Lemma flat_map_rev_in_gen {A B} (g : A -> list B) l x : In x (flat_map g l) -> In x (flat_map g (rev l)).
Proof.
  rewrite !in_flat_map. intros (y & Hy & Hx). exists y. split; [apply -> in_rev; assumption|assumption].
Qed.

Lemma run_kids_acc_in runner : forall kids acc t ks ob t' k,
  run_kids runner kids acc t = (ks, ob, t') -> In k acc -> In k ks.
Proof.
  induction kids as [|i r IH]; intros acc t ks ob t' k H Hin; simpl in H.
  - inversion H; subst. apply -> in_rev. assumption.
  - destruct (runner i t) as [o t1]. destruct o; [eapply IH; [eassumption|right; assumption]| |];
      inversion H; subst; apply -> in_rev; assumption.
Qed.

Lemma run_kids_QL c runner : runner_fresh c runner -> forall kids acc P errs t ks t',
  run_kids runner kids acc t = (ks, None, t') -> QL c P errs t -> (forall k, In k acc -> P k) ->
  QL c (fun k => P k \/ In k ks) errs t'.
Proof.
  intros Hr. induction kids as [|i r IH]; intros acc P errs t ks t' H Q Hacc; simpl in H.
  - inversion H; subst. eapply QL_equiv; [|eassumption]. intros k [Hk|Hk]; [assumption|apply Hacc, in_rev, Hk].
  - destruct (runner i t) as [o t1] eqn:E. destruct (Hr _ _ _ _ E) as [L F].
    destruct o as [s| |]; try discriminate.
    pose proof (run_kids_acc_in runner _ _ _ _ _ _ s H (or_introl eq_refl)) as Hs.
    eapply QL_equiv; [|eapply (IH (s :: acc) (fun x => P x \/ x = s)); [eassumption| |]].
    + intros k [Hk|Hk]; [left; left; assumption|right; assumption].
    + apply (QL_kid c P errs t s t t1 Q); [lia|assumption|apply F; reflexivity].
    + intros k [<-|Hk]; [right; reflexivity|left; apply Hacc, Hk].
Qed.

Lemma fill_all_acc_in c runner : forall l acc errs t cx errs' t' k,
  fill_all c runner l acc errs t = (cx, errs', t', None) -> In k (couts_kids acc) -> In k (couts_kids cx).
Proof.
  assert (Hsn : forall cid ks acc k, In k (couts_kids acc) -> In k (couts_kids (COut cid ks :: acc))).
  { intros. simpl. apply in_or_app. right. assumption. }
  induction l as [|cid r IH]; intros acc errs t cx errs' t' k H Hin; simpl in H.
  - inversion H; subst. unfold couts_kids. apply flat_map_rev_in_gen. assumption.
  - destruct (g_fill (grd c));
    (destruct (fault c t); [first [eapply IH; [eassumption|apply Hsn; assumption]|discriminate]|]);
    (destruct (fill c cid); [|first [eapply IH; [eassumption|apply Hsn; assumption]|discriminate]]);
    destruct (run_kids runner kids [] (S t)) as [[ks ob1] t1];
    (destruct ob1 as [b|]; [destruct b|]);
    first [eapply IH; [eassumption|apply Hsn; assumption]|discriminate].
Qed.

Lemma fill_all_QL c runner : runner_fresh c runner -> runner_total runner -> g_fill (grd c) = true ->
  forall l acc P errs t cx errs' t',
  fill_all c runner l acc errs t = (cx, errs', t', None) -> QL c P errs t ->
  (forall k, In k (couts_kids acc) -> P k) ->
  QL c (fun k => P k \/ In k (couts_kids cx)) errs' t'.
Proof.
  intros Hr Ht Hg. induction l as [|cid r IH]; intros acc P errs t cx errs' t' H Q Hacc; simpl in H.
  { inversion H; subst. eapply QL_equiv; [|eassumption].
    intros k [Hk|Hk]; [assumption|]. apply Hacc. unfold couts_kids in *.
    rewrite in_flat_map in *. destruct Hk as (y & Hy & Hx). exists y. split; [apply in_rev; assumption|assumption]. }
  rewrite Hg in H.
  assert (Hemp : forall k, In k (couts_kids (COut cid [] :: acc)) -> P k) by (intros k Hk; apply Hacc; exact Hk).
  destruct (fault c t).
  { eapply IH; [eassumption|apply QL_fault; assumption|exact Hemp]. }
  destruct (fill c cid).
  2:{ eapply IH; [eassumption|apply QL_tick_nf; [exact I|assumption]|exact Hemp]. }
  destruct (run_kids runner kids [] (S t)) as [[ks ob1] t1] eqn:Ek.
  destruct ob1 as [b|].
  - pose proof Ek as Ek2. apply run_kids_from_runner in Ek2. destruct Ek2 as (k0 & t0 & E0 & Nok).
    destruct b; [exfalso; eapply Nok; reflexivity| |discriminate].
    exfalso. eapply (Ht k0 t0 e). rewrite E0. reflexivity.
  - pose proof (run_kids_QL c runner Hr _ _ P errs (S t) _ _ Ek) as Qk.
    assert (Q1 : QL c (fun k => P k \/ In k ks) errs t1).
    { apply Qk; [eapply QL_tick; [|eassumption]; lia|intros k []]. }
    eapply QL_equiv; [|eapply (IH (COut cid ks :: acc) (fun k => P k \/ In k ks)); [eassumption|exact Q1|]].
    + intros k [Hk|Hk]; [left; left; assumption|right; assumption].
    + intros k Hk. simpl in Hk. apply in_app_or in Hk. destruct Hk as [Hk|Hk]; [right; assumption|left; apply Hacc, Hk].
Qed.

Lemma ctx_step_QL c runner : runner_fresh c runner -> runner_total runner -> g_fill (grd c) = true ->
  forall f P errs t cx errs' t',
  ctx_step c runner f errs t = (cx, errs', t', None) -> QL c P errs t ->
  QL c (fun k => P k \/ In k (couts_kids cx)) errs' t'.
Proof.
  intros Hr Ht Hg f P errs t cx errs' t' H Q. unfold ctx_step in H.
  assert (Hnil : forall e0 t0, QL c P e0 t0 -> QL c (fun k => P k \/ In k (couts_kids [])) e0 t0).
  { intros e0 t0 Q0. eapply QL_equiv; [|eassumption]. intros k [Hk|[]]. assumption. }
  destruct (negb (with_ctx c)); [inversion H; subst; apply Hnil; assumption|].
  destruct (fault c t).
  { destruct (g_ctx (grd c)); inversion H; subst. apply Hnil, QL_fault. assumption. }
  destruct (ctxs c f).
  2:{ destruct (g_ctx (grd c)); inversion H; subst. apply Hnil, QL_tick_nf; [exact I|assumption]. }
  eapply (fill_all_QL c runner Hr Ht Hg); [eassumption|eapply QL_tick; [|eassumption]; lia|intros k []].
Qed.

Lemma elab_step_QL c f P errs t r errs' h t' :
  elab_step c f errs t = (r, errs', h, t', None) -> QL c P errs t -> QL c P errs' t'.
Proof.
  unfold elab_step. intros H Q.
  destruct (fault c t).
  { destruct (g_elab (grd c)); inversion H; subst. apply QL_fault. assumption. }
  destruct (elab c f); try (inversion H; subst; eapply QL_tick; [|eassumption]; lia).
  destruct (g_elab (grd c)); inversion H; subst. apply QL_tick_nf; [exact I|assumption].
Qed.

(* the located form of a result: every child Stack is a fresh nested run over some tick interval
   [a,b), its tree reports exactly the faults fired in [a,b), and the error list of the Stack
   around it holds no tick of that interval *)
Definition located (c : cfg) (frs : list fout) (es : list err) : Prop :=
  forall k, In k (fouts_kids frs) ->
    exists a b, a <= b /\ fresh_run c k a b
                /\ (forall x, In x (tree_faults k) <-> Fk c a b x)
                /\ forall x, In x (efaults es) -> ~ (a <= x < b).

Lemma run_located fuel : forall first c tu te errs out t frs lf es t' P,
  grd c = all_guards ->
  run fuel first c tu te errs out t = (Ok (Stack frs lf es), t') ->
  QL c P errs t -> (forall k, In k (fouts_kids out) -> P k) ->
  located c frs es.
Proof.
  induction fuel as [|fuel IH]; intros first c tu te errs out t frs lf es t' P Hg H Q Hout; [discriminate|].
  destruct (all_guards_fields c Hg) as (Hu & Hi & Hc & Hf & He).
  cbn [run] in H.
  destruct (flatten (S fuel) 0 c tu (rev te) errs t) as [te1 errs1 t1|e1|] eqn:Efl; try discriminate.
  pose proof (flatten_QL _ _ _ P _ _ _ _ _ _ _ Efl Q) as Q1.
  assert (Hfin : forall errsN tN outN lf0 PN, QL c PN errsN tN -> (forall k, In k (fouts_kids outN) -> PN k) ->
            (Ok (Stack (rev outN) lf0 (rev errsN)), tN) = (Ok (Stack frs lf es), t') -> located c frs es).
  { intros errsN tN outN lf0 PN [B QN] HN E. inversion E; subst. intros k Hk.
    assert (Hk' : In k (fouts_kids outN)).
    { unfold fouts_kids in *. rewrite in_flat_map in *. destruct Hk as (y & Hy & Hx). exists y. split; [apply in_rev; assumption|assumption]. }
    destruct (QN k (HN k Hk')) as (a & b & L1 & L2 & F & A). exists a, b.
    split; [assumption|]. split; [assumption|]. split.
    - destruct F as (fuel' & item & F). apply run_acct in F; [|assumption]. destruct F as [_ F].
      intros y. rewrite F. simpl. tauto.
    - intros y Hy. apply A. apply efaults_rev_in. assumption. }
  destruct te1 as [|[q d] rest]; [eapply Hfin; eassumption|].
  destruct q; try (eapply Hfin; eassumption).
  set (runner := fun k t => run fuel false c [(better_origin c (q_of k) None, q_of k, 0)] [] [] [] t) in H.
  assert (Hr : runner_fresh c runner).
  { intros k t0 o t0' E. split; [apply (run_ord fuel false c _ _ _ _ _ _ _ Hg E)|].
    intros s ->. exists fuel, k. exact E. }
  assert (Ht : runner_total runner) by (intros k t0 e0; apply run_total; assumption).
  destruct (ctx_step c runner f errs1 t1) as [[[cx errs2] t2] ob] eqn:Ecx.
  destruct ob as [bad|].
  { inversion H; subst. exfalso. eapply ctx_step_bad_not_ok; eauto. }
  pose proof (ctx_step_QL c runner Hr Ht Hf _ P _ _ _ _ _ Ecx Q1) as Q2.
  destruct (elab_step c f errs2 t2) as [[[[r errs3] hide] t3] oe] eqn:Eel.
  destruct oe as [e3|]; [discriminate|].
  pose proof (elab_step_QL _ _ _ _ _ _ _ _ _ Eel Q2) as Q3.
  assert (Hout' : forall k, In k (fouts_kids (FOut f hide org cx :: out)) -> P k \/ In k (couts_kids cx)).
  { intros k Hk. simpl in Hk. apply in_app_or in Hk. destruct Hk as [Hk|Hk]; [right; assumption|left; apply Hout, Hk]. }
  assert (Hrec : forall first' tu' te',
            run fuel first' c tu' te' errs3 (FOut f hide org cx :: out) t3 = (Ok (Stack frs lf es), t') -> located c frs es).
  { intros first' tu' te' E. eapply IH; [exact Hg|exact E|exact Q3|exact Hout']. }
  destruct first; [eapply Hfin; eassumption|].
  destruct r as [|l|[i| |]|]; try (eapply Hrec; eassumption).
  destruct (next_of rest) as [[| | |]|]; eapply Hrec; eassumption.
Qed.

Lemma extract_error_location c root frs lf es :
  grd c = src_guards -> extract c root = Ok (Stack frs lf es) -> located c frs es.
Proof.
  intros Hg. unfold extract, extract_t.
  generalize (run_located default_fuel false c (root_q c root) [] [] [] 0).
  generalize (run default_fuel false c (root_q c root) [] [] [] 0).
  intros [o t'] G H. cbn [fst] in H. subst o.
  apply (G frs lf es t' (fun _ => False)); [rewrite Hg; apply src_guards_all|reflexivity| |intros k []].
  split; [intros x []|intros k []].
Qed.
